/-!
Model of dataset loading (property C04), phylib/io/model.py: `_load_data` and its helpers
(`_find_path`, `read_array`, `_read_array`, `_load_spike_samples`, `_load_spike_clusters`,
`_load_templates`, `_load_wm/_load_wmi/_compute_wmi`, defaults of optional files).
A dataset directory is a finite map from file names to arrays; loading returns the loaded view and
the new directory (so that "creates nothing except …" is a statement about the returned directory).
Array cells are tokens (or NaN / inf); `np.linalg.inv` is an opaque parameter.
-/
namespace PhyVerif.C04

inductive Cell where
  | num (i : Int)
  | nan
  | inf
deriving Repr, DecidableEq

structure Arr where
  shape : List Nat
  data : List Cell
deriving Repr, DecidableEq

abbrev Dir := List (String × Arr)

/-- `.squeeze()` -/
def squeeze (a : Arr) : Arr := { a with shape := a.shape.filter (· != 1) }

/-- `np.atleast_1d / 2d / 3d` on the shape (2d prepends, 3d: (n,) → (1,n,1), (m,n) → (m,n,1)) -/
def atleast (k : Nat) (a : Arr) : Arr :=
  match k, a.shape with
  | 1, [] => { a with shape := [1] }
  | 2, [] => { a with shape := [1, 1] }
  | 2, [n] => { a with shape := [1, n] }
  | 3, [] => { a with shape := [1, 1, 1] }
  | 3, [n] => { a with shape := [1, n, 1] }
  | 3, [m, n] => { a with shape := [m, n, 1] }
  | _, _ => a

/-- `read_array(path, mmap_mode=None)`: NaN and inf replaced by zero -/
def scrub (a : Arr) : Arr :=
  { a with data := a.data.map fun c => match c with | .num i => .num i | _ => .num 0 }

/-- split a pattern at its first `*` -/
def splitStar : List Char → List Char × Option (List Char)
  | [] => ([], none)
  | '*' :: rest => ([], some rest)
  | c :: rest => let r := splitStar rest; (c :: r.1, r.2)

/-- glob pattern with at most one `*` -/
def globMatch (pat name : String) : Bool :=
  let n := name.toList
  match splitStar pat.toList with
  | (pre, none) => pre == n
  | (pre, some suf) => pre.isPrefixOf n && suf.isSuffixOf n && decide (pre.length + suf.length ≤ n.length)

/-- `_find_path(*names)`: for each pattern in order, the files matching it; the first pattern with
a match wins and its first match (directory order) is returned -/
def findPath (d : Dir) : List String → Option String
  | [] => none
  | pat :: rest =>
    match (d.filter fun f => globMatch pat f.1).head? with
    | some f => some f.1
    | none => findPath d rest

def readFile (d : Dir) (names : List String) : Option Arr :=
  match findPath d names with
  | some f => d.lookup f
  | none => none

/-- where spike times / samples come from -/
inductive TimeSrc where
  | samplesOverRate (samples : Arr)          -- KS: times = samples / sample_rate
  | stored (times : Arr)                     -- ALF: seconds as stored
deriving Repr, DecidableEq

inductive SampleSrc where
  | file (samples : Arr)
  | roundedTimes (times : Arr)               -- round(times * rate).astype(uint64)
deriving Repr, DecidableEq

/-- the loaded attributes that come from `.npy` files -/
structure View where
  times : TimeSrc
  samples : SampleSrc
  amplitudes : Option Arr
  spikeTemplates : Arr
  spikeClusters : Arr
  channelMap : Arr
  channelPositions : Arr
  channelShanks : Option Arr        -- `none` = default zeros(n_channels)
  channelProbes : Option Arr        -- `none` = default zeros(n_channels)
  templates : Option Arr            -- all-NaN templates read as zeros
  templateCols : Option Arr         -- `none` = dense
  wm : Option Arr                   -- `none` = identity
  wmi : Option Arr                  -- `none` = inverse computed from wm (and written)
  similar : Option Arr              -- `none` = zeros (nt, nt)
deriving Repr, DecidableEq

inductive LoadErr where
  | missing (what : String)
  | nonMonotone
  | conflict (what : String)      -- two candidate files for one attribute where the loader accepts only one
deriving Repr, DecidableEq

/-- `np.all(np.diff(x) >= 0)` on the cells of a vector (NaN compares false) -/
def monotone : List Cell → Bool
  | .num a :: .num b :: t => decide (a ≤ b) && monotone (.num b :: t)
  | [_] => true
  | [] => true
  | _ => false

/-- a template `(ns, nc)` block is "empty" when every cell is NaN: `data[empty] = 0` -/
def zeroNanTemplates (a : Arr) : Arr :=
  match a.shape with
  | [nt, ns, nc] =>
    let sz := ns * nc
    let blocks := (List.range nt).map fun t => (a.data.drop (t * sz)).take sz
    { a with data := (blocks.map fun b => if sz != 0 && b.all (· == .nan) then b.map (fun _ => .num 0) else b).flatten }
  | _ => a

/-- `np.eye(n)`; `one` is the cell standing for 1.0 -/
def eye (one : Cell) (n : Nat) : Arr :=
  ⟨[n, n], ((List.range n).map fun i => (List.range n).map fun j => if i = j then one else .num 0).flatten⟩

/-- `_load_data` restricted to the array files.  `inv` stands for `np.linalg.inv`; `one` is the cell standing for
1.0 (it occurs only in the identity `np.eye(nc)` that replaces a missing whitening matrix, model.py:438-442, whose
inverse `_compute_wmi` WRITES to `whitening_mat_inv.npy`, model.py:447, 760; trailing parameter with the unit token as
default so that users whose cells are unscaled integers write `load inv d`). -/
def load (inv : Arr → Arr) (d : Dir) (one : Cell := .num 1) : Except LoadErr (View × Dir) := do
  -- spike samples / times
  let (times, samples, tcells) ← match d.lookup "spike_times.npy" with
    | some s =>
      -- `_read_array` scrubs NaN/inf here too (a float `spike_times.npy`)
      pure (TimeSrc.samplesOverRate (squeeze (scrub s)), SampleSrc.file (squeeze (scrub s)), (scrub s).data)
    | none =>
      match readFile d ["spikes.times*.npy"] with
      | none => throw (.missing "spike times")
      | some t =>
        match readFile d ["spikes.samples*.npy"] with
        | some s => pure (TimeSrc.stored (squeeze (scrub t)), SampleSrc.file (squeeze (scrub s)), (scrub t).data)
        | none => pure (TimeSrc.stored (squeeze (scrub t)), SampleSrc.roundedTimes (squeeze (scrub t)), (scrub t).data)
  if !monotone tcells then throw .nonMonotone
  let amplitudes := (readFile d ["amplitudes.npy", "spikes.amps*.npy"]).map fun a => squeeze (scrub a)
  let st ← match readFile d ["spike_templates.npy", "spikes.templates*.npy"] with
    | some a => pure (squeeze (scrub a))
    | none => throw (.missing "spike templates")
  -- spike clusters: copy of the spike-template file when absent
  -- `_find_path(..., multiple_ok=False)`: a directory holding both names is refused
  if (findPath d ["spike_clusters.npy"]).isSome && (findPath d ["spikes.clusters*.npy"]).isSome then
    throw (.conflict "spike clusters")
  let (sc, d1) ← match findPath d ["spike_clusters.npy", "spikes.clusters*.npy"] with
    | some f => match d.lookup f with
      | some a => pure (squeeze (scrub a), d)
      | none => throw (.missing "spike clusters")
    | none =>
      match findPath d ["spike_templates.npy", "spikes.templates*.npy"] with
      | some f => match d.lookup f with
        | some a => pure (squeeze (scrub a), d ++ [("spike_clusters.npy", a)])
        | none => throw (.missing "spike templates")
      | none => throw (.missing "spike templates")
  let cm ← match readFile d1 ["channel_map.npy", "channels.rawInd*.npy"] with
    | some a => pure (atleast 1 (squeeze (scrub a)))
    | none => throw (.missing "channel map")
  let pos ← match readFile d1 ["channel_positions.npy", "channels.localCoordinates*.npy"] with
    | some a => pure (atleast 2 (squeeze (scrub a)))
    | none => throw (.missing "channel positions")
  let shanks := (readFile d1 ["channel_shanks.npy", "channels.shanks*.npy"]).map fun a =>
    { squeeze (scrub a) with shape := [(squeeze (scrub a)).data.length] }
  let probes := (readFile d1 ["channel_probe.npy", "channels.probes*.npy"]).map fun a => atleast 1 (squeeze (scrub a))
  let templates := (readFile d1 ["templates.npy", "templates.waveforms.npy", "templates.waveforms.*.npy"]).map
    fun a => zeroNanTemplates (atleast 3 (squeeze a))
  let cols := match templates with
    | some _ => (readFile d1 ["template_ind.npy", "templates.waveformsChannels*.npy"]).map fun a => squeeze (scrub a)
    | none => none
  let wm := (readFile d1 ["whitening_mat.npy"]).map fun a => atleast 2 (squeeze (scrub a))
  let (wmi, d2) := match readFile d1 ["whitening_mat_inv.npy"] with
    | some a => (some (atleast 2 (squeeze (scrub a))), d1)
    | none =>
      match wm with
      | some w => (none, d1 ++ [("whitening_mat_inv.npy", inv w)])
      -- `self.wm = np.eye(nc)` (model.py:442, `nc = self.channel_map.shape[0]`, model.py:383), then
      -- `_compute_wmi(self.wm)` writes `np.linalg.inv(np.eye(nc))` (model.py:447, 756-760)
      | none => (none, d1 ++ [("whitening_mat_inv.npy", inv (eye one (cm.shape.headD 0)))])
  let similar := (readFile d2 ["similar_templates.npy"]).map fun a => atleast 2 (squeeze (scrub a))
  pure ({ times := times, samples := samples, amplitudes := amplitudes, spikeTemplates := st, spikeClusters := sc,
          channelMap := cm, channelPositions := pos, channelShanks := shanks, channelProbes := probes,
          templates := templates, templateCols := cols, wm := wm, wmi := wmi, similar := similar }, d2)

end PhyVerif.C04
