import PhyVerif.Model.C16d
/-!
C16, chunk LENGTH of a reader whose sample rate is NOT a binary64 number (`np.float32`, `np.float16`,
`np.longdouble` scalars): the ENVELOPE of `int(round(600.0 * sample_rate))`.

  phylib/io/traces.py:339 / :422 / :453   chunk_size = int(round(DEFAULT_CHUNK_DURATION * sample_rate))

With NumPy >= 2 the product of the Python float `600.0` and a NumPy floating scalar is computed in the
precision of the SCALAR (`600.0 * np.float32(r)` is a float32; ran it): one correctly rounded multiplication in a
format with `p` significant bits (`p` = 11 / 24 / 64 for float16 / float32 / x87 long double), then `round`
(nearest integer, exact).  `Model/Fl.lean` models binary64 only (`p = 53`), so for those rates there is no model
of WHICH integer the code computes; what every correctly rounded product in precision `p` followed by `round`
satisfies is

    |chunk_size − 600·rate|  ≤  1/2 + 2^-p · |600·rate|                      (`pyRound_in_envelope`)

i.e. `chunkSizeLo p rate ≤ chunk_size ≤ chunkSizeHi p rate`.  Example (the audit's): `rate = np.float32(0.0375)`
= 5033165/2^27 > 3/80, exact product 22.5000009, float32 product 22.5 (a tie) → chunk 22; the binary64 model at
the same rational gives 23; envelope at `p = 24`: [22, 23].

The property (statement and quantifier) speaks about chunk LENGTHS, not about the type of the sample rate: every
clause holds for either length.  The correspondence run therefore judges such readers by the statement's clauses
against the chunk length the real reader EXHIBITS, compares the bounds with `getChunkBounds` at that length, and
asks only that the exhibited length lies in this envelope.  Core Lean only (linked into the driver).
-/
namespace PhyVerif.C16
open PhyVerif.Fl

/-- the widest distance from the exact product `600·rate` at which `round(fl_p(600.0 * rate))` can lie:
half a sample plus the relative rounding error `2^-p` of ONE multiplication in a format with `p` significant bits -/
def envSlack (p : Nat) (rate : Rat) : Rat := 1 / 2 + pow2 (-(p : Int)) * absR (defaultChunkDuration * rate)

/-- smallest integer `≥ 600·rate − 1/2 − 2^-p·|600·rate|` (`⌈x⌉ = −⌊−x⌋`) -/
def chunkSizeLo (p : Nat) (rate : Rat) : Int := -((-(defaultChunkDuration * rate - envSlack p rate)).floor)

/-- largest integer `≤ 600·rate + 1/2 + 2^-p·|600·rate|` -/
def chunkSizeHi (p : Nat) (rate : Rat) : Int := (defaultChunkDuration * rate + envSlack p rate).floor

end PhyVerif.C16
