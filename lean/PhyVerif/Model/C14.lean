import PhyVerif.Model.C09
import PhyVerif.Model.C09b
import PhyVerif.Model.C12
import PhyVerif.Model.C08
/-!
Model of the value side of the ALF export (property C14), phylib/io/alf.py:
`make_channel_objects` (per-probe raw channel indices), `make_template_and_spikes_objects` (nearest
same-probe channels by L1 distance with an infinite penalty for other probes, waveform columns),
`make_depths`, `make_cluster_objects`.  Exact arithmetic; NaN is `none`.
The amplitude chain itself (`get_amplitudes_true`) is the C09 model.
-/
namespace PhyVerif.C14
open PhyVerif PhyVerif.C09

/-- sorted distinct values of a list of naturals (`np.unique`) -/
def uniqueNat (l : List Nat) : List Nat := Np.unique (l.map Int.ofNat)

/-- `make_channel_objects`: for each probe in increasing order,
`rawInd[ind] = channel_mapping[ind] - channel_offset; channel_offset = max(channel_mapping[ind]) + 1` -/
def exportRawInd (cm : List Nat) (probes : List Nat) : List Int :=
  let step := fun (st : List Int × Nat) (p : Nat) =>
    let idx := (List.range cm.length).filter fun i => probes.getD i 0 == p
    let vals := idx.map fun i => cm.getD i 0
    let out := idx.foldl (fun o i => o.set i ((cm.getD i 0 : Int) - (st.2 : Int))) st.1
    (out, vals.foldl max 0 + 1)
  ((uniqueNat probes).foldl step (List.replicate cm.length 0, 0)).1

/-- L1 distance between two channels -/
def l1 (pos : List (Rat × Rat)) (a b : Nat) : Rat :=
  let p := pos.getD a (0, 0); let q := pos.getD b (0, 0)
  (if p.1 - q.1 < 0 then q.1 - p.1 else p.1 - q.1) + (if p.2 - q.2 < 0 then q.2 - p.2 else p.2 - q.2)

/-- sort key of `channel_distance`: same-probe channels by distance, other probes at +inf -/
def distKey (pos : List (Rat × Rat)) (probes : List Nat) (peak c : Nat) : Option Rat :=
  if probes.getD c 0 == probes.getD peak 0 then some (l1 pos peak c) else none

/-- `a ≤ b` with `none` = +inf -/
def leInf : Option Rat → Option Rat → Bool
  | some a, some b => decide (a ≤ b)
  | some _, none => true
  | none, some _ => false
  | none, none => true

/-- `np.argsort(channel_distance)[:ncw]` (stable model of the sort) -/
def nearestSameProbe (pos : List (Rat × Rat)) (probes : List Nat) (peak ncw : Nat) : List Nat :=
  let keys := (List.range pos.length).map (distKey pos probes peak)
  ((Np.isort (fun (a b : Option Rat × Nat) => leInf a.1 b.1) keys.zipIdx).map (·.2)).take ncw

/-- `templates.waveformsChannels` / `clusters.waveformsChannels` (alf.py:268-274, 289-295): row `t` = the `ncw` nearest
same-probe channels of `model.templates_channels[t]` / `model.clusters_channels[t]`, which is the peak channel of the
STORED waveform `t` (`_channels`, model.py:1289-1299 — the C09 model `peakChannels`) -/
def exportListedChannels (wfs : List Mat) (pos : List (Rat × Rat)) (probes : List Nat) (ncw : Nat) : List (List Nat) :=
  (peakChannels wfs).map fun pk => nearestSameProbe pos probes pk ncw

/-- exported waveform block: `wfs[t][:, inds[t]]` -/
def exportWaveforms (wfs : List Mat) (inds : List (List Nat)) : List Mat :=
  (wfs.zip inds).map fun p => p.1.map fun row => p.2.map fun c => row.getD c 0

/-- `clusters.depths`: depth (y) of the peak channel, NaN for ids without spikes -/
def clusterDepths (ys : List Rat) (peaks : List Nat) (nanIdx : List Nat) : List (Option Rat) :=
  peaks.zipIdx.map fun p => if nanIdx.contains p.2 then none else some (ys.getD p.1 0)

/-- `spikes.depths` when there is no feature file: the depth of the spike's cluster -/
def spikeDepthsFromClusters (cd : List (Option Rat)) (sc : List Nat) : List (Option Rat) :=
  sc.map fun c => cd.getD c none

/-- `templates[t, ...] = templates_v[t, :][:, templates_inds[t, :]]` (alf.py:268, 289) on the waveforms RETURNED by
`get_amplitudes_true` — an id without spikes has a NaN waveform (`none`), exported as NaN on every listed channel.
A listed channel `≥ n_channels` raises `IndexError` in the real code (here: `getD`, see `waveforms_export_eq`). -/
def exportWaveformsOpt (wfs : List (Option Mat)) (inds : List (List Nat)) : List (Option Mat) :=
  (wfs.zip inds).map fun p => p.1.map fun W => W.map fun row => p.2.map fun c => row.getD c 0

/-- the amplitude-carrying files written by `make_template_and_spikes_objects` (alf.py:238-292) -/
structure AmpFiles where
  spikesAmps : List Rat                    -- spikes.amps            (alf.py:249)
  templatesAmps : List (Option Rat)        -- templates.amps         (alf.py:250)
  templatesWaveforms : List (Option Mat)   -- templates.waveforms    (alf.py:268-269)
  clustersAmps : List (Option Rat)         -- clusters.amps          (alf.py:292)
  clustersWaveforms : List (Option Mat)    -- clusters.waveforms     (alf.py:289-290)
deriving Repr, DecidableEq

/-- `make_template_and_spikes_objects` with `ampfactor = f`: two calls of `get_amplitudes_true(f, use=…)`
(the C09 model: `dT` = template waveforms + spike_templates, `dC` = cluster waveforms + spike_clusters), the
listed-channel tables `indsT`/`indsC` being those computed by `nearestSameProbe`.
`clusters.amps` is written twice during one `convert`: `make_cluster_objects` (alf.py:194, mean STORED amplitude ×
factor) runs first and its file is overwritten here (alf.py:292) — only this second content is observable. -/
def exportAmpFiles (dT dC : Data) (f : Rat) (indsT indsC : List (List Nat)) : AmpFiles :=
  let (sa, tv, ta) := amplitudesTrue dT f
  let (_, cv, ca) := amplitudesTrue dC f
  { spikesAmps := sa, templatesAmps := ta, templatesWaveforms := exportWaveformsOpt tv indsT,
    clustersAmps := ca, clustersWaveforms := exportWaveformsOpt cv indsC }

/-! ### the same files, the per-id table computed ONCE

`get_amplitudes_true` computes `templates_amps_au` (and the unwhitened waveforms) once (model.py:1139-1144) and then
indexes it with the spike assignment (model.py:1146).  The C09 definitions `spikeAmps` / `ampsV` / `rescaled` re-state
`ampsAu d` at every use, which the compiled driver re-evaluates per SPIKE: fine for a handful of spikes, quadratic-like on
a long recording (tens of thousands of spikes: the counts around `get_depths`' batch the harness generates).
`amplitudesTrueOnce` is the same computation with the table bound once; `amplitudesTrueOnce_eq` (below, by `rfl`)
says it IS `amplitudesTrue`, so every theorem about `exportAmpFiles` speaks about what the driver runs. -/

/-- `get_amplitudes_true(sample2unit=f)` with `templates_wfs` / `templates_amps_au` / `spike_amps` each bound once, in the
order of model.py:1139-1172 -/
def amplitudesTrueOnce (d : Data) (f : Rat) : List Rat × List (Option Mat) × List (Option Rat) :=
  let uw := unwhitened d                                                     -- model.py:1139-1142
  let au := uw.map fun W => listMax (chAmps W)                               -- model.py:1144
  let sa := (d.spikes.zip d.amplitudes).map fun p => au.getD p.1 0 * p.2     -- model.py:1146
  let n := d.wfsW.length
  let av : List (Option Rat) := ((bincountW d.spikes sa n).zip (bincountN d.spikes n)).map fun p =>
    if p.2 = 0 then none else some (p.1 / p.2)                               -- model.py:1149-1151
  let ru : List (Option Mat) := (uw.zip (av.zip au)).map fun p =>            -- model.py:1153-1154
    match p.2.1 with
    | none => none
    | some v => if p.2.2 = 0 then none else some (p.1.map fun row => row.map (· * (v / p.2.2)))
  (sa.map (· * f), ru.map (fun o => o.map fun W => scaleMat W f), av.map fun o => o.map (· * f))

theorem amplitudesTrueOnce_eq (d : Data) (f : Rat) : amplitudesTrueOnce d f = amplitudesTrue d f := rfl

/-- `exportAmpFiles` on `amplitudesTrueOnce` (what the driver op `amp_files` evaluates) -/
def exportAmpFilesOnce (dT dC : Data) (f : Rat) (indsT indsC : List (List Nat)) : AmpFiles :=
  let (sa, tv, ta) := amplitudesTrueOnce dT f
  let (_, cv, ca) := amplitudesTrueOnce dC f
  { spikesAmps := sa, templatesAmps := ta, templatesWaveforms := exportWaveformsOpt tv indsT,
    clustersAmps := ca, clustersWaveforms := exportWaveformsOpt cv indsC }

theorem exportAmpFilesOnce_eq (dT dC : Data) (f : Rat) (indsT indsC : List (List Nat)) :
    exportAmpFilesOnce dT dC f indsT indsC = exportAmpFiles dT dC f indsT indsC := rfl

/-- `clusters.peakToTrough` (alf.py:184-189): `waveform_duration = model.clusters_waveforms_durations` (C09
`waveformDurations`, milliseconds), `waveform_duration[nan_idx] = nan` -/
def exportPeakToTrough (wfsC : List Mat) (rate : Rat) (nanIdx : List Nat) : List (Option Rat) :=
  (waveformDurations wfsC rate).zipIdx.map fun p => if nanIdx.contains p.2 then none else some p.1

/-! ### which ids are blanked

The property says of the cluster DEPTHS "NaN for ids without spikes".  `make_depths` blanks
`np.setdiff1d(np.arange(n_clusters), cluster_ids)` with `cluster_ids = _unique(spike_clusters)`: the ids without
spikes, computed from the spike assignment, curated or not.  (Before that repair it blanked `model.nan_idx`, which
model.py:425 leaves EMPTY when nothing was curated: the depth of a template without spikes was a number.)
The DURATIONS (`make_cluster_objects`) are blanked on `model.nan_idx` — NaN for the ids without spikes of a CURATED
dataset (their cluster waveform is all zero, C08), while for an un-curated dataset a template without spikes keeps
the peak-to-trough time of its own waveform (upstream `test_alf.py::test_creator` pins five durations for five
templates the first of which has no spike; the statement attaches no NaN clause to durations). -/

/-- ids below `n` that no spike is assigned to -/
def spikelessIds (n : Nat) (sc : List Nat) : List Nat := (List.range n).filter fun c => !sc.contains c

/-- `clusters.depths` as written by `make_depths` (alf.py:216-231): `peaks` = the `clusters.channels` table read back
from the output directory, `sc` = `model.spike_clusters` -/
def exportClusterDepths (ys : List Rat) (peaks sc : List Nat) : List (Option Rat) :=
  clusterDepths ys peaks (spikelessIds peaks.length sc)

/-- `model.nan_idx` for dense templates (model.py:418-428): `get_merge_map()[1]` (the C08 model) when anything was
curated, `[]` otherwise -/
def modelNanIdx (st sc : List Nat) : List Nat :=
  if sc = st then [] else C08.nanIdx (C08.mergeMap st sc)

/-- `clusters.peakToTrough` as written by `make_cluster_objects` (alf.py:184-190): `st`/`sc` =
`model.spike_templates` / `model.spike_clusters` -/
def exportDurations (wfsC : List Mat) (rate : Rat) (st sc : List Nat) : List (Option Rat) :=
  exportPeakToTrough wfsC rate (modelNanIdx st sc)

/-- what `get_depths` reads of the feature store: `sparse_features.data[:, :, 0]` (one row per STORED spike) and
`sparse_features.cols` (one row per template) -/
structure Feats where
  feat0 : List (List Rat)
  cols : List (List Nat)
deriving Repr

/-- `TemplateModel.get_depths()` (model.py:1098-1122): `None` without features and when the features are stored
for a subset of the spikes (`data.shape[0] != n_spikes`, the `pc_feature_spike_ids.npy` layout); otherwise the C09
feature-weighted depths -/
def getDepths (fe : Option Feats) (ys : List Rat) (st : List Nat) : Option (List (Option Rat)) :=
  match fe with
  | none => none
  | some f => if f.feat0.length = st.length then some (depths f.feat0 f.cols ys st) else none

/-- `spikes.depths` as written by `make_depths` (alf.py:233-239): the feature-weighted depths when `get_depths()`
gives them, otherwise the depth of the spike's cluster -/
def exportSpikeDepths (fe : Option Feats) (ys : List Rat) (peaks st sc : List Nat) : List (Option Rat) :=
  match getDepths fe ys st with
  | some d => d
  | none => spikeDepthsFromClusters (exportClusterDepths ys peaks sc) sc

end PhyVerif.C14
