/-!
Model of the structural side of the ALF export (property C13), phylib/io/alf.py:
which object tables `convert` writes, their first dimensions, `rename_with_label`, the cluster
identifiers, the same-directory guard.  A file name is its list of dot-separated parts.
-/
namespace PhyVerif.C13

/-- a file name as dot-separated parts, e.g. `["spikes", "times", "npy"]` -/
abbrev Name := List String

/-- `f.with_suffix(f'.{label}{f.suffix}')`: the label goes before the extension -/
def withLabel (label : String) (n : Name) : Name :=
  match n.reverse with
  | [] => []
  | ext :: rest => (rest.reverse ++ [label, ext])

/-- the four ALF object families that `rename_with_label` touches -/
def isObjectFile (n : Name) : Bool :=
  match n with
  | obj :: _ => obj == "channels" || obj == "clusters" || obj == "spikes" || obj == "templates"
  | [] => false

/-- `rename_with_label`: nothing happens for the empty label -/
def renameAll (label : String) (files : List (Name × Nat)) : List (Name × Nat) :=
  if label = "" then files else files.map fun f => if isObjectFile f.1 then (withLabel label f.1, f.2) else f

/-- sizes that determine every first dimension -/
structure Sizes where
  nSpikes : Nat
  nClusters : Nat      -- rows of the cluster waveform table: max id + 1 when curated, n_templates otherwise
  nTemplates : Nat
  nChannels : Nat
deriving Repr

/-- the object tables written by `convert` (before labelling) with their first dimension -/
def objectTables (s : Sizes) : List (Name × Nat) :=
  [ (["clusters", "channels", "npy"], s.nClusters), (["clusters", "peakToTrough", "npy"], s.nClusters),
    (["clusters", "amps", "npy"], s.nClusters), (["clusters", "uuids", "csv"], s.nClusters),
    (["clusters", "depths", "npy"], s.nClusters), (["clusters", "waveforms", "npy"], s.nClusters),
    (["clusters", "waveformsChannels", "npy"], s.nClusters),
    (["channels", "rawInd", "npy"], s.nChannels), (["channels", "localCoordinates", "npy"], s.nChannels),
    (["spikes", "times", "npy"], s.nSpikes), (["spikes", "samples", "npy"], s.nSpikes),
    (["spikes", "amps", "npy"], s.nSpikes), (["spikes", "depths", "npy"], s.nSpikes),
    (["spikes", "clusters", "npy"], s.nSpikes), (["spikes", "templates", "npy"], s.nSpikes),
    (["templates", "amps", "npy"], s.nTemplates), (["templates", "waveforms", "npy"], s.nTemplates),
    (["templates", "waveformsChannels", "npy"], s.nTemplates) ]

/-- `convert(out, label)`: `none` = IOError (target is the source directory) -/
def convert (src out : String) (label : String) (s : Sizes) : Option (List (Name × Nat)) :=
  if out = src then none else some (renameAll label (objectTables s))

/-- expected first dimension of an object file, by family -/
def expectedRows (s : Sizes) (n : Name) : Option Nat :=
  match n with
  | "spikes" :: _ => some s.nSpikes
  | "clusters" :: _ => some s.nClusters
  | "templates" :: _ => some s.nTemplates
  | "channels" :: _ => some s.nChannels
  | _ => none

end PhyVerif.C13
