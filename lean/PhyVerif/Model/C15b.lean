import PhyVerif.Model.C15
/-!
Second part of the model of `phylib/stats/ccg.py` (property C15): everything `Model/C15.lean` left to the
harness.

* the float → integer conversions of `correlograms` (ccg.py:116-134) over exact rationals: spike samples
  `(times * rate).astype(int64)`, `binsize = int(rate * clip(bin))`, `winsize_bins = 2*int(.5*clip(window)/clip(bin)) + 1`;
* the helpers `_create_correlograms_array`, `_increment`, `_diff_shifted` (ccg.py:19-36) and the array-level
  loop that uses them (`ravel_multi_index` + `_increment` on the flat count array);
* the firing-rate normaliser WITH its factor `bin_size / (duration or 1.)` (ccg.py:57-76);
* the `cluster_ids=None` paths (`_unique`, array.py:59-74).

In-domain inputs for the float conversions: those on which every float operation of the code is exact
(the harness verifies it per case with exact fractions and passes the floats' exact rational values), so
that the rational model and the float code compute the same integers.
-/
namespace PhyVerif.C15
open PhyVerif

/-! ### float → integer conversions -/

/-- `np.clip(x, lo, hi)` -/
def clip (x lo hi : Rat) : Rat := if x < lo then lo else if hi < x then hi else x

/-- the double `1e-5` (ccg.py:125,130) as the exact rational it denotes: 5902958103587057 / 2^69 -/
def clipLo : Rat := (5902958103587057 : Rat) / 590295810358705651712
/-- the double `1e5` -/
def clipHi : Rat := 100000

/-- `int(x)` / `.astype(np.int64)`: truncation toward zero -/
def truncInt (q : Rat) : Int := if 0 ≤ q then q.floor else -((-q).floor)

/-- `spike_samples = (spike_times * sample_rate).astype(np.int64)` (ccg.py:117) -/
def samplesOf (rate : Rat) (times : List Rat) : List Int := times.map fun t => truncInt (t * rate)

/-- `binsize = int(sample_rate * np.clip(bin_size, 1e-5, 1e5))` (ccg.py:125-126) -/
def binsizeOf (rate bin : Rat) : Int := truncInt (rate * clip bin clipLo clipHi)

/-- `winsize_bins = 2 * int(.5 * clip(window_size) / clip(bin_size)) + 1` (ccg.py:125,130-131) -/
def winsizeBins (window bin : Rat) : Int :=
  2 * truncInt ((1 / 2 : Rat) * clip window clipLo clipHi / clip bin clipLo clipHi) + 1

/-- `winsize_bins // 2` -/
def halfOf (window bin : Rat) : Nat := (winsizeBins window bin / 2).toNat

/-! ### helpers -/

/-- `_create_correlograms_array(n_clusters, winsize_bins)`: zeros of shape `(n, n, winsize_bins // 2 + 1)`
(int32 in the code: counts are below 2^31) -/
def createArray (nc : Nat) (winsize : Int) : List (List (List Nat)) :=
  List.replicate nc (List.replicate nc (List.replicate ((winsize / 2).toNat + 1) 0))

/-- `_increment(arr, indices)`: `bbins = bincount(indices); arr[:len(bbins)] += bbins`.
`none` = ValueError (an index beyond the array: the shapes do not broadcast) — except that a one-element
`bbins` broadcasts against the EMPTY array (observed on the real helper: `_increment([], [0])` returns `[]`). -/
def increment (arr : List Nat) (idx : List Nat) : Option (List Nat) :=
  let bb := Np.bincount idx
  if bb.length ≤ arr.length then
    some (List.zipWith (· + ·) (arr.take bb.length) bb ++ arr.drop bb.length)
  else if bb.length = 1 then some arr
  else none

/-- `_diff_shifted(arr, steps)`: `arr[steps:] - arr[:len(arr) - steps]`.  In the loop `1 ≤ steps < len(arr)`;
for `steps > len(arr)` the second slice has a negative stop and NumPy either raises a broadcast error or
returns an empty array (`none`). -/
def diffShifted (arr : List Int) (s : Nat) : Option (List Int) :=
  if s ≤ arr.length then some (List.zipWith (· - ·) (arr.drop s) (arr.take (arr.length - s))) else none

/-- `np.ravel_multi_index((i, j, k), (nc, nc, m))`; `none` = ValueError (a coordinate out of range) -/
def ravel? (nc m : Nat) (e : Ev) : Option Nat :=
  if e.1 < nc ∧ e.2.1 < nc ∧ 0 ≤ e.2.2 ∧ e.2.2 < (m : Int) then some ((e.1 * nc + e.2.1) * m + e.2.2.toNat)
  else none

/-- `correlograms.ravel()` viewed back as `(nc, nc, m)` -/
def reshape3 (nc m : Nat) (flat : List Nat) : List (List (List Nat)) :=
  (List.range nc).map fun i => (List.range nc).map fun j =>
    (List.range m).map fun k => flat.getD ((i * nc + j) * m + k) 0

/-- the `while` loop of `correlograms` on the flat count array (ccg.py:157-185): at every shift the selected
(row cluster, column cluster, lag) triples are raveled and `_increment`ed into the array -/
def loopArr (x : Inp) (nc m : Nat) : Nat → Nat → (Nat → Bool) → List Nat → Option (List Nat)
  | 0, _, _, arr => some arr
  | f+1, s, mask, arr =>
    if (List.range (x.n - s)).any mask then
      match (evAt x s (stepMask x s mask)).mapM (ravel? nc m) with
      | none => none
      | some idx =>
        match increment arr idx with
        | none => none
        | some arr' => loopArr x nc m f (s+1) (stepMask x s mask) arr'
    else some arr

/-- `correlograms(..., symmetrize=False)` from integer samples, through the count ARRAY -/
def correlogramsArr (t : List Int) (sc : List Int) (ids : List Nat) (bin : Int) (winsize : Int) :
    Option (List (List (List Nat))) := do
  let ci ← Np.indexOf sc ids
  let half := (winsize / 2).toNat
  let x : Inp := { t := fun a => t.getD a 0, cl := fun a => (ci.getD a 0).toNat,
                   n := t.length, bin := bin, half := half }
  let zero := (createArray ids.length winsize).flatten.flatten
  let flat ← loopArr x ids.length (half + 1) x.n 1 (fun _ => true) zero
  pure (reshape3 ids.length (half + 1) flat)

/-- `cluster_ids=None` → `_unique(spike_clusters)`; otherwise the caller's list -/
def idsOr (sc : List Int) (ids : Option (List Nat)) : List Nat :=
  match ids with
  | none => Np.unique sc
  | some l => l

/-- `correlograms(spike_times, spike_clusters, cluster_ids, sample_rate, bin_size, window_size, symmetrize)`
over exact rationals.  `none` = an assertion fails or an exception is raised (rate ≤ 0, decreasing times,
lengths differ, `binsize < 1`, a cluster outside the lookup table, an index out of range). -/
def correlogramsQ (times : List Rat) (sc : List Int) (ids : Option (List Nat)) (rate bin window : Rat)
    (sym : Bool) : Option (List (List (List Nat))) :=
  if ¬ (0 < rate) then none
  else if ¬ (times.zip times.tail).all (fun p => decide (p.1 ≤ p.2)) then none
  else if times.length ≠ sc.length then none
  else if binsizeOf rate bin < 1 then none
  else
    match correlogramsArr (samplesOf rate times) sc (idsOr sc ids) (binsizeOf rate bin) (winsizeBins window bin) with
    | none => none
    | some c => some (if sym then symmetrize c else c)

/-! ### firing rate -/

/-- `duration or 1.` -/
def durOr1 (dur : Option Rat) : Rat :=
  match dur with
  | none => 1
  | some d => if d = 0 then 1 else d

/-- `firing_rate(spike_clusters, cluster_ids, bin_size, duration)` (ccg.py:57-76):
`bc * np.c_[bc] * (bin_size / (duration or 1.))`; `none` = `assert bin_size > 0` fails or `_index_of` raises -/
def firingRate (sc : List Int) (ids : Option (List Nat)) (bin : Rat) (dur : Option Rat) :
    Option (List (List Rat)) :=
  if ¬ (0 < bin) then none
  else
    match firingCounts sc (idsOr sc ids) with
    | none => none
    | some m => some (m.map fun row => row.map fun (c : Nat) => (c : Rat) * (bin / durOr1 dur))

end PhyVerif.C15
