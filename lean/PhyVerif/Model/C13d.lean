import PhyVerif.Model.C04
import PhyVerif.Model.C13c
/-!
The OUTPUT directory of the directory-level conversion (`convertFS`, Model/C13c) as the loader of C04 sees it
(property C13: "Loading the output directory yields the same …").

`project` turns a directory of `Model/C13c` (names as lists of dot-separated parts, files as rows) into a directory
of `Model/C04` (names as strings, files as shaped arrays of cells): EVERY file of the output directory is kept —
the ~25 files the loader does not want are there for its globs to see.  The content of a file is the content of its
rows; what a row of a quantity established elsewhere (`Row.tok`, C09/C14) holds is a parameter (`Interp`).
-/
namespace PhyVerif.C13
open PhyVerif.C04

/-- the file name on disk: parts joined by dots -/
def strOfName (n : Name) : String := ".".intercalate n

/-- how the rows of `Model/C13c` are read as cells of `Model/C04`: a spike time in seconds is a token
(`encQ`; C04's cells are integer tokens), row `i` of the quantity `what` (amplitudes, waveforms, positions … whose
values are C09/C14's) holds the cells `cells what i` and has the trailing dimensions `trail what`. -/
structure Interp where
  encQ : Rat → Int
  cells : String → Nat → List Cell
  trail : String → List Nat

def rowCells (I : Interp) : Row → List Cell
  | .q v => [.num (I.encQ v)]
  | .z v => [.num v]
  | .s _ => []
  | .tok w i => I.cells w i

/-- trailing dimensions of an array given by its rows: none for a vector of values -/
def rowsTrail (I : Interp) : List Row → List Nat
  | .tok w _ :: _ => I.trail w
  | _ => []

/-- the array stored in a file: first dimension = number of rows; `(n, 1)` for a 2-D column vector -/
def arrOf (I : Interp) (e : Entry) : Arr :=
  ⟨e.rows.length :: (if e.vec2d then [1] else rowsTrail I e.rows), e.rows.flatMap (rowCells I)⟩

/-- the whole directory, as `TemplateModel` finds it on disk -/
def project (I : Interp) (d : FDir) : Dir := d.map fun f => (strOfName f.1, arrOf I f.2)


/-- The source view as the loader fills it: `spike_samples` and `spike_times` are BOTH produced by
`_load_spike_samples` from the one spike file of the source directory (model.py:644-662), the rest of the view
comes from the other files. -/
def viewOfFile (rate : Rat) (file : SpikeFile) (rest : View) : View :=
  { rest with rate := rate, samples := (loadSpikeSamples rate file).1, times := (loadSpikeSamples rate file).2 }

/-- what the driver reports about a loaded array -/
def arrSummary (a : Arr) : List Nat × List Int :=
  (a.shape, a.data.map fun c => match c with | .num i => i | _ => 0)

end PhyVerif.C13
