import PhyVerif.Model.Np
/-!
Model of the spike-waveform routes (property C03), phylib/io/traces.py:
`_extract_waveform`, `extract_waveforms`, `iter_waveforms`, `export_waveforms` + `NpyWriter`,
`get_spike_waveforms`.  Cells have an arbitrary type `α` with a zero.
The recording is a list of rows `A` (what the reader of C01/C02 denotes).
-/
namespace PhyVerif.C03
open PhyVerif

variable {α : Type} [Zero α]

/-- `row[c]` with NumPy's meaning of a negative column index -/
def pickCol (row : List α) (c : Int) : α :=
  row.getD (if c < 0 then c + (row.length : Int) else c).toNat 0

/-- Python `A[i:j]` for `0 ≤ i`; `j` may exceed the length -/
def rowsSlice (A : List (List α)) (i j : Int) : List (List α) :=
  (A.drop i.toNat).take (j.toNat - i.toNat)

def zeroRows (k : Nat) (nc : Nat) : List (List α) := List.replicate k (List.replicate nc 0)

/-- `_extract_waveform(traces, sample, channel_ids, n_samples_waveforms)` -/
def extractWaveform (A : List (List α)) (s : Int) (n : Nat) (ch : List Int) : List (List α) :=
  let dur : Int := A.length
  let a : Int := n / 2
  let b : Int := n - n / 2
  let t0 := s - a
  let t1 := s + b
  -- w = traces[max(0, t0):t1][:, channel_ids]
  let w := (rowsSlice A (max 0 t0) t1).map fun row => ch.map (pickCol row)
  -- w[:, channel_ids == -1] = 0
  let w := w.map fun row => (row.zip ch).map fun (v, c) => if c == -1 then 0 else v
  -- edge effects
  let w := if t0 < 0 then zeroRows (-t0).toNat ch.length ++ w else w
  let w := if t1 > dur then w ++ zeroRows (t1 - dur).toNat ch.length else w
  w

/-- `extract_waveforms`: one window per spike, same channel list -/
def extractWaveforms (A : List (List α)) (spikes : List Int) (n : Nat) (ch : List Int) :
    List (List (List α)) :=
  spikes.map fun s => extractWaveform A s n ch

/-- `iter_waveforms`: for each chunk interval `(i0, i1)` of the reader, the spikes with
`searchsorted([i0, i1], s, 'right') - 1 == 0`, each extracted with its own channel row;
empty batches are skipped -/
def iterWaveforms (A : List (List α)) (ivs : List (Nat × Nat)) (spikes : List Int)
    (chans : List (List Int)) (n : Nat) : List (List (List (List α))) :=
  (ivs.map fun iv =>
    ((spikes.zip chans).filter fun sc =>
        Np.ssRight [(iv.1 : Int), (iv.2 : Int)] sc.1 == 1).map fun sc =>
      extractWaveform A sc.1 n sc.2).filter (· ≠ [])

/-- an `.npy` file as written by `NpyWriter`: declared shape + the cells appended so far
(every appended block is cast to the declared dtype, so only the count can disagree) -/
structure NpyFile (α : Type) where
  shape : Nat × Nat × Nat
  cells : List α

/-- `export_waveforms(path, traces, spike_samples, spike_channels, n, sample2unit)`;
`scale` is multiplication by the unit factor followed by the cast to the declared dtype -/
def exportWaveforms (scale : α → α) (A : List (List α)) (ivs : List (Nat × Nat))
    (spikes : List Int) (chans : List (List Int)) (n : Nat) (nloc : Nat) : NpyFile α :=
  { shape := (spikes.length, n, nloc),
    cells := ((iterWaveforms A ivs spikes chans n).flatten.map fun w =>
                (w.map fun row => row.map scale).flatten).flatten }

/-- cut a flat list into rows of `k` -/
def chunk (k : Nat) : Nat → List α → List (List α)
  | 0, _ => []
  | m+1, l => l.take k :: chunk k m (l.drop k)

/-- `np.load`: `none` unless the data section holds exactly `prod(shape)` cells -/
def npLoad (f : NpyFile α) : Option (List (List (List α))) :=
  let (ns, n, nloc) := f.shape
  if f.cells.length = ns * n * nloc then
    some ((chunk (n * nloc) ns f.cells).map fun w => chunk nloc n w)
  else none

/-- the spike-subset store -/
structure Store (α : Type) where
  spikeIds : List Nat
  spikeChannels : List (List Int)
  waveforms : List (List (List α))

/-- `get_spike_waveforms(spike_ids, channel_ids, store, n)`; `none` = AssertionError / IndexError -/
def getSpikeWaveforms (st : Store α) (query : List Nat) (chq : List Nat) (n : Nat) :
    Option (List (List (List α))) :=
  if !(query.all st.spikeIds.contains) then none else
  query.mapM fun q =>
    let p := st.spikeIds.idxOf q
    match st.spikeChannels[p]?, st.waveforms[p]? with
    | some ind, some w =>
      -- out[i, :, cols0] = waveforms[sid, :, cols1] over the channels common to both lists
      some ((List.range n).map fun r => chq.map fun (c : Nat) =>
        if ind.contains (Int.ofNat c) then ((w.getD r []).getD (ind.idxOf (Int.ofNat c)) 0) else 0)
    | _, _ => none

end PhyVerif.C03
