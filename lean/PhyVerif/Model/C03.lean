import PhyVerif.Model.Np
/-!
Model of the spike-waveform routes (property C03), phylib/io/traces.py:
`_extract_waveform`, `extract_waveforms`, `iter_waveforms`, `export_waveforms` + `NpyWriter`,
`get_spike_waveforms`.  Cells have an arbitrary type `α` with a zero.
The recording is a list of rows `A` (what the reader of C01/C02 denotes).
-/
namespace PhyVerif.C03
open PhyVerif

variable {α : Type} [Zero α]

/-- `row[c]` with NumPy's meaning of a negative column index -/
def pickCol (row : List α) (c : Int) : α :=
  row.getD (if c < 0 then c + (row.length : Int) else c).toNat 0

/-- Python `A[i:j]` for `0 ≤ i`; `j` may exceed the length -/
def rowsSlice (A : List (List α)) (i j : Int) : List (List α) :=
  (A.drop i.toNat).take (j.toNat - i.toNat)

def zeroRows (k : Nat) (nc : Nat) : List (List α) := List.replicate k (List.replicate nc 0)

/-- `_extract_waveform(traces, sample, channel_ids, n_samples_waveforms)`, traces.py:589-614.  Sample and window
length are Python integers there (`int(sample)`, `nsw = int(n_samples_waveforms)`): `s : Int`, `n : Nat`, and
`t0 = s - n/2` may be negative — with an unsigned NumPy sample or window length the difference used to wrap. -/
def extractWaveform (A : List (List α)) (s : Int) (n : Nat) (ch : List Int) : List (List α) :=
  let dur : Int := A.length
  let a : Int := n / 2
  let b : Int := n - n / 2
  let t0 := s - a
  let t1 := s + b
  -- w = traces[max(0, t0):t1][:, channel_ids]
  let w := (rowsSlice A (max 0 t0) t1).map fun row => ch.map (pickCol row)
  -- w[:, channel_ids == -1] = 0
  let w := w.map fun row => (row.zip ch).map fun (v, c) => if c == -1 then 0 else v
  -- edge effects
  let w := if t0 < 0 then zeroRows (-t0).toNat ch.length ++ w else w
  let w := if t1 > dur then w ++ zeroRows (t1 - dur).toNat ch.length else w
  w

/-- `extract_waveforms`: one window per spike, same channel list -/
def extractWaveforms (A : List (List α)) (spikes : List Int) (n : Nat) (ch : List Int) :
    List (List (List α)) :=
  spikes.map fun s => extractWaveform A s n ch

/-- `iter_waveforms`: for each chunk interval `(i0, i1)` of the reader, the spikes with
`searchsorted([i0, i1], s, 'right') - 1 == 0`, each extracted with its own channel row;
empty batches are skipped -/
def iterWaveforms (A : List (List α)) (ivs : List (Nat × Nat)) (spikes : List Int)
    (chans : List (List Int)) (n : Nat) : List (List (List (List α))) :=
  (ivs.map fun iv =>
    ((spikes.zip chans).filter fun sc =>
        Np.ssRight [(iv.1 : Int), (iv.2 : Int)] sc.1 == 1).map fun sc =>
      extractWaveform A sc.1 n sc.2).filter (· ≠ [])

/-- an `.npy` file as written by `NpyWriter`: declared shape + the cells appended so far
(every appended block is cast to the declared dtype, so only the count can disagree) -/
structure NpyFile (α : Type) where
  shape : Nat × Nat × Nat
  cells : List α
deriving Repr, DecidableEq

/-- `export_waveforms(path, traces, spike_samples, spike_channels, n, sample2unit)`;
`scale` is multiplication by the unit factor followed by the cast to the declared dtype -/
def exportWaveforms (scale : α → α) (A : List (List α)) (ivs : List (Nat × Nat))
    (spikes : List Int) (chans : List (List Int)) (n : Nat) (nloc : Nat) : NpyFile α :=
  { shape := (spikes.length, n, nloc),
    cells := ((iterWaveforms A ivs spikes chans n).flatten.map fun w =>
                (w.map fun row => row.map scale).flatten).flatten }

/-- cut a flat list into rows of `k` -/
def chunk (k : Nat) : Nat → List α → List (List α)
  | 0, _ => []
  | m+1, l => l.take k :: chunk k m (l.drop k)

/-- `np.load`: `none` unless the data section holds exactly `prod(shape)` cells -/
def npLoad (f : NpyFile α) : Option (List (List (List α))) :=
  let (ns, n, nloc) := f.shape
  if f.cells.length = ns * n * nloc then
    some ((chunk (n * nloc) ns f.cells).map fun w => chunk nloc n w)
  else none

/-- the spike-subset store -/
structure Store (α : Type) where
  spikeIds : List Nat
  spikeChannels : List (List Int)
  waveforms : List (List (List α))
deriving Repr, DecidableEq

/-- `get_spike_waveforms(spike_ids, channel_ids, store, n)`, traces.py:521-545; `none` = AssertionError
(`assert np.all(np.isin(spike_ids, store.spike_ids))`, `assert nsw > 0`, `assert nc > 0`; with a store whose three
arrays do not have the same number of rows also IndexError) -/
def getSpikeWaveforms (st : Store α) (query : List Nat) (chq : List Nat) (n : Nat) :
    Option (List (List (List α))) :=
  if !(query.all st.spikeIds.contains) then none else
  if n == 0 || chq.isEmpty then none else
  query.mapM fun q =>
    let p := st.spikeIds.idxOf q
    match st.spikeChannels[p]?, st.waveforms[p]? with
    | some ind, some w =>
      -- out[i, :, cols0] = waveforms[sid, :, cols1] over the channels common to both lists
      some ((List.range n).map fun r => chq.map fun (c : Nat) =>
        if ind.contains (Int.ofNat c) then ((w.getD r []).getD (ind.idxOf (Int.ofNat c)) 0) else 0)
    | _, _ => none

/-! ### The spike-subset store of `TemplateModel` (model.py) -/

/-- the three files `_phy_spikes_subset.{spikes,channels,waveforms}.npy` -/
structure SubsetFiles (α : Type) where
  spikes : List Nat                 -- `np.save(path_spikes, spike_ids)`, model.py:1408
  channels : List (List Int)        -- `np.save(path_channels, spike_channels)`, model.py:1419
  waveforms : NpyFile α             -- written chunk by chunk by `export_waveforms`, model.py:1422
deriving Repr, DecidableEq

/-- `TemplateModel._template_n_channels(t, nc)`, model.py:868-878: the first `nc` channels of
`get_template(t).channel_ids` (`order`, the C05 observable), filled up with −1; a template without spikes
(`t not in self.template_ids`, `used = false`) gets −1 everywhere -/
def templateNChannels (used : Bool) (order : List Int) (nc : Nat) : List Int :=
  if !used then List.replicate nc (-1) else
  let ch := order.take nc
  ch ++ List.replicate (nc - ch.length) (-1)

/-- `nc = max_n_channels or self.n_closest_channels; nc = max(nc, self.n_closest_channels)`, model.py:1382-1383
(`0 or x` is `x`) -/
def subsetWidth (maxN closest : Nat) : Nat := max (if maxN = 0 then closest else maxN) closest

/-- `best_channels = vstack([_template_n_channels(t, nc) for t in range(n_templates)])`, model.py:1412 -/
def bestChannels (spikeTemplates : List Nat) (orders : List (List Int)) (nc : Nat) : List (List Int) :=
  (List.range orders.length).map fun t =>
    templateNChannels (spikeTemplates.contains t) (orders.getD t []) nc

/-- `save_spikes_subset_waveforms` after the spike selection `sel` (= `spike_ids`, the C17 selector's output),
model.py:1405-1424: the ids, `best_channels[spike_templates[spike_ids], :]`, and the export of the windows at
`spike_samples[spike_ids]` on those channel rows, times the unit factor (`scale`) -/
def saveSubset (scale : α → α) (A : List (List α)) (ivs : List (Nat × Nat)) (spikeSamples : List Int)
    (spikeTemplates : List Nat) (orders : List (List Int)) (sel : List Nat) (n nc : Nat) : SubsetFiles α :=
  let best := bestChannels spikeTemplates orders nc
  let chans := sel.map fun i => best.getD (spikeTemplates.getD i 0) []
  let samples := sel.map fun i => spikeSamples.getD i 0
  { spikes := sel, channels := chans, waveforms := exportWaveforms scale A ivs samples chans n nc }

/-- `_load_spike_waveforms`, model.py:662-680, on the three files: `none` when the waveform file does not
load as an array of its declared shape (the exception is caught and the store is dropped) -/
def loadSubset (f : SubsetFiles α) : Option (Store α) :=
  (npLoad f.waveforms).map fun w => { spikeIds := f.spikes, spikeChannels := f.channels, waveforms := w }

/-- the three `assert`s of `get_spike_waveforms` (traces.py:527-537): every requested spike is stored
(`assert np.all(np.isin(spike_ids, spike_waveforms.spike_ids))`), `assert nsw > 0`, `assert nc > 0`.  `false` = the
call raises AssertionError — the ONLY exception `TemplateModel.get_waveforms` catches. -/
def lookupAsserts (st : Store α) (query : List Nat) (chq : List Nat) (n : Nat) : Bool :=
  query.all st.spikeIds.contains && !(n == 0 || chq.isEmpty)

/-- `TemplateModel.get_waveforms(spike_ids, channel_ids)` with raw data present, model.py:973-998, with its
exceptions: `none` = the call raises.
* no store: the raw-data route, `extract_waveforms` (`assert nsw > 0`, traces.py:621);
* a store is loaded: `get_spike_waveforms`; `except AssertionError` (model.py:989) — a requested spike is not
  stored, `nsw = 0`, no query channel — falls back to the raw-data route for EVERY requested spike; any other
  exception of the lookup is NOT caught and propagates: the IndexError of a store whose three arrays do not have
  the same number of rows (`getSpikeWaveforms … = none` although the assertions hold).
The query channels are signed integers after `np.asarray(channel_ids, dtype=np.int64)` at the top of
`get_spike_waveforms` (with a uint64 array `np.intersect1d` against the int32 channel table used to return
float64 values, unusable as indices: IndexError, and no fallback). -/
def getWaveformsE (store : Option (Store α)) (A : List (List α)) (spikeSamples : List Int)
    (query : List Nat) (chq : List Nat) (n : Nat) : Option (List (List (List α))) :=
  let raw : Option (List (List (List α))) :=
    if n == 0 then none
    else some (extractWaveforms A (query.map fun q => spikeSamples.getD q 0) n (chq.map Int.ofNat))
  match store with
  | none => raw
  | some st => if lookupAsserts st query chq n then getSpikeWaveforms st query chq n else raw

/-- `getWaveformsE` with every exception read as "the raw data": the totalised view used where only the
returned windows matter (the C10 driver).  Extensionally `(getSpikeWaveforms …).getD raw`. -/
def getWaveforms (store : Option (Store α)) (A : List (List α)) (spikeSamples : List Int)
    (query : List Nat) (chq : List Nat) (n : Nat) : List (List (List α)) :=
  (getWaveformsE store A spikeSamples query chq n).getD
    (extractWaveforms A (query.map fun q => spikeSamples.getD q 0) n (chq.map Int.ofNat))

end PhyVerif.C03
