import PhyVerif.Model.Np
/-!
Model of the raw-data reader's indexing (property C01), phylib/io/traces.py:
`_get_subitems`, `_find_chunks`, `BaseEphysReader.__getitem__`, `_get_part`, `_memmap_flat`.

A recording is `parts : List (List α)`, one list of rows per backing file; `α` (a row) is opaque.
`none` stands for "the real code raises".
-/
namespace PhyVerif.C01
open PhyVerif

/-- the first component of what is passed to `reader[...]` -/
inductive Item where
  | int (i : Int)
  | slice (start stop : Option Int)
  | list (l : List Int)
deriving Repr

/-- `_get_part_bounds`: `[0] + cumsum(lengths)` -/
def boundsFrom {α : Type} : Nat → List (List α) → List Nat
  | off, [] => [off]
  | off, p :: ps => off :: boundsFrom (off + p.length) ps

def bounds {α : Type} (parts : List (List α)) : List Nat := boundsFrom 0 parts

/-- `np.searchsorted(bounds, x, 'right')` -/
def ssRight (b : List Nat) (x : Nat) : Nat := b.countP (· ≤ x)

/-- Python `x or d` on an optional integer: `None` and `0` are falsy -/
def pyOr (x : Option Int) (d : Int) : Int :=
  match x with
  | none => d
  | some v => if v = 0 then d else v

/-- normalisation of a slice bound as written in `_get_subitems`:
`if v < 0: v = v % n`, then `min(v, n)` -/
def normBound (v n : Int) : Int :=
  let v := if v < 0 then v % n else v
  min v n

/-- part `c` restricted to `[max 0 (s - i0), min (i1 - i0) (e - i0))` — the sub-slice the slice
branch builds for chunk `c` and `_get_part` reads -/
def slicePart {α : Type} (s e : Nat) (i0 : Nat) (p : List α) : List α :=
  (p.drop (s - i0)).take (min p.length (e - i0) - (s - i0))

/-- slice branch after normalisation (`0 ≤ s`, `1 ≤ e`): chunks `first .. last`, per-chunk
sub-slices, concatenated (`np.vstack`) -/
def readSlice {α : Type} (parts : List (List α)) (s e : Nat) : List α :=
  let b := bounds parts
  let first := ssRight b s - 1
  let last := ssRight b (e - 1) - 1
  let offs := b.zip parts          -- (i0, part)
  (((offs.drop first).take (last + 1 - first)).map (fun ip => slicePart s e ip.1 ip.2)).flatten

/-- list branch: `for chunk in np.unique(find_chunks(bounds, item))`: rows of part `chunk` at
`item[(i0 <= item) & (item < i1)] - i0`.  `none` when a chunk index is out of range
(`IndexError`), as for items ≥ n. -/
def readList {α : Type} (parts : List (List α)) (l : List Nat) : Option (List α) :=
  let b := bounds parts
  let chunks := Np.unique (l.map fun x => Int.ofNat (ssRight b x - 1))
  let pieces := chunks.mapM fun c =>
    if c + 1 ≥ b.length then none else
    match b[c]?, b[c+1]?, parts[c]? with
    | some i0, some i1, some p =>
      ((l.filter fun x => decide (i0 ≤ x) && decide (x < i1)).mapM fun x => p[x - i0]?)
    | _, _, _ => none
  pieces.map List.flatten

/-- int branch: one row, returned two-dimensional -/
def readInt {α : Type} (parts : List (List α)) (i : Nat) : Option (List α) :=
  let b := bounds parts
  let c := ssRight b i - 1
  if c + 1 ≥ b.length then none else
  match b[c]?, parts[c]? with
  | some i0, some p => (p[i - i0]?).map fun r => [r]
  | _, _ => none

/-- `reader[item]` (rows only).  `none` = the real code raises. -/
def getRows {α : Type} (parts : List (List α)) (item : Item) : Option (List α) :=
  let n : Int := ((bounds parts).getLast?.getD 0 : Nat)
  match item with
  | .slice start stop =>
    let s := normBound (pyOr start 0) n
    let e := normBound (pyOr stop n) n
    if 0 ≤ s ∧ s ≤ n ∧ 0 ≤ e ∧ e ≤ n then
      if e ≤ 0 then none          -- last chunk index −1 ⇒ nothing to stack ⇒ ValueError
      else
        let out := readSlice parts s.toNat e.toNat
        if ssRight (bounds parts) (e.toNat - 1) < ssRight (bounds parts) s.toNat then none else
        -- zero-length arrays still stack; an empty *list of pieces* raises
        some out
    else none
  | .list l =>
    if l.isEmpty then none
    else if l.any (· < 0) then none
    else readList parts (l.map Int.toNat)
  | .int i =>
    if n = 0 then none else
    let i := if i < 0 then i % n else i
    if i < 0 then none else readInt parts i.toNat

/-- `_memmap_flat`: number of rows from the file size -/
def memmapRows (fsize offset itemsize nch : Nat) : Nat := (fsize - offset) / (itemsize * nch)

end PhyVerif.C01

namespace PhyVerif.C01
open PhyVerif

/-- channel selector (second component of the index tuple) -/
inductive ColSel where
  | all
  | idx (l : List Int)
  | slice (start stop : Option Int) (step : Int)
deriving Repr

/-- `row[cols]` with NumPy semantics (negative indices wrap); the deferred `cols` op applies it
to every row of the stacked block: `arr[:, cols]` -/
def selCols {β : Type} (c : ColSel) (row : List β) : List β :=
  match c with
  | .all => row
  | .idx l => l.filterMap fun (i : Int) => row[(if i < 0 then i + (row.length : Int) else i).toNat]?
  | .slice s e st => Np.take row (Np.sliceIdx row.length s e st)

/-- `reader[item, cols]`: rows are read and stacked first, the column selection is applied to
the stacked block afterwards (`_apply_ops`) -/
def getItem {β : Type} (parts : List (List (List β))) (item : Item) (c : ColSel) :
    Option (List (List β)) :=
  (getRows parts item).map fun rows => rows.map (selCols c)

end PhyVerif.C01
