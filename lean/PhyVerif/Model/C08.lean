import PhyVerif.Model.C09
/-!
Model of curated-cluster provenance and waveforms (property C08), phylib/io/model.py:
`get_merge_map`, `get_template_counts`, `get_cluster_mean_waveforms`, `cluster_waveforms`, and the
`_load_data` branch choosing merged vs identical clusters.  Exact arithmetic (`Rat`).
The channel list of each template (`get_template(t).channel_ids`, property C05) is an input.
-/
namespace PhyVerif.C08
open PhyVerif PhyVerif.C09

/-- `get_merge_map`: dictionary cluster → templates, built by looping over `np.unique(spike_templates)`
and appending the template to every cluster in `np.unique(spike_clusters[idx])` -/
def mergeMap (st sc : List Nat) : List (List Nat) :=
  let nC := sc.foldl max 0 + 1
  (Np.unique (st.map Int.ofNat)).foldl (fun acc t =>
    let idx := (List.range st.length).filter fun i => st.getD i 0 == t
    let mapping := Np.unique (idx.map fun i => Int.ofNat (sc.getD i 0))
    mapping.foldl (fun a n => a.set n (a.getD n [] ++ [t])) acc) (List.replicate nC [])

/-- `nan_idx`: cluster ids whose template list is empty -/
def nanIdx (mm : List (List Nat)) : List Nat :=
  (List.range mm.length).filter fun c => (mm.getD c []).isEmpty

/-- `get_template_counts(cluster)` -/
def templateCounts (st sc : List Nat) (nt c : Nat) : List Nat :=
  (List.range nt).map fun t => ((st.zip sc).filter fun p => p.1 == t && p.2 == c).length

/-- first index of the maximum of a list of naturals (`np.argmax`) -/
def argmaxNat (l : List Nat) : Nat := l.idxOf (l.foldl max 0)

/-- the `(ns, nc)` block `data[i][:, b.channel_ids] = b.template`: template `W` on its own channel
list, zero elsewhere -/
def onChannels (W : Mat) (chans : List Nat) : Mat :=
  W.map fun row => (List.range row.length).map fun c => if chans.contains c then row.getD c 0 else 0

/-- `get_cluster_mean_waveforms(cluster)`: channels of the dominant template and, on them, the
count-weighted mean of the channel-restricted template waveforms (`np.average(..., weights=count)`) -/
def clusterMean (W : List Mat) (chans : List (List Nat)) (st sc : List Nat) (c : Nat) :
    List Nat × Mat :=
  let count := templateCounts st sc W.length c
  let best := argmaxNat count
  let ids := (List.range W.length).filter fun t => count.getD t 0 != 0
  let chBest := chans.getD best []
  let total : Nat := (ids.map fun t => count.getD t 0).sum
  let ns := (W.getD best []).length
  let mean : Mat := (List.range ns).map fun s => chBest.map fun ch =>
    ((ids.map fun t => (count.getD t 0 : Rat) *
        (((onChannels (W.getD t []) (chans.getD t [])).getD s []).getD ch 0)).sum) / (total : Rat)
  (chBest, mean)

/-- `cluster_waveforms()`: one `(ns, nc)` block per cluster id `0 .. max` -/
def clusterWaveforms (W : List Mat) (chans : List (List Nat)) (st sc : List Nat) (ns nc : Nat) :
    List Mat :=
  let mm := mergeMap st sc
  (List.range mm.length).map fun c =>
    match mm.getD c [] with
    | [] => List.replicate ns (List.replicate nc 0)
    | [t] => W.getD t []
    | _ =>
      let (chBest, mean) := clusterMean W chans st sc c
      (List.range ns).map fun s => (List.range nc).map fun ch =>
        if chBest.contains ch then (mean.getD s []).getD (chBest.idxOf ch) 0 else 0

/-- the `_load_data` branch: (cluster waveforms, n_clusters) -/
def loadClusters (W : List Mat) (chans : List (List Nat)) (st sc : List Nat) (ns nc : Nat) :
    List Mat × Nat :=
  if sc != st then (clusterWaveforms W chans st sc ns nc, sc.foldl max 0 + 1)
  else (W, W.length)

end PhyVerif.C08
