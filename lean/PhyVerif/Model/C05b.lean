import PhyVerif.Model.C05
/-!
Floating-point step of `_get_template_dense` (property C05), phylib/io/model.py:908:

    template = self._unwhiten(template_w).astype(np.float32) if unwhiten else template_w

When the inverse whitening matrix (or a double precision templates.npy) makes the product inexact, the waveform the
record is built from is the SINGLE PRECISION rounding of the double precision product; `_find_best_channels`
(amplitudes, threshold test, ordering) then works on that rounded waveform, which is also what is returned.
`roundNE` is IEEE-754 round-to-nearest-even to a `p`-bit significand (exponent range unbounded: the generated values
are far from overflow / subnormals).
-/
namespace PhyVerif.C05
open PhyVerif PhyVerif.C09

/-- round to nearest, ties to even, `p`-bit significand (`p = 24`: float32, `p = 53`: float64) -/
def roundNE (p : Nat) (q : Rat) : Rat :=
  if q = 0 then 0 else
  let a := q.num.natAbs
  let d := q.den
  -- a/d ∈ (2^(e0-1), 2^(e0+1))
  let e0 : Int := (Nat.log2 a : Int) - (Nat.log2 d : Int)
  let k0 : Int := (p : Int) - 1 - e0
  -- a/d * 2^k as a fraction of naturals
  let sc (k : Int) : Nat × Nat := if 0 ≤ k then (a * 2 ^ k.toNat, d) else (a, d * 2 ^ (-k).toNat)
  -- k with a/d * 2^k ∈ [2^(p-1), 2^p)
  let k : Int := if (sc k0).1 / (sc k0).2 < 2 ^ (p - 1) then k0 + 1 else k0
  let n := (sc k).1
  let m := (sc k).2
  let f := n / m
  let r := n % m
  let f' : Nat := if 2 * r > m || (2 * r == m && f % 2 == 1) then f + 1 else f
  let v : Rat := if 0 ≤ k then mkRat (f' : Int) (2 ^ k.toNat) else (f' : Rat) * ((2 ^ (-k).toNat : Nat) : Rat)
  if q < 0 then -v else v

/-- `M.astype(dtype)` entry by entry -/
def castF (p : Nat) (M : Mat) : Mat := M.map fun row => row.map (roundNE p)

/-- every column of the matrix has at most one non-zero entry (diagonal / permutation-like): each entry of
`np.dot(x, mat)` is then ONE correctly rounded product (the other terms are exact zeros), whatever the order of
summation BLAS uses -/
def oneTermCols (mat : Mat) : Bool :=
  (List.range (ncols mat)).all fun j => decide (((col mat j).filter (· != 0)).length ≤ 1)

/-- `_unwhiten(x)` in double precision, model.py:764-771: `np.dot(x, wmi) * template_scaling`, the product rounded to
double, then the scaling rounded to double.  Faithful when `oneTermCols wmi`. -/
def unwhitenF64 (wmi : Mat) (sc : Rat) (x : Mat) : Mat :=
  (castF 53 (matMul x wmi)).map fun row => row.map fun v => roundNE 53 (v * sc)

/-- the waveform an unwhitened dense request is built from: `self._unwhiten(template_w).astype(np.float32)` -/
def denseF32Input (wmi : Mat) (sc : Rat) (Tw : Mat) : Mat := castF 24 (unwhitenF64 wmi sc Tw)

/-- `_get_template_dense(t, channel_ids, amplitude_threshold, unwhiten=True)` with the floating-point cast:
channel selection, amplitudes and ordering are those of the single precision waveform -/
def getTemplateDenseF32 (g : Geometry) (wmi : Mat) (sc : Rat) (Tw : Mat) (explicit : Option (List Nat))
    (thr : Rat) : Record :=
  getTemplateDense g wmi sc (denseF32Input wmi sc Tw) explicit thr false

/-- the per-channel subtraction `max − min` is exact in `p`-bit arithmetic on this waveform (then
`template.max(axis=0) - template.min(axis=0)` IS the exact peak-to-peak the specification speaks of) -/
def ptpExactF (p : Nat) (T : Mat) : Bool := (chAmps T).all fun a => roundNE p a == a

end PhyVerif.C05
