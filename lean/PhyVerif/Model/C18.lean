/-!
Model of phylib's serialisation layer (property C18), phylib/utils/_misc.py:
`_stringify_keys`, `_CustomEncoder.default`, `_json_custom_hook`, `_intify_keys` (JSON, this file);
`write_tsv` / `read_tsv` at the level of cells (this file: field order, absent fields, empty cells);
the character level — csv quoting and parsing, line terminators, delimiter sniffing,
`_try_make_number`, `_pretty_floats`, `_write_tsv_simple` / `_read_tsv_simple` — in `Model/C18c.lean`;
`write_python` / `read_python` in `Model/C18p.lean`.
The `json` and `base64` libraries and the `repr` of floats are transport, exercised through the real
libraries by the correspondence run.
-/
namespace PhyVerif.C18

/-! ### JSON values -/

mutual
/-- a Python value handed to `save_json` (inside the top-level dictionary), or a node of the JSON
tree that is written -/
inductive PV where
  | none
  | bool (b : Bool)
  | int (i : Int)
  | float (tok : Nat)                   -- a float, identified by a token (repr round-trip is transport)
  | str (s : String)
  | npScalar (i : Int)                  -- `np.generic`; `.item()` gives the Python scalar
  /-- a NumPy scalar WITHOUT a JSON number form: `.item()` is a Python `complex` (complex64 / complex128)
  or the NumPy scalar itself (`np.longdouble`, `np.clongdouble`: no Python equivalent).  `tok` identifies
  the value. -/
  | npExotic (dtype : String) (tok : Int)
  /-- ndarray: dtype (`str(a.dtype)`, byte order included), shape, and its MEMORY LAYOUT as NumPy has
  it: the element at multi-index `idx` lives at memory position `offset + Σ idx_k · strides_k` (in
  items) of the buffer `mem`.  C order, Fortran order, transposed, strided and reversed views are all
  (strides, offset) pairs. -/
  | arr (dtype : String) (shape : List Nat) (strides : List Int) (offset : Int) (mem : List Int)
  /-- only inside written JSON trees: the string `base64(bytes of these items, laid out one after the
  other as items of dtype `dtype`)`.  No shape, no layout. -/
  | payload (dtype : String) (items : List Int)
  | list (l : PVList)
  | dict (kv : PVDict)                  -- nested dictionary (string keys)
inductive PVList where
  | nil
  | cons (h : PV) (t : PVList)
inductive PVDict where
  | nil
  | cons (k : String) (v : PV) (t : PVDict)
end

/-- complex dtypes (`str(dtype)` = 'complex64', 'complex128') are never written as plain lists -/
def isComplexDtype (d : String) : Bool := d.startsWith "complex"

/-- `dtype.char == 'g'`: the C `long double` (`str(dtype)` is 'float128' on x86-64 Linux / macOS, 'float96' on
32-bit x86); its `tolist()` items are `np.longdouble` objects, not Python floats -/
def isLongDoubleDtype (d : String) : Bool := d == "float128" || d == "float96"

/-- dtypes whose short 1-D arrays are NOT written as plain lists of numbers (`_CustomEncoder.default`:
`obj.dtype.kind != 'c' and obj.dtype.char != 'g'`): JSON has no number for their items -/
def noListDtype (d : String) : Bool := isComplexDtype d || isLongDoubleDtype d

/-- number of items of an array -/
def prod (shape : List Nat) : Nat := shape.foldl (· * ·) 1

/-- number of items of an array of this shape (recursive form) -/
def size : List Nat → Nat
  | [] => 1
  | n :: rest => n * size rest

def ofInts : List Int → PVList
  | [] => .nil
  | i :: is => .cons (.int i) (ofInts is)

def ofNats : List Nat → PVList
  | [] => .nil
  | n :: ns => .cons (.int n) (ofNats ns)

/-- the JSON list of a shape read back as a shape (`reshape(d['shape'])`) -/
def natsOf : PVList → List Nat
  | .nil => []
  | .cons (.int i) t => i.toNat :: natsOf t
  | .cons _ t => natsOf t

/-- reading memory (positions outside the buffer do not occur for a real array; they read 0 here) -/
def getMem (mem : List Int) (p : Int) : Int := if p < 0 then 0 else mem.getD p.toNat 0

/-- `np.ascontiguousarray(a)` / `a.tolist()` on 1-D: the elements in row-major (C) order of the
multi-index, whatever the memory layout — nested loops over the axes, last axis fastest -/
def gather (mem : List Int) : List Nat → List Int → Int → List Int
  | [], _, pos => [getMem mem pos]
  | n :: shape, s :: strides, pos =>
    (List.range n).flatMap fun (i : Nat) => gather mem shape strides (pos + (i : Int) * s)
  | n :: shape, [], pos =>      -- fewer strides than axes: not an array; missing strides read as 0
    (List.range n).flatMap fun _ => gather mem shape [] pos

/-- strides (in items) of a C-contiguous array of this shape — what `frombuffer(...).reshape(shape)`
returns -/
def cStrides : List Nat → List Int
  | [] => []
  | _ :: rest => (size rest : Int) :: cStrides rest

/-- memory position of the element at `idx` -/
def memPos : List Int → Int → List Nat → Int
  | s :: strides, pos, i :: idx => memPos strides (pos + (i : Int) * s) idx
  | _, pos, _ => pos

/-- `a[idx]` -/
def getAt (strides : List Int) (offset : Int) (mem : List Int) (idx : List Nat) : Int :=
  getMem mem (memPos strides offset idx)

/-- the JSON object carrying an encoded array (_misc.py:57-60):
`{"__ndarray__": base64(np.ascontiguousarray(obj).data), "dtype": str(obj.dtype), "shape": obj.shape}` -/
def marker (dtype : String) (shape : List Nat) (items : List Int) : PV :=
  .dict (.cons "__ndarray__" (.payload dtype items)
    (.cons "dtype" (.str dtype) (.cons "shape" (.list (ofNats shape)) .nil)))

/-- `d[key]` of a JSON object -/
def findKey (key : String) : PVDict → Option PV
  | .nil => none
  | .cons k v t => if k == key then some v else findKey key t

/-- the payload stored under `__ndarray__`, if any -/
def findArr (kv : PVDict) : Option PV := findKey "__ndarray__" kv

mutual
/-- what `json.dump(..., cls=_CustomEncoder)` writes, as a JSON tree (represented in the same
type): NumPy scalars become Python scalars; 1-D arrays of at most 10 items of a non-complex, non-long-double dtype
become lists of numbers (`tolist()`); other arrays become the marker object holding the base64 of
the C-contiguous copy, `str(dtype)` and the shape (_misc.py:51-60); a NumPy scalar without JSON number
form is written as the 0-d array `np.asarray(obj)`. -/
def encode : PV → PV
  | .npScalar i => .int i
  | .npExotic dtype tok => marker dtype [] [tok]
  | .arr dtype shape strides off mem =>
    match shape with
    | [n] =>
      if n ≤ 10 && !noListDtype dtype then .list (ofInts (gather mem shape strides off))
      else marker dtype shape (gather mem shape strides off)
    | _ => marker dtype shape (gather mem shape strides off)
  | .list l => .list (encodeList l)
  | .dict kv => .dict (encodeDict kv)
  | v => v
def encodeList : PVList → PVList
  | .nil => .nil
  | .cons h t => .cons (encode h) (encodeList t)
def encodeDict : PVDict → PVDict
  | .nil => .nil
  | .cons k v t => .cons k (encode v) (encodeDict t)
end

/-- `np.frombuffer(base64.b64decode(d['__ndarray__']), d['dtype']).reshape(d['shape'])`
(_misc.py:69-71): the items are recovered when the bytes are read with the dtype they were written
with (a different dtype string reads other items: nothing is claimed, `[]` here); the result is a
C-contiguous array of the stored shape.  A marker lacking `dtype`/`shape`, or whose payload is not a
base64 string, makes the real hook raise (KeyError / TypeError): `.none` here.  `reshape` raises when
the shape does not fit the number of items; the model does not check (never the case for a marker
written by `encode`). -/
def fromMarker (kv : PVDict) (p : PV) : PV :=
  match p, findKey "dtype" kv, findKey "shape" kv with
  | .payload pd items, some (.str d), some (.list sh) =>
    .arr d (natsOf sh) (cStrides (natsOf sh)) 0 (if d == pd then items else [])
  | _, _, _ => .none

mutual
/-- `json.loads(..., object_hook=_json_custom_hook)`: every JSON object containing the key
`__ndarray__` is replaced by the array rebuilt from its three entries; an object containing
`__qbytearray__` is replaced by a Qt byte array (outside the value domain: `.none`) -/
def decode : PV → PV
  | .list l => .list (decodeList l)
  | .dict kv =>
    match findArr kv with
    | some p => fromMarker kv p
    | none =>
      match findKey "__qbytearray__" kv with
      | some _ => .none
      | none => .dict (decodeDict kv)
  | v => v
def decodeList : PVList → PVList
  | .nil => .nil
  | .cons h t => .cons (decode h) (decodeList t)
def decodeDict : PVDict → PVDict
  | .nil => .nil
  | .cons k v t => .cons k (decode v) (decodeDict t)
end

/-- top-level keys -/
inductive Key where
  | int (i : Int)
  | str (s : String)
deriving DecidableEq, Repr

/-- `str(k)` of an integer (decimal, leading '-' when negative) -/
def intToStr (i : Int) : String := toString i

/-- `_stringify_keys` -/
def stringifyKey : Key → String
  | .int i => intToStr i
  | .str s => s

/-- is the string the decimal form of an integer (optional leading '-')?  (`_intify_keys`) -/
def isIntString (s : String) : Bool :=
  let cs := s.toList
  match cs with
  | [] => false
  | '-' :: rest => !rest.isEmpty && rest.all Char.isDigit
  | _ => cs.all Char.isDigit

/-- `int(s)` for a string accepted by `isIntString` -/
def parseNat (cs : List Char) : Nat := cs.foldl (fun acc c => acc * 10 + (c.toNat - '0'.toNat)) 0

def parseInt (s : String) : Int :=
  match s.toList with
  | '-' :: rest => -((parseNat rest : Nat) : Int)
  | cs => ((parseNat cs : Nat) : Int)

/-- `_intify_keys` on one key -/
def intifyKey (s : String) : Key :=
  if isIntString s then .int (parseInt s) else .str s

/-- `save_json` then `load_json` on a top-level dictionary -/
def roundTrip (d : List (Key × PV)) : List (Key × PV) :=
  d.map fun kv => (intifyKey (stringifyKey kv.1), decode (encode kv.2))

/-! ### TSV / CSV tables -/

/-- a table cell value -/
inductive Cell where
  | int (i : Int)
  | float (tok : Nat)        -- written with `'%.4f'`; identified by the token of the rounded value
  | text (s : String)        -- non-empty, rejected by `int()` and `float()`
deriving DecidableEq, Repr

/-- insertion sort of field names (what `sorted(fields)` gives) -/
def sortStrings (l : List String) : List String :=
  l.foldr (fun x acc => insert x acc) []
where
  insert (x : String) : List String → List String
    | [] => [x]
    | y :: ys => if x ≤ y then x :: y :: ys else y :: insert x ys

/-- the text written for `row.get(field, None)`: the rendering of the value, or the empty string for
an absent field (the csv writer writes `None` as '') -/
def renderOpt {γ : Type} (render : γ → String) : Option γ → String
  | some c => render c
  | none => ""

/-- `write_tsv`: header = `first_field` (if present) followed by the other fields sorted; one line
per row with an empty string for an absent field -/
def writeTsv {γ : Type} (render : γ → String) (rows : List (List (String × γ))) (first : Option String) :
    Option (List String × List (List String)) :=
  if rows.isEmpty then none else
  let fields := (rows.flatMap fun r => r.map (·.1)).eraseDups
  let fields := match first with
    | some f => if fields.contains f then f :: sortStrings (fields.erase f) else sortStrings fields
    | none => sortStrings fields
  some (fields, rows.map fun r => fields.map fun f => renderOpt render (r.lookup f))

/-- `read_tsv`: zip header with each line, drop empty cells, parse numbers -/
def readTsv {δ : Type} (parse : String → δ) (file : List String × List (List String)) :
    List (List (String × δ)) :=
  file.2.map fun line => ((file.1.zip line).filter fun p => p.2 != "").map fun p => (p.1, parse p.2)

end PhyVerif.C18
