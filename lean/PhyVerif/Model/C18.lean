/-!
Model of phylib's serialisation layer (property C18), phylib/utils/_misc.py:
`_stringify_keys`, `_CustomEncoder.default`, `_json_custom_hook`, `_intify_keys` (JSON);
`write_tsv` / `read_tsv` / `_try_make_number` / `_pretty_floats`, `_write_tsv_simple` /
`_read_tsv_simple` (TSV/CSV).
The `json`, `csv`, `base64`, number formatting/parsing libraries are transport (hypotheses of the
theorems), exercised through the real libraries by the correspondence run.
-/
namespace PhyVerif.C18

/-! ### JSON values -/

mutual
/-- a Python value handed to `save_json` (inside the top-level dictionary) -/
inductive PV where
  | none
  | bool (b : Bool)
  | int (i : Int)
  | float (tok : Nat)                   -- a float, identified by a token (repr round-trip is transport)
  | str (s : String)
  | npScalar (i : Int)                  -- `np.generic`; `.item()` gives the Python scalar
  | arr (dtype : String) (shape : List Nat) (items : List Int)   -- ndarray: dtype, shape, C-order items
  | list (l : PVList)
  | dict (kv : PVDict)                  -- nested dictionary (string keys)
inductive PVList where
  | nil
  | cons (h : PV) (t : PVList)
inductive PVDict where
  | nil
  | cons (k : String) (v : PV) (t : PVDict)
end

/-- complex dtypes (`str(dtype)` = 'complex64', 'complex128') are never written as plain lists -/
def isComplexDtype (d : String) : Bool := d.startsWith "complex"

/-- number of items of an array -/
def prod (shape : List Nat) : Nat := shape.foldl (· * ·) 1

def ofInts : List Int → PVList
  | [] => .nil
  | i :: is => .cons (.int i) (ofInts is)

def ofNats : List Nat → PVList
  | [] => .nil
  | n :: ns => .cons (.int n) (ofNats ns)

/-- the JSON object carrying an encoded array:
`{"__ndarray__": base64(C-contiguous bytes), "dtype": str(dtype), "shape": shape}` — the payload is
kept as the array itself (base64 ∘ tobytes / frombuffer ∘ b64decode is transport) -/
def marker (dtype : String) (shape : List Nat) (items : List Int) : PV :=
  .dict (.cons "__ndarray__" (.arr dtype shape items)
    (.cons "dtype" (.str dtype) (.cons "shape" (.list (ofNats shape)) .nil)))

/-- the payload stored under `__ndarray__`, if any -/
def findArr : PVDict → Option PV
  | .nil => none
  | .cons k v t => if k == "__ndarray__" then some v else findArr t

mutual
/-- what `json.dump(..., cls=_CustomEncoder)` writes, as a JSON tree (represented in the same
type): NumPy scalars become Python scalars; 1-D arrays of at most 10 items become lists of numbers;
other arrays become `{"__ndarray__": <base64 of the C-contiguous bytes>, "dtype", "shape"}`,
represented as `arr` with a flag-free identical payload wrapped in a dict marker. -/
def encode : PV → PV
  | .npScalar i => .int i
  | .arr dtype shape items =>
    match shape with
    | [n] => if n ≤ 10 && !isComplexDtype dtype then .list (ofInts items) else marker dtype shape items
    | _ => marker dtype shape items
  | .list l => .list (encodeList l)
  | .dict kv => .dict (encodeDict kv)
  | v => v
def encodeList : PVList → PVList
  | .nil => .nil
  | .cons h t => .cons (encode h) (encodeList t)
def encodeDict : PVDict → PVDict
  | .nil => .nil
  | .cons k v t => .cons k (encode v) (encodeDict t)
end

mutual
/-- `json.loads(..., object_hook=_json_custom_hook)`: every JSON object containing the key
`__ndarray__` is replaced by `frombuffer(b64decode(...), dtype).reshape(shape)` -/
def decode : PV → PV
  | .list l => .list (decodeList l)
  | .dict kv =>
    match findArr kv with
    | some a => a
    | none => .dict (decodeDict kv)
  | v => v
def decodeList : PVList → PVList
  | .nil => .nil
  | .cons h t => .cons (decode h) (decodeList t)
def decodeDict : PVDict → PVDict
  | .nil => .nil
  | .cons k v t => .cons k (decode v) (decodeDict t)
end

/-- top-level keys -/
inductive Key where
  | int (i : Int)
  | str (s : String)
deriving DecidableEq, Repr

/-- `str(k)` of an integer (decimal, leading '-' when negative) -/
def intToStr (i : Int) : String := toString i

/-- `_stringify_keys` -/
def stringifyKey : Key → String
  | .int i => intToStr i
  | .str s => s

/-- is the string the decimal form of an integer (optional leading '-')?  (`_intify_keys`) -/
def isIntString (s : String) : Bool :=
  let cs := s.toList
  match cs with
  | [] => false
  | '-' :: rest => !rest.isEmpty && rest.all Char.isDigit
  | _ => cs.all Char.isDigit

/-- `int(s)` for a string accepted by `isIntString` -/
def parseNat (cs : List Char) : Nat := cs.foldl (fun acc c => acc * 10 + (c.toNat - '0'.toNat)) 0

def parseInt (s : String) : Int :=
  match s.toList with
  | '-' :: rest => -((parseNat rest : Nat) : Int)
  | cs => ((parseNat cs : Nat) : Int)

/-- `_intify_keys` on one key -/
def intifyKey (s : String) : Key :=
  if isIntString s then .int (parseInt s) else .str s

/-- `save_json` then `load_json` on a top-level dictionary -/
def roundTrip (d : List (Key × PV)) : List (Key × PV) :=
  d.map fun kv => (intifyKey (stringifyKey kv.1), decode (encode kv.2))

/-! ### TSV / CSV tables -/

/-- a table cell value -/
inductive Cell where
  | int (i : Int)
  | float (tok : Nat)        -- written with `'%.4f'`; identified by the token of the rounded value
  | text (s : String)        -- non-empty, rejected by `int()` and `float()`
deriving DecidableEq, Repr

/-- insertion sort of field names (what `sorted(fields)` gives) -/
def sortStrings (l : List String) : List String :=
  l.foldr (fun x acc => insert x acc) []
where
  insert (x : String) : List String → List String
    | [] => [x]
    | y :: ys => if x ≤ y then x :: y :: ys else y :: insert x ys

/-- `write_tsv`: header = `first_field` (if present) followed by the other fields sorted; one line
per row with an empty string for an absent field -/
def writeTsv (render : Cell → String) (rows : List (List (String × Cell))) (first : Option String) :
    Option (List String × List (List String)) :=
  if rows.isEmpty then none else
  let fields := (rows.flatMap fun r => r.map (·.1)).eraseDups
  let fields := match first with
    | some f => if fields.contains f then f :: sortStrings (fields.erase f) else sortStrings fields
    | none => sortStrings fields
  some (fields, rows.map fun r => fields.map fun f =>
    match r.lookup f with
    | some c => render c
    | none => "")

/-- `read_tsv`: zip header with each line, drop empty cells, parse numbers -/
def readTsv (parse : String → Cell) (file : List String × List (List String)) :
    List (List (String × Cell)) :=
  file.2.map fun line => ((file.1.zip line).filter fun p => p.2 != "").map fun p => (p.1, parse p.2)

end PhyVerif.C18
