import PhyVerif.Model.C18
/-!
Character-level model of the table files of property C18 (phylib/utils/_misc.py:214-336):

* the `csv` module as phylib uses it — `csv.writer(f, delimiter=d)` / `csv.reader(f, delimiter=d)`, i.e.
  the `excel` dialect with another delimiter: QUOTE_MINIMAL, quote character `"`, doubled quotes,
  line terminator `\r\n`, no escape character, not strict (CPython `Modules/_csv.c`:
  `join_append_data`, `parse_process_char`);
* the text layer: files are written with `newline=''` (no translation) and read with the default
  universal-newline translation, line by line;
* `_try_make_number` = `int(s)`, else `float(s)`, else the string, for ASCII strings (Python's
  `int`/`float` grammar: surrounding whitespace, sign, single underscores between digits,
  `inf`/`infinity`/`nan`, exponents);
* `_pretty_floats` = `'%.nf' % x` on the exact binary value of the float;
* `write_tsv`/`read_tsv` and `_write_tsv_simple`/`_read_tsv_simple` as compositions of these.
Core Lean only.
-/
namespace PhyVerif.C18

abbrev Str := List Char

/-! ### csv.writer -/

/-- `join_append_data`: a field is quoted when it contains the delimiter, the quote character or a
character of the line terminator -/
def needsQuote (d : Char) (s : Str) : Bool :=
  s.any fun c => c == d || c == '"' || c == '\r' || c == '\n'

/-- `doublequote=True`: every quote character is written twice -/
def doubleQuotes : Str → Str
  | [] => []
  | c :: cs => if c == '"' then '"' :: '"' :: doubleQuotes cs else c :: doubleQuotes cs

def quoteField (d : Char) (s : Str) : Str :=
  if needsQuote d s then '"' :: (doubleQuotes s ++ ['"']) else s

def joinFields (d : Char) : List Str → Str
  | [] => []
  | [f] => quoteField d f
  | f :: g :: fs => quoteField d f ++ d :: joinFields d (g :: fs)

/-- one record, without the line terminator.  A record consisting of one empty field is written as
`""` (`csv_writerow`: "if this is the only field and it is empty, quote it"), because an empty line
reads back as a record without fields. -/
def csvRow (d : Char) (fs : List Str) : Str :=
  if fs = [[]] then ['"', '"'] else joinFields d fs

/-- `writer.writerow` / `writerows` into a file opened with `newline=''`: every record is followed
by `\r\n`, nothing is translated -/
def csvWrite (d : Char) (rows : List (List Str)) : Str :=
  rows.flatMap fun r => csvRow d r ++ ['\r', '\n']

/-! ### csv.reader (one record per physical line: cells without line breaks) -/

/-- put a character in front of the field being read -/
def consHead (c : Char) : List Str → List Str
  | [] => [[c]]
  | f :: fs => (c :: f) :: fs

mutual
/-- state START_FIELD of `parse_process_char`; the end of the list is the end of the line -/
def pStartField (d : Char) : Str → List Str
  | [] => [[]]
  | c :: cs =>
    if c == '"' then pInQuoted d cs
    else if c == d then [] :: pStartField d cs
    else consHead c (pInField d cs)
/-- state IN_FIELD (a quote inside an unquoted field is an ordinary character) -/
def pInField (d : Char) : Str → List Str
  | [] => [[]]
  | c :: cs => if c == d then [] :: pStartField d cs else consHead c (pInField d cs)
/-- state IN_QUOTED_FIELD (at the end of the line the real reader goes on with the next line; here
the field ends, as the non-strict reader does at the end of the file) -/
def pInQuoted (d : Char) : Str → List Str
  | [] => [[]]
  | c :: cs => if c == '"' then pQuoteInQuoted d cs else consHead c (pInQuoted d cs)
/-- state QUOTE_IN_QUOTED_FIELD: a second quote is a literal quote, the delimiter ends the field,
anything else is taken literally (not strict) -/
def pQuoteInQuoted (d : Char) : Str → List Str
  | [] => [[]]
  | c :: cs =>
    if c == '"' then consHead '"' (pInQuoted d cs)
    else if c == d then [] :: pStartField d cs
    else consHead c (pInField d cs)
end

/-- one line (terminator removed) -> its record; an empty line is a record without fields (START_RECORD) -/
def csvParseLine (d : Char) : Str → List Str
  | [] => []
  | c :: cs => pStartField d (c :: cs)

/-! ### the text layer -/

/-- reading in text mode with universal newlines: `\r\n` and a lone `\r` become `\n`
(`afterCR`: the previous character was a `\r`) -/
def universalNewlines : Bool → Str → Str
  | _, [] => []
  | afterCR, c :: cs =>
    if c == '\r' then '\n' :: universalNewlines true cs
    else if c == '\n' && afterCR then universalNewlines false cs
    else c :: universalNewlines false cs

/-- the lines of a text (iteration over the file), terminators removed -/
def splitLines : Str → List Str
  | [] => []
  | c :: cs => if c == '\n' then [] :: splitLines cs else consHead c (splitLines cs)

/-- the lines a reader sees -/
def fileLines (text : Str) : List Str := splitLines (universalNewlines false text)

/-- `delimiter = '\t' if '\t' in f.readline() else ','` (_misc.py:241-242, 310-311) -/
def sniff (lines : List Str) : Char :=
  match lines with
  | [] => ','
  | l :: _ => if l.contains '\t' then '\t' else ','

/-- `csv.reader(f, delimiter=d)` over a whole file -/
def csvRead (d : Char) (text : Str) : List (List Str) := (fileLines text).map (csvParseLine d)

/-! ### `int(s)`, `float(s)`, `_try_make_number` -/

/-- what `_try_make_number` returns -/
inductive Num where
  | int (i : Int)
  | float (neg : Bool) (mant : Nat) (exp : Int)   -- the float nearest to ±mant · 10^exp, as the literal says
  | inf (neg : Bool)
  | nan
  | text (s : String)
deriving DecidableEq, Repr

/-- ASCII whitespace stripped by `int()` / `float()` -/
def isWs (c : Char) : Bool :=
  c == ' ' || c == '\t' || c == '\n' || c == '\r' || c == '\x0b' || c == '\x0c'

def stripWs (s : Str) : Str := ((s.dropWhile isWs).reverse.dropWhile isWs).reverse

def takeSign : Str → Bool × Str
  | '-' :: r => (true, r)
  | '+' :: r => (false, r)
  | r => (false, r)

/-- every underscore stands between two digits (`prev`: the character before) -/
def underscoresOK : Char → Str → Bool
  | prev, [] => prev != '_'
  | prev, c :: cs =>
    (if c == '_' then prev.isDigit else (prev != '_' || c.isDigit)) && underscoresOK c cs

def dropUnderscores (s : Str) : Str := s.filter (· != '_')

/-- `int(s)` in base 10: optional whitespace around, optional sign, digits with single underscores
between them; `none` = ValueError -/
def parseIntLit (s : Str) : Option Int :=
  let sr := takeSign (stripWs s)
  if sr.2.isEmpty then none
  else if sr.2.all (fun c => c.isDigit || c == '_') && underscoresOK 'x' sr.2 then
    let n := parseNat (dropUnderscores sr.2)
    some (if sr.1 then -(n : Int) else n)
  else none

/-- digits [ '.' digits ] [ (e|E) [sign] digits ], at least one digit before the exponent:
(digits read as one number, power of ten) -/
def parseDecimal (u : Str) : Option (Nat × Int) :=
  let ip := u.takeWhile Char.isDigit
  let r1 := u.dropWhile Char.isDigit
  let fr : Str × Str := match r1 with
    | '.' :: t => (t.takeWhile Char.isDigit, t.dropWhile Char.isDigit)
    | _ => ([], r1)
  if ip.isEmpty && fr.1.isEmpty then none
  else match fr.2 with
    | [] => some (parseNat (ip ++ fr.1), -(fr.1.length : Int))
    | c :: t =>
      if c == 'e' || c == 'E' then
        let es := takeSign t
        if es.2.isEmpty || !es.2.all Char.isDigit then none
        else some (parseNat (ip ++ fr.1),
                   (if es.1 then -(parseNat es.2 : Int) else (parseNat es.2 : Int)) - fr.1.length)
      else none

/-- `float(s)`; `none` = ValueError -/
def parseFloatLit (s : Str) : Option Num :=
  let t := stripWs s
  if !underscoresOK 'x' t then none
  else
    let su := takeSign (dropUnderscores t)
    let lu := su.2.map Char.toLower
    if lu == "inf".toList || lu == "infinity".toList then some (.inf su.1)
    else if lu == "nan".toList then some .nan
    else match parseDecimal su.2 with
      | some me => some (.float su.1 me.1 me.2)
      | none => none

/-! #### what `int()` / `float()` do to a `str` before parsing: `_PyUnicode_TransformDecimalAndSpaceToASCII`
(Objects/unicodeobject.c): ASCII characters stay; a non-ASCII white-space character (`Py_UNICODE_ISSPACE`) becomes
' '; a non-ASCII character with a decimal digit value (`Py_UNICODE_TODECIMAL`, category Nd: Arabic-Indic, Devanagari,
fullwidth, mathematical digits, ...) becomes the ASCII digit of that value; every other non-ASCII character becomes '?'. -/

/-- the first code points of the 67 blocks of ten consecutive non-ASCII decimal digits (Unicode 15.0, the
`unicodedata` of Python 3.12; compared with `unicodedata.decimal` over all code points by the check) -/
def uniDigitStarts : List Nat :=
  [1632, 1776, 1984, 2406, 2534, 2662, 2790, 2918, 3046, 3174, 3302, 3430,
   3558, 3664, 3792, 3872, 4160, 4240, 6112, 6160, 6470, 6608, 6784, 6800,
   6992, 7088, 7232, 7248, 42528, 43216, 43264, 43472, 43504, 43600, 44016, 65296,
   66720, 68912, 69734, 69872, 69942, 70096, 70384, 70736, 70864, 71248, 71360, 71472,
   71904, 72016, 72784, 73040, 73120, 73552, 92768, 92864, 93008, 120782, 120792, 120802,
   120812, 120822, 123200, 123632, 124144, 125264, 130032]

/-- `Py_UNICODE_TODECIMAL(c)` of a non-ASCII character (`none`: -1) -/
def uniDigitVal (c : Char) : Option Nat :=
  (uniDigitStarts.find? fun s => s ≤ c.toNat && c.toNat < s + 10).map fun s => c.toNat - s

/-- `Py_UNICODE_ISSPACE(c)` of a non-ASCII character (the ASCII ones are `isWs`; U+001C..U+001F are `str.isspace`
but not stripped by the number parsers) -/
def isUniSpace (c : Char) : Bool :=
  let n := c.toNat
  n == 0x85 || n == 0xa0 || n == 0x1680 || (0x2000 ≤ n && n ≤ 0x200a) || n == 0x2028 || n == 0x2029 ||
    n == 0x202f || n == 0x205f || n == 0x3000

/-- `_PyUnicode_TransformDecimalAndSpaceToASCII` on one character -/
def normChar (c : Char) : Char :=
  if c.toNat < 128 then c
  else if isUniSpace c then ' '
  else match uniDigitVal c with
    | some d => Nat.digitChar d
    | none => '?'

def pyNorm (s : Str) : Str := s.map normChar

/-- `_try_make_number` (_misc.py:214-223): `int(s)`, else `float(s)`, else the string itself.  Both conversions
first transform the string with `pyNorm`, so "١٢", "１.５" and a number padded with no-break spaces ARE numeric
literals. -/
def tryMakeNumber (s : String) : Num :=
  match parseIntLit (pyNorm s.toList) with
  | some i => .int i
  | none =>
    match parseFloatLit (pyNorm s.toList) with
    | some n => n
    | none => .text s

/-! ### `'%.nf' % x` -/

/-- a finite double: ±m · 2^e (−0.0 is `⟨true, 0, 0⟩`) -/
structure Dbl where
  neg : Bool
  m : Nat
  e : Int
deriving DecidableEq, Repr

/-- a / b rounded to the nearest integer, ties to even -/
def roundDiv (a b : Nat) : Nat :=
  let q := a / b
  let r := a % b
  if 2 * r > b || (2 * r == b && q % 2 == 1) then q + 1 else q

/-- |x| · 10^n correctly rounded (what `'%.nf'` prints, without the point) -/
def scaled (n : Nat) (x : Dbl) : Nat :=
  if x.e ≥ 0 then x.m * 10 ^ n * 2 ^ x.e.toNat else roundDiv (x.m * 10 ^ n) (2 ^ (-x.e).toNat)

/-- the last `n` decimal digits of `b`, zero-padded -/
def fracDigits : Nat → Nat → Str
  | 0, _ => []
  | n + 1, b => fracDigits n (b / 10) ++ [Nat.digitChar (b % 10)]

/-- `'%.nf' % x` for a finite x -/
def fmtFixed (n : Nat) (x : Dbl) : Str :=
  let r := scaled n x
  (if x.neg then ['-'] else []) ++ Nat.toDigits 10 (r / 10 ^ n) ++
    (if n = 0 then [] else '.' :: fracDigits n (r % 10 ^ n))

/-! ### cluster tables: `write_tsv` / `read_tsv` on file texts -/

/-- a cell handed to `write_tsv` -/
inductive WCell where
  | int (i : Int)
  | float (x : Dbl)
  | text (s : String)
deriving DecidableEq, Repr

/-- `_pretty_floats(value, n)` followed by the csv writer's `str()` (_misc.py:98-106, 291-293) -/
def renderW (n : Nat) : WCell → String
  | .int i => intToStr i
  | .float x => String.ofList (fmtFixed n x)
  | .text s => s

/-- what a written cell is expected to read back as: a float comes back as the decimal it was written as -/
def obsW (n : Nat) : WCell → Num
  | .int i => .int i
  | .float x => .float x.neg (scaled n x) (-(n : Int))
  | .text s => .text s

def delimOf (isTsv : Bool) : Char := if isTsv then '\t' else ','

/-- `write_tsv(path, rows, first_field)`: the text of the file (`none`: no rows, only an empty file is
created); `isTsv` = the path ends in `.tsv` -/
def writeTsvFile {γ : Type} (isTsv : Bool) (render : γ → String) (rows : List (List (String × γ)))
    (first : Option String) : Option Str :=
  (writeTsv render rows first).map fun file =>
    csvWrite (delimOf isTsv) ((file.1 :: file.2).map fun r => r.map String.toList)

/-- `read_tsv(path)` on the text of the file; `none`: `next(reader)` raises StopIteration (empty file) -/
def readTsvFile {δ : Type} (parse : String → δ) (text : Str) : Option (List (List (String × δ))) :=
  let lines := fileLines text
  match lines.map (csvParseLine (sniff lines)) with
  | [] => none
  | hdr :: body => some (readTsv parse (hdr.map String.ofList, body.map fun r => r.map String.ofList))

/-! ### two-column tables: `_write_tsv_simple` / `_read_tsv_simple` -/

/-- a value of a two-column table; a float is given by the text `str(x)` = `repr(x)` writes for it -/
inductive SVal where
  | int (i : Int)
  | float (lit : String)
  | text (s : String)
deriving DecidableEq, Repr

def renderS : SVal → String
  | .int i => intToStr i
  | .float lit => lit
  | .text s => s

/-- `sorted(data)`: the entries by increasing cluster id -/
def sortById {α : Type} (l : List (Int × α)) : List (Int × α) :=
  l.foldr (fun x acc => ins x acc) []
where
  ins (x : Int × α) : List (Int × α) → List (Int × α)
    | [] => [x]
    | y :: ys => if x.1 ≤ y.1 then x :: y :: ys else y :: ins x ys

/-- `_write_tsv_simple(path, field_name, data)` (_misc.py:325-336) -/
def writeTsvSimple (isTsv : Bool) (field : String) (data : List (Int × SVal)) : Str :=
  csvWrite (delimOf isTsv)
    (["cluster_id".toList, field.toList] ::
      (sortById data).map fun p => [(intToStr p.1).toList, (renderS p.2).toList])

/-- `_read_tsv_simple(path)` (_misc.py:307-333): (field name, {cluster_id: value}) with the entries in
file order (a later line with the same id would replace an earlier one; the writer never repeats an
id).  An EMPTY row - what `csv.reader` yields for a blank line: a trailing blank line left by an editor, a
blank line between two rows - is skipped (`if not row: continue`, _misc.py:326-328).  `none`: the real
function raises (empty file, a non-empty line without exactly two fields, an id that `int()` rejects; the
header line must have exactly two fields, a blank first line raises) -/
def readTsvSimple (text : Str) : Option (String × List (Int × Num)) :=
  let lines := fileLines text
  match lines.map (csvParseLine (sniff lines)) with
  | [] => none
  | hdr :: body =>
    match hdr with
    | [_, f] =>
      ((body.filter fun (row : List Str) => !row.isEmpty).mapM fun row =>
        match row with
        | [cid, v] => (parseIntLit cid).map fun i => (i, tryMakeNumber (String.ofList v))
        | _ => none).map fun d => (String.ofList f, d)
    | _ => none

/-! ### `save_metadata` / `load_metadata` (phylib/io/model.py:118-141) -/

/-- `d[k] = v` on a dictionary whose keys are table values -/
def setKV (d : List (Num × Num)) (k v : Num) : List (Num × Num) :=
  match d with
  | [] => [(k, v)]
  | (k', v') :: t => if k' == k then (k', v) :: t else (k', v') :: setKV t k v

/-- `out[field][cluster_id] = value`, creating `out[field]` when it is absent -/
def setNested (out : List (String × List (Num × Num))) (field : String) (cid v : Num) :
    List (String × List (Num × Num)) :=
  match out with
  | [] => [(field, [(cid, v)])]
  | (f, d) :: t => if f == field then (f, setKV d cid v) :: t else (f, d) :: setNested t field cid v

/-- one row of the loop of `load_metadata` (model.py:128-135) -/
def metaStep (out : List (String × List (Num × Num))) (row : List (String × Num)) :
    List (String × List (Num × Num)) :=
  match row.lookup "cluster_id" with
  | some cid =>
    row.foldl (fun out fc => if fc.1 != "cluster_id" then setNested out fc.1 cid fc.2 else out) out
  | none => out

/-- `load_metadata(filename)`: the file is read with the CLUSTER-TABLE reader `read_tsv` (empty cells
dropped) and regrouped as {field: {cluster_id: value}}; `save_metadata` is `_write_tsv_simple` -/
def loadMetadata (text : Str) : Option (List (String × List (Num × Num))) :=
  (readTsvFile tryMakeNumber text).map fun rows => rows.foldl metaStep []

end PhyVerif.C18
