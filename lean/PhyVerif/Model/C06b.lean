import PhyVerif.Model.C06
/-!
Second part of the C06 model: the PCA route of `get_features` (phylib/io/model.py:995-1016), taken when
no feature file exists but the store of extracted spike waveforms (`_phy_spikes_subset.*.npy`) does:
`get_waveforms` → `get_spike_waveforms` (phylib/io/traces.py:520-546), `compute_features`,
`_project_pcs` (model.py:214-239).  Exact arithmetic (`Rat`).  The principal components
(`_compute_pcs`: `np.cov` + `np.linalg.eigh`, model.py:168-211) are a PARAMETER `pcsOf`.
`none` = the real code raises (or leaves the store route: `get_waveforms` falls back to the raw data).
-/
namespace PhyVerif.C06
open PhyVerif

/-- one `(n_samples, n_channels)` block: `[t][c]` -/
abbrev Wav := List (List Rat)

/-- the waveform store: `spikes.npy` (ids), `channels.npy` (one channel row per stored spike, padded with
−1, `_template_n_channels`, model.py:868-878), `waveforms.npy` (`[row][t][k]`) -/
structure WStore where
  spikeIds : List Nat
  channels : List (List Int)
  waveforms : List Wav

/-- `tmp[i] = v` with NumPy's negative-index wrap-around; out of range (IndexError) leaves the list -/
def pySet {α : Type} (l : List α) (i : Int) (v : α) : List α :=
  if 0 ≤ i then l.set i.toNat v
  else if (-i).toNat ≤ l.length then l.set (l.length - (-i).toNat) v else l

/-- the table of `_index_of(arr, lookup)` (phylib/io/array.py:116-122) for a lookup that may hold the
padding value −1: `m = lookup.max() + 1` (0 + 1 for an empty lookup), `tmp = zeros(m + 1)`,
`tmp[-1] = -1`, `tmp[lookup] = arange(len(lookup))` — a −1 entry writes the LAST cell -/
def indexTableI (lookup : List Int) : List Int :=
  let mx : Int := match lookup with
    | [] => 0
    | x :: xs => xs.foldl max x
  let m := (mx + 1).toNat
  let tmp := pySet (List.replicate (m + 1) (0 : Int)) (-1) (-1)
  lookup.zipIdx.foldl (fun t (p : Int × Nat) => pySet t p.1 (p.2 : Int)) tmp

/-- `_index_of(arr, lookup)` = `tmp[arr]` -/
def indexOfI (arr : List Int) (lookup : List Int) : Option (List Int) :=
  arr.mapM (Np.pyGet? (indexTableI lookup))

/-- `np.intersect1d(channel_ids, ind)`: sorted distinct requested channels that the row lists -/
def intersect1dI (a : List Nat) (b : List Int) : List Nat :=
  Np.unique ((a.filter fun c => b.contains (Int.ofNat c)).map Int.ofNat)

/-- one spike of `get_spike_waveforms` (traces.py:538-545): `ind` = its channel row, `w` = its stored
`(nsw, ncLoc)` block; `out[i, :, cols0] = waveforms[sid, :, cols1]` into zeros, row by row -/
def spikeWaveform (nsw : Nat) (chans : List Nat) (ind : List Int) (w : Wav) : Option Wav := do
  let common := intersect1dI chans ind
  let cols0 ← Np.indexOf (common.map Int.ofNat) chans
  let cols1 ← indexOfI (common.map Int.ofNat) ind
  pure ((List.range nsw).map fun t =>
    (cols0.zip cols1).foldl
      (fun row (p : Int × Int) => row.set p.1.toNat ((w.getD t []).getD p.2.toNat 0))
      (List.replicate chans.length (0 : Rat)))

/-- `get_spike_waveforms(spike_ids, channel_ids, spike_waveforms, nsw)`; the assertions
(every spike stored, `nsw > 0`, `nc > 0`) give `none` -/
def getSpikeWaveforms (sw : WStore) (nsw : Nat) (spikeIds chans : List Nat) : Option (List Wav) :=
  if !(spikeIds.all fun q => sw.spikeIds.contains q) then none
  else if nsw == 0 || chans.isEmpty then none
  else do
    let rel ← Np.indexOf (spikeIds.map Int.ofNat) sw.spikeIds
    rel.mapM fun sid => do
      let ind ← sw.channels[sid.toNat]?
      let w ← sw.waveforms[sid.toNat]?
      spikeWaveform nsw chans ind w

/-- `_project_pcs(x, pcs)` = `np.einsum('ijk,ljk->lki', pcs, x)` (model.py:226):
`features[l][k][i] = Σ_j pcs[i][j][k] · x[l][j][k]` — no mean is subtracted -/
def projectPcs (nsw nc : Nat) (x : List Wav) (pcs : List Wav) : List (List (List Rat)) :=
  x.map fun w => (List.range nc).map fun k => pcs.map fun pc =>
    ((List.range nsw).map fun j => (pc.getD j []).getD k 0 * (w.getD j []).getD k 0).sum

/-- `compute_features(waveforms)` (model.py:232-239); `pcsOf` stands for `_compute_pcs(·, 3)`;
`assert features.shape == (nspk, nc, 3)` fails when fewer than 3 components come back
(`n_samples_waveforms < 3`) -/
def computeFeatures (pcsOf : List Wav → List Wav) (nsw nc : Nat) (x : List Wav) :
    Option (List (List (List Rat))) :=
  let pcs := pcsOf x
  if pcs.length != 3 then none else some (projectPcs nsw nc x pcs)

/-- `get_features(spike_ids, channel_ids)` on the PCA route (model.py:995-1016) -/
def getFeaturesPca (pcsOf : List Wav → List Wav) (sw : WStore) (nsw : Nat)
    (spikeIds chans : List Nat) : Option (List (List (List Rat))) :=
  let init := List.replicate spikeIds.length (List.replicate chans.length (List.replicate 3 (0 : Rat)))
  let exist := intersect1d spikeIds sw.spikeIds
  if exist.isEmpty then some init
  else do
    let wv ← getSpikeWaveforms sw nsw exist chans
    let fe ← computeFeatures pcsOf nsw chans.length wv
    let ind ← Np.indexOf (exist.map Int.ofNat) spikeIds
    pure ((ind.zip fe).foldl (fun acc (p : Int × List (List Rat)) => acc.set p.1.toNat p.2) init)

end PhyVerif.C06
