import PhyVerif.Model.C09
/-!
Second part of the C09 model (phylib/io/model.py): the RETURN VALUES of `get_amplitudes_true` (with the
unit factor `sample2unit`, model.py:1170-1172) and the complete `_waveform_durations`
(model.py:1332-1339: per-channel table of `argmax - argmin`, flat indexing through
`np.ravel_multi_index`, conversion to milliseconds with the sampling rate).
Exact arithmetic over `Rat`; NaN is `none`.  Core Lean only (linked into the driver).
-/
namespace PhyVerif.C09
open PhyVerif

/-- `W * c` for a `(ns, nc)` array and a scalar -/
def scaleMat (W : Mat) (c : Rat) : Mat := W.map fun row => row.map (· * c)

/-- first return value, model.py:1170 `spike_amps * sample2unit` -/
def spikeAmpsUnit (d : Data) (f : Rat) : List Rat := (spikeAmps d).map (· * f)

/-- second return value, model.py:1171 `templates_physical_unit * sample2unit` (NaN stays NaN) -/
def rescaledUnit (d : Data) (f : Rat) : List (Option Mat) :=
  (rescaled d).map fun o => o.map fun W => scaleMat W f

/-- third return value, model.py:1172 `templates_amps_v * sample2unit` (NaN stays NaN) -/
def ampsVUnit (d : Data) (f : Rat) : List (Option Rat) := (ampsV d).map fun o => o.map (· * f)

/-- `get_amplitudes_true(sample2unit=f, use=…)` (model.py:1122-1172); `d` holds the waveforms and the
spike assignment of the id space selected by `use`.  The real code raises `IndexError` when a spike
carries an id `≥ n_wav`, `ValueError` when amplitudes and spikes differ in length. -/
def amplitudesTrue (d : Data) (f : Rat) : List Rat × List (Option Mat) × List (Option Rat) :=
  (spikeAmpsUnit d f, rescaledUnit d f, ampsVUnit d f)

/-- `tmp.argmax(axis=1) - tmp.argmin(axis=1)` (model.py:1336): for every waveform and EVERY channel the
difference of the first arg-max and the first arg-min along time, in samples -/
def durTable (wfs : List Mat) : List (List Int) :=
  wfs.map fun W => (List.range (ncols W)).map fun j =>
    (argmaxFirst (col W j) : Int) - (argminFirst (col W j) : Int)

/-- `np.ravel_multi_index((np.arange(0, n_templates), peaks), (n_templates, n_channels), order='C')`
(model.py:1337): flat index `t * n_channels + peaks[t]` (`mode='raise'`: the real call raises when a
peak is `≥ n_channels`, which cannot happen for an `argmax` over the channel axis) -/
def ravelIndex (nc : Nat) (peaks : List Nat) : List Nat :=
  peaks.zipIdx.map fun p => p.2 * nc + p.1

/-- `_waveform_durations(tmp)` (model.py:1332-1339):
`durations.flatten()[ind].astype(np.float64) / self.sample_rate * 1e3`, in milliseconds.
`n_channels` is the last entry of `tmp.shape` (here: the width of the first row of the first waveform;
the array is rectangular).  The real code raises `ValueError` for zero samples or zero channels
(reduction over an empty axis). -/
def waveformDurations (wfs : List Mat) (rate : Rat) : List Rat :=
  let nc := ncols (wfs.headD [])
  let peaks := peakChannels wfs        -- model.py:1335 (same expression as `_channels`)
  let flat := (durTable wfs).flatten
  (ravelIndex nc peaks).map fun k => ((flat.getD k 0 : Int) : Rat) / rate * 1000

end PhyVerif.C09
