import PhyVerif.Model.C12
/-!
`write_misc` (phylib/io/merge.py:264-283) with OPTIONAL per-probe matrices: for each of
`similar_templates.npy`, `whitening_mat.npy`, `whitening_mat_inv.npy` the per-probe files are loaded in
probe order by `_load_multiple_files` (merge.py:55-58); the first probe without the file makes `np.load`
raise `FileNotFoundError`, which `write_misc` catches: the merged file is skipped (merge.py:277-281).
-/
namespace PhyVerif.C12
open PhyVerif

/-- `_load_multiple_files(fn, subdirs)` on optional files: `none` = `FileNotFoundError` (raised at the
first probe whose directory has no such file) -/
def loadAll {β : Type} : List (Option β) → Option (List β)
  | [] => some []
  | none :: _ => none
  | some m :: rest =>
    match loadAll rest with
    | none => none
    | some ms => some (m :: ms)

variable {α : Type} [Zero α]

/-- one iteration of the loop of `write_misc`: `none` = the file is skipped, `some M` = `M` is saved -/
def mergeOptional (ms : List (Option (List (List α)))) : Option (List (List α)) :=
  match loadAll ms with
  | none => none
  | some l => some (blockDiag l)

end PhyVerif.C12
