import PhyVerif.Model.Np
/-!
Model of `phylib/stats/ccg.py` (property C15): `correlograms`, `_symmetrize_correlograms`,
`firing_rate`.  The float → sample conversion (`(times*rate).astype(int64)`, `int(rate*bin)`,
`2*int(.5*window/bin)+1`) is done by the harness with the same float expressions; the model starts
from integer samples, an integer bin size in samples and the half window in bins.
-/
namespace PhyVerif.C15
open PhyVerif

/-- one increment of the count array: (row cluster index, column cluster index, lag bin) -/
abbrev Ev := Nat × Nat × Int

structure Inp where
  t : Nat → Int          -- spike sample of spike a
  cl : Nat → Nat         -- cluster *index* (position in the caller's cluster list) of spike a
  n : Nat                -- number of spikes
  bin : Int              -- bin size in samples
  half : Int             -- winsize_bins // 2

variable (x : Inp)

/-- `spike_diff_b[a]` at shift `s` : `(t[a+s] - t[a]) // binsize` -/
def lag (a s : Nat) : Int := (x.t (a + s) - x.t a) / x.bin

/-- `mask[:-shift][spike_diff_b > half] = False` -/
def stepMask (s : Nat) (mask : Nat → Bool) : Nat → Bool :=
  fun a => if a + s < x.n then (mask a && decide (lag x a s ≤ x.half)) else mask a

/-- the increments of one iteration (`ravel_multi_index` + `_increment`) -/
def evAt (s : Nat) (mask : Nat → Bool) : List Ev :=
  (List.range (x.n - s)).filterMap fun a =>
    if mask a then some (x.cl a, x.cl (a + s), lag x a s) else none

/-- the `while mask[:-shift].any()` loop, with fuel -/
def loop : Nat → Nat → (Nat → Bool) → List Ev → List Ev
  | 0, _, _, acc => acc
  | f+1, s, mask, acc =>
    if (List.range (x.n - s)).any mask then
      loop f (s+1) (stepMask x s mask) (acc ++ evAt x s (stepMask x s mask))
    else acc

/-- all increments performed by `correlograms` -/
def ccg : List Ev := loop x x.n 1 (fun _ => true) []

/-- the one-sided count array `(nc, nc, half+1)` -/
def countArray (ev : List Ev) (nc : Nat) (half : Nat) : List (List (List Nat)) :=
  (List.range nc).map fun i => (List.range nc).map fun j =>
    (List.range (half + 1)).map fun (k : Nat) => ev.count (i, j, Int.ofNat k)

/-- list-level entry point: spike samples, spike clusters, the caller's cluster list.
`none` when `_index_of` raises (cluster outside the lookup table). -/
def correlograms (t : List Int) (sc : List Int) (ids : List Nat) (bin : Int) (half : Nat) :
    Option (List (List (List Nat))) := do
  let ci ← Np.indexOf sc ids
  let x : Inp := { t := fun a => t.getD a 0, cl := fun a => (ci.getD a 0).toNat,
                   n := t.length, bin := bin, half := half }
  pure (countArray (ccg x) ids.length half)

/-! ### symmetrisation -/

def get3 (c : List (List (List Nat))) (i j k : Nat) : Nat := ((c.getD i []).getD j []).getD k 0

/-- `correlograms[..., 0] = maximum(c[..., 0], c[..., 0].T)` -/
def symCentre (c : List (List (List Nat))) : List (List (List Nat)) :=
  c.zipIdx.map fun (row, i) => row.zipIdx.map fun (v, j) =>
    match v with
    | [] => []
    | v0 :: rest => max v0 (get3 c j i 0) :: rest

/-- `_symmetrize_correlograms` : `dstack((transpose(c[..., 1:][..., ::-1], (1,0,2)), c))` -/
def symmetrize (c : List (List (List Nat))) : List (List (List Nat)) :=
  let c' := symCentre c
  c'.zipIdx.map fun (row, i) => row.zipIdx.map fun (v, j) =>
    (((c'.getD j []).getD i []).tail).reverse ++ v

/-! ### firing rate (integer part; the harness multiplies by `bin_size / duration`) -/

/-- `bc * np.c_[bc]` with `bc = bincount(index_of(sc, ids))` padded to `len(ids)` -/
def firingCounts (sc : List Int) (ids : List Nat) : Option (List (List Nat)) := do
  let ci ← Np.indexOf sc ids
  let bc : List Nat := (List.range ids.length).map fun (i : Nat) => ci.count (Int.ofNat i)
  pure (bc.map fun bi => bc.map fun bj => bj * bi)

end PhyVerif.C15
