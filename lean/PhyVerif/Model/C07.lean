import PhyVerif.Model.Np
/-!
Model of the spike-cluster index utilities (property C07):
  phylib/io/array.py : _spikes_per_cluster, _spikes_in_clusters, _unique, _index_of,
                       _flatten_per_cluster, grouped_mean
  phylib/io/model.py : get_cluster_spikes, get_template_spikes, get_template_counts
-/
namespace PhyVerif.C07
open PhyVerif

/-- `np.argsort(sc, kind='mergesort')`: stable sort of the indices by key. -/
def argsortStable (sc : List Nat) : List Nat :=
  (Np.isort (fun (a b : Nat × Nat) => decide (a.1 ≤ b.1)) sc.zipIdx).map (·.2)

/-- `b - a` computed in a fixed-width integer dtype (`np.diff` on the sorted id array keeps the
dtype): `w` bits, signed or unsigned, result as the integer the dtype holds. -/
def wrapDiff (w : Nat) (signed : Bool) (a b : Nat) : Int :=
  let m : Int := 2 ^ w
  let d : Int := ((b : Int) - (a : Int)) % m
  if signed && decide (d ≥ m / 2) then d - m else d

/-- `idx = nonzero(diff > 0)` where `diff[0] = 1`, `diff[1:] = np.diff(sorted)` in the dtype -/
def boundaries (w : Nat) (signed : Bool) (keys : List Nat) : List Nat :=
  (List.range keys.length).filter fun i =>
    i == 0 || decide (wrapDiff w signed (keys.getD (i - 1) 0) (keys.getD i 0) > 0)

/-- cut `l` at the positions `idx` (increasing, starting with 0): `l[idx[i]:idx[i+1]]`, last to end -/
def cutAt (l : List Nat) : List Nat → List (List Nat)
  | [] => []
  | [a] => [l.drop a]
  | a :: b :: t => ((l.drop a).take (b - a)) :: cutAt l (b :: t)

/-- `_spikes_per_cluster(spike_clusters, spike_ids)` as an association list in key order
(the dict is built in increasing cluster order). `ids = none` ↦ `arange(n)`. -/
def spikesPerCluster (w : Nat) (signed : Bool) (sc : List Nat) (ids : Option (List Nat)) :
    List (Nat × List Nat) :=
  if sc.isEmpty then [] else
  let ids := ids.getD (List.range sc.length)
  let rel := argsortStable sc
  let abs := rel.map (fun i => ids.getD i 0)
  let keys := rel.map (fun i => sc.getD i 0)
  let idx := boundaries w signed keys
  (idx.map (fun i => keys.getD i 0)).zip (cutAt abs idx)

/-- `_spikes_in_clusters(sc, clusters)` = `nonzero(isin(sc, clusters))` -/
def spikesInClusters (sc : List Nat) (clusters : List Nat) : List Nat :=
  if sc.isEmpty || clusters.isEmpty then [] else
  (List.range sc.length).filter fun i => clusters.contains (sc.getD i 0)

/-- `_flatten_per_cluster(d)` = `np.unique(np.concatenate(values))` -/
def flattenPerCluster (d : List (Nat × List Nat)) : List Nat :=
  Np.unique ((d.map (·.2)).flatten.map Int.ofNat)

/-- `np.add.at(t, idx, arr)`: unbuffered accumulation -/
def addAt (t : List Int) : List Nat → List Int → List Int
  | i :: is, a :: as => addAt (t.set i (t.getD i 0 + a)) is as
  | _, _ => t

/-- `grouped_mean(arr, sc)` with integer-valued `arr`, following the code: `_unique`, `_index_of`,
`bincount`, `np.add.at`; returns per sorted distinct cluster the pair (sum, count) — the mean is
their exact quotient (one correctly rounded float division in the real code). -/
def groupedMean (arr : List Int) (sc : List Nat) : Option (List (Int × Nat)) := do
  let cids := Np.unique (sc.map Int.ofNat)
  let rel ← Np.indexOf (sc.map Int.ofNat) cids
  let reln := rel.map Int.toNat
  let counts := Np.bincount reln
  let sums := addAt (List.replicate cids.length 0) reln arr
  pure (sums.zip counts)

/-- `grouped_mean(arr, sc)` as the array of quotients `t / spike_counts` (array.py:387), exact -/
def groupedMeanQ (arr : List Int) (sc : List Nat) : Option (List Rat) :=
  (groupedMean arr sc).map fun l => l.map fun p => (p.1 : Rat) / (p.2 : Rat)

/-- `get_template_counts(cluster)` = `bincount(spike_templates[get_cluster_spikes(c)], minlength=nt)` -/
def templateCounts (sc st : List Nat) (nt : Nat) (c : Nat) : List Nat :=
  let sp := spikesInClusters sc [c]
  Np.bincount (sp.map fun i => st.getD i 0) nt

end PhyVerif.C07
