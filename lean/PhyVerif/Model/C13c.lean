import PhyVerif.Model.C13
/-!
The ALF export as a function on DIRECTORIES (property C13), phylib/io/alf.py:112-309.

`convertFS` mirrors `EphysAlfCreator.convert` step by step on a pair (source directory, output
directory) of finite maps `file name ↦ entry`; every array the export computes is built here from the
SOURCE VIEW (`View`: what the exporter reads from `self.model`) by the same operations the code uses
(`zeros(clusters_channels.shape[0])`, `a[spike_clusters]`, `samples / rate`, `zeros_like(...)`, copies of
source files), so that the first dimension of every written file is a consequence of the model, not a
field.  An array is represented by the list of its rows along the first axis (`Row`); values that other
properties establish (C09/C14: amplitudes, waveforms, depths) are tokens, the values C13 itself talks about
(times in seconds, samples, ids, identifiers) are real values.
-/
namespace PhyVerif.C13

/-- one row (first-axis entry) of a written array / one line of a text file -/
inductive Row where
  | q (v : Rat)                      -- a rational value (spike time in seconds)
  | z (v : Int)                      -- an integer value (sample, id)
  | s (v : String)                   -- a line of text (identifier)
  | tok (what : String) (i : Nat)    -- row `i` of a quantity whose value is established by C09/C14
deriving DecidableEq, Repr

/-- a file: `tag` identifies its bytes ("new" for what the export computes, otherwise the digest of a
pre-existing file, prefixed by the transformations applied), `rows` its first axis (the lines for a text
file), `vec2d` = the `.npy` header says shape `(n, 1)` (alf.py:158). -/
structure Entry where
  tag : String
  rows : List Row
  vec2d : Bool
deriving DecidableEq, Repr

/-- a directory: finite map from file names to entries -/
abbrev FDir := List (Name × Entry)

namespace FDir
def lookup (d : FDir) (n : Name) : Option Entry := (d.find? (fun f => f.1 == n)).map (·.2)
def has (d : FDir) (n : Name) : Bool := d.any (fun f => f.1 == n)
/-- `np.save(path, …)` / `open(path, 'w')` / `shutil.copy(…, path)`: create or replace -/
def write (d : FDir) (n : Name) (e : Entry) : FDir := d.filter (fun f => f.1 != n) ++ [(n, e)]
/-- `path.unlink()` -/
def remove (d : FDir) (n : Name) : FDir := d.filter (fun f => f.1 != n)
def keys (d : FDir) : List Name := d.map (·.1)
end FDir

/-- What the exporter reads from `self.model` (a loaded `TemplateModel`). -/
structure View where
  rate : Rat                  -- model.sample_rate
  samples : List Int          -- model.spike_samples
  times : List Rat            -- model.spike_times (seconds)
  spikeClusters : List Nat    -- model.spike_clusters
  spikeTemplates : List Nat   -- model.spike_templates
  amplitudes : List Rat       -- model.amplitudes
  nTemplates : Nat            -- model.sparse_templates.data.shape[0]
  channelMap : List Nat       -- model.channel_mapping
  channelProbes : List Nat    -- model.channel_probes
  featRows : Option Nat       -- model.sparse_features.data.shape[0] (`none`: model.sparse_features is None)
deriving Repr

/-- `model.n_clusters` = rows of `model.sparse_clusters` (model.py:418-428, the rule of C08's
`loadClusters`): one per id up to the highest when anything was curated, one per template otherwise. -/
def nClusters (v : View) : Nat :=
  if v.spikeClusters = v.spikeTemplates then v.nTemplates else v.spikeClusters.foldl max 0 + 1

/-- the counts the property names -/
def sizesOf (v : View) : Sizes :=
  ⟨v.samples.length, nClusters v, v.nTemplates, v.channelMap.length⟩

/-- `times = samples / self.sample_rate` (model.py:652): spike times in seconds -/
def timesOf (rate : Rat) (samples : List Int) : List Rat := samples.map fun (s : Int) => (s : Rat) / rate

/-- `np.round`: to the nearest integer, ties to the even one -/
def roundHalfEven (q : Rat) : Int :=
  let f := q.floor
  let r := q - (f : Rat)
  if r < 1 / 2 then f else if (1 / 2 : Rat) < r then f + 1 else if f % 2 = 0 then f else f + 1

/-- the two layouts `TemplateModel._load_spike_samples` accepts (model.py:644-662) -/
inductive SpikeFile where
  | inSamples (s : List Int)                       -- `spike_times.npy`: in SAMPLES despite its name
  | inSeconds (t : List Rat) (s : Option (List Int))  -- `spikes.times*.npy` in seconds (+ `spikes.samples*.npy` if any)
deriving Repr

/-- `_load_spike_samples`: (spike_samples, spike_times).  From samples the times are `samples / rate`; from
seconds the times are the file's values VERBATIM and the samples, unless stored, are
`np.round(times * rate).astype(np.uint64)` (non-negative times: a negative product wraps around). -/
def loadSpikeSamples (rate : Rat) : SpikeFile → List Int × List Rat
  | .inSamples s => (s, timesOf rate s)
  | .inSeconds t (some s) => (s, t)
  | .inSeconds t none => (t.map fun x => roundHalfEven (x * rate), t)

/-- `.astype(np.uint16)` of a non-negative or negative integer: reduction modulo 2^16 -/
def wrap16 (r : Row) : Row :=
  match r with
  | .z v => .z (v % 65536)
  | r => r

/-- rows `0..n-1` of a quantity computed elsewhere -/
def tokRows (what : String) (n : Nat) : List Row := (List.range n).map (Row.tok what)

def fresh (rows : List Row) : Entry := ⟨"new", rows, false⟩

/-- `model.clusters_channels`: one peak channel per block of `sparse_clusters` (model.py:1281-1296) -/
def clustersChannels (v : View) : List Row := tokRows "clusters_channels" (nClusters v)

/-- `camps = np.zeros(self.model.clusters_channels.shape[0]) * np.nan` (alf.py:193) -/
def camps (v : View) : List Row := tokRows "camps" (clustersChannels v).length

/-- alf.py:199-202: `['uuids'] + [str(uuid.uuid4()) for _ in range(camps.size)]`; `gen k` is the value of
the k-th call of `uuid4` during this conversion. -/
def uuidColumn (gen : Nat → String) (n : Nat) : List Row :=
  Row.s "uuids" :: (List.range n).map fun k => Row.s (gen k)

/-- `spike_amps = templates_amps[spike_templates] * amplitudes` (C09): one row per spike, elementwise -/
def spikeAmps (v : View) : List Row :=
  (List.zipWith (fun (_ : Nat) (_ : Rat) => ()) v.spikeTemplates v.amplitudes).zipIdx.map
    fun p => Row.tok "spikes.amps" p.2

/-- `clusters_depths = channel_positions[cluster_channels, 1]` where `cluster_channels` is READ BACK
from `out/clusters.channels.npy` (alf.py:224-229) -/
def clustersDepths (cc : Entry) : List Row := cc.rows.zipIdx.map fun p => Row.tok "clusters.depths" p.2

/-- `model.get_depths()` (model.py:1098-1122): `None` without features AND when the feature store holds a row for a
subset of the spikes only (`data.shape[0] != n_spikes`, the `pc_feature_spike_ids.npy` layout); otherwise one entry per
spike (`zeros_like(spike_times)`). -/
def getDepthsRows (v : View) : Option (List Row) :=
  match v.featRows with
  | none => none
  | some n => if n = v.times.length then some (tokRows "get_depths" v.times.length) else none

/-- alf.py:233-239: `model.get_depths()` when it gives depths, otherwise `clusters_depths[spike_clusters]`
(IndexError for an id beyond the table: not in the domain, every id is below `n_clusters`). -/
def spikesDepths (v : View) (cd : List Row) : List Row :=
  match getDepthsRows v with
  | some d => d
  | none => v.spikeClusters.map fun c => cd.getD c (Row.tok "nan" 0)

structure Cfg where
  sameDir : Bool      -- `out_path.resolve() == dir_path.resolve()` (alf.py:118)
  force : Bool
  label : String
  hasTraces : Bool    -- `model.traces is not None` (raw data available)
deriving Repr

inductive Err where
  | sameDir           -- IOError, alf.py:119
  | noClusterChannels -- FileNotFoundError, alf.py:224
  | badLabel          -- ValueError("Invalid suffix"), alf.py:303
  | noSpikesFile      -- StopIteration, alf.py:308
deriving DecidableEq, Repr

/-- alf.py:177-202 — note that the existence tests look into the SOURCE directory while the files are
written into the OUTPUT directory -/
def makeClusterObjects (v : View) (gen : Nat → String) (src out : FDir) : FDir :=
  let out := if src.has ["clusters", "channels", "npy"] then out
             else out.write ["clusters", "channels", "npy"] (fresh (clustersChannels v))
  let out := if src.has ["clusters", "peakToTrough", "npy"] then out
             else out.write ["clusters", "peakToTrough", "npy"] (fresh (tokRows "clusters_waveforms_durations" (nClusters v)))
  let out := out.write ["clusters", "amps", "npy"] (fresh (camps v))
  out.write ["clusters", "uuids", "csv"] (fresh (uuidColumn gen (camps v).length))

/-- alf.py:204-213: `rawInd = np.zeros_like(self.model.channel_probes)` filled per probe (values: C14) -/
def makeChannelObjects (v : View) (out : FDir) : FDir :=
  out.write ["channels", "rawInd", "npy"] (fresh (tokRows "rawInd" v.channelProbes.length))

/-- alf.py:239-294 (`n_templates == model.n_templates`, `n_clusters == model.n_clusters` are asserted there) -/
def makeTemplateAndSpikesObjects (v : View) (out : FDir) : FDir :=
  let out := out.write ["spikes", "times", "npy"] (fresh (v.times.map Row.q))
  let out := out.write ["spikes", "samples", "npy"] (fresh (v.samples.map Row.z))
  let out := out.write ["spikes", "amps", "npy"] (fresh (spikeAmps v))
  let out := out.write ["templates", "amps", "npy"] (fresh (tokRows "templates.amps" v.nTemplates))
  let out := out.write ["templates", "waveforms", "npy"] (fresh (tokRows "templates.waveforms" v.nTemplates))
  let out := out.write ["templates", "waveformsChannels", "npy"] (fresh (tokRows "templates.waveformsChannels" v.nTemplates))
  let out := out.write ["clusters", "waveforms", "npy"] (fresh (tokRows "clusters.waveforms" (nClusters v)))
  let out := out.write ["clusters", "waveformsChannels", "npy"] (fresh (tokRows "clusters.waveformsChannels" (nClusters v)))
  out.write ["clusters", "amps", "npy"] (fresh (tokRows "clusters.amps" (nClusters v)))

/-- the three files `model.save_spikes_subset_waveforms` writes INTO THE SOURCE directory (model.py:1394-1396) -/
def subsetFiles : List Name :=
  [["_phy_spikes_subset", "spikes", "npy"], ["_phy_spikes_subset", "channels", "npy"],
   ["_phy_spikes_subset", "waveforms", "npy"]]

/-- model.py:1378-1427: nothing without raw data; otherwise spikes, channels, waveforms in this order -/
def saveSubset (hasTraces : Bool) (src : FDir) : FDir :=
  if hasTraces then
    subsetFiles.foldl (fun d n => d.write n (fresh (tokRows (".".intercalate n) 0))) src
  else src

/-- alf.py:215-237; `none` = the `np.load` of `out/clusters.channels.npy` fails -/
def makeDepths (v : View) (out : FDir) : Option FDir :=
  match out.lookup ["clusters", "channels", "npy"] with
  | none => none
  | some cc =>
    let cd := clustersDepths cc
    let out := out.write ["spikes", "depths", "npy"] (fresh (spikesDepths v cd))
    some (out.write ["clusters", "depths", "npy"] (fresh cd))

/-- `FILE_DELETES` (alf.py:52-54, 163-167) -/
def rmFiles (src : FDir) : FDir := src.remove ["temp_wh", "dat"]

/-- `_FILE_RENAMES` (alf.py:32-50): file_in, file_out, squeeze -/
def fileRenames : List (Name × Name × Bool) :=
  [ (["params", "py"], ["params", "py"], false),
    (["cluster_KSLabel", "tsv"], ["cluster_KSLabel", "tsv"], false),
    (["spike_clusters", "npy"], ["spikes", "clusters", "npy"], true),
    (["spike_templates", "npy"], ["spikes", "templates", "npy"], true),
    (["channel_positions", "npy"], ["channels", "localCoordinates", "npy"], false),
    (["channel_probe", "npy"], ["channels", "probes", "npy"], true),
    (["channel_labels", "npy"], ["channels", "labels", "npy"], true),
    (["cluster_probes", "npy"], ["clusters", "probes", "npy"], true),
    (["cluster_shanks", "npy"], ["clusters", "shanks", "npy"], true),
    (["whitening_mat", "npy"], ["_kilosort_whitening", "matrix", "npy"], false),
    (["_phy_spikes_subset", "channels", "npy"], ["_phy_spikes_subset", "channels", "npy"], false),
    (["_phy_spikes_subset", "spikes", "npy"], ["_phy_spikes_subset", "spikes", "npy"], false),
    (["_phy_spikes_subset", "waveforms", "npy"], ["_phy_spikes_subset", "waveforms", "npy"], false),
    (["drift_depths", "um", "npy"], ["drift_depths", "um", "npy"], false),
    (["drift", "times", "npy"], ["drift", "times", "npy"], false),
    (["drift", "um", "npy"], ["drift", "um", "npy"], false) ]

/-- `d.squeeze()` of an `(n, 1)` array: same rows, one axis less -/
def squeezed (e : Entry) : Entry := ⟨"squeeze:" ++ e.tag, e.rows, false⟩

/-- one iteration of `copy_files` (alf.py:150-161): `_copy_if_possible` (skipped when the source file is
missing, or the target exists and not `force`), then the re-save of a squeezed `(n,1)` vector — which is
NOT guarded by `force`. -/
def copyOne (force : Bool) (src : FDir) (out : FDir) (r : Name × Name × Bool) : FDir :=
  match src.lookup r.1 with
  | none => out
  | some e =>
    let out := if out.has r.2.1 && !force then out else out.write r.2.1 e
    if r.2.2 && r.1.getLast? == some "npy" && e.vec2d then out.write r.2.1 (squeezed e) else out

def copyFiles (force : Bool) (src out : FDir) : FDir := fileRenames.foldl (copyOne force src) out

/-- the files matched by `'channels.*', 'clusters.*', 'spikes.*', 'templates.*'` (alf.py:300): the
object name followed by a dot, i.e. at least two parts -/
def isObj (n : Name) : Bool :=
  match n with
  | obj :: _ :: _ => obj == "channels" || obj == "clusters" || obj == "spikes" || obj == "templates"
  | _ => false

def relabel (label : String) (n : Name) : Name := if isObj n then withLabel label n else n

/-- `Path.with_suffix('.' + label + ext)` raises ValueError when the suffix contains a path separator
(confirmed on the real code with the label `a/b`) -/
def labelBad (label : String) : Bool := label.toList.contains '/'

/-- `rename_with_label` (alf.py:296-303) -/
def renameWithLabel (label : String) (out : FDir) : FDir :=
  if label = "" then out else out.map fun f => (relabel label f.1, f.2)

/-- the last part of a name ends with `npy` -/
def endsNpy (s : String) : Bool := "npy".toList.isSuffixOf s.toList

/-- the glob `spikes.{attribute}.*npy` (alf.py:308) on a name given by its parts -/
def matchesSpikes (attr : String) (n : Name) : Bool :=
  match n with
  | "spikes" :: a :: rest => a == attr && !rest.isEmpty && endsNpy (rest.getLast?.getD "")
  | _ => false

def u16 (e : Entry) : Entry := ⟨"u16:" ++ e.tag, e.rows.map wrap16, e.vec2d⟩

/-- apply `f` to the first entry whose name satisfies `p` (`next(glob(...))`); `none` when there is none -/
def mapFirst (p : Name → Bool) (f : Entry → Entry) : FDir → Option FDir
  | [] => none
  | x :: rest => if p x.1 then some ((x.1, f x.2) :: rest) else (mapFirst p f rest).map (x :: ·)

/-- `compress_spikes_dtypes` (alf.py:305-309): templates, then clusters -/
def compressSpikesDtypes (out : FDir) : Option FDir :=
  (mapFirst (matchesSpikes "templates") u16 out).bind (mapFirst (matchesSpikes "clusters") u16)

structure FS where
  src : FDir
  out : FDir
deriving Repr

/-- the state of both directories when `convert` returns or raises, and the exception if any -/
structure Outcome where
  fs : FS
  err : Option Err
deriving Repr

/-- `EphysAlfCreator.convert` (alf.py:112-147) -/
def convertFS (cfg : Cfg) (v : View) (gen : Nat → String) (fs : FS) : Outcome :=
  if cfg.sameDir then ⟨fs, some .sameDir⟩ else
  let out := makeClusterObjects v gen fs.src fs.out
  let out := makeChannelObjects v out
  let out := makeTemplateAndSpikesObjects v out
  let src := saveSubset cfg.hasTraces fs.src
  match makeDepths v out with
  | none => ⟨⟨src, out⟩, some .noClusterChannels⟩
  | some out =>
    let src := rmFiles src
    let out := copyFiles cfg.force src out
    if labelBad cfg.label then ⟨⟨src, out⟩, some .badLabel⟩ else
    let out := renameWithLabel cfg.label out
    match compressSpikesDtypes out with
    | none => ⟨⟨src, out⟩, some .noSpikesFile⟩
    | some out => ⟨⟨src, out⟩, none⟩

/-- the first dimension the property talks about: the number of identifiers for the CSV (header line
excluded), the number of rows otherwise -/
def firstDim (n : Name) (e : Entry) : Nat :=
  if n.getLast? == some "csv" then e.rows.length - 1 else e.rows.length

/-! ### the frame clause as a predicate on two listings of the source directory -/

/-- files exempt from the byte-identity claim: the sorter's temporary file and the spike-waveform subset -/
def exempt (n : Name) : Bool := n == ["temp_wh", "dat"] || subsetFiles.contains n

/-- every non-exempt file of `before` is in `after` with the same bytes, `after` holds nothing else except
exempt files, and the temporary whitened-data file is gone -/
def frameOKb (before after : FDir) : Bool :=
  before.all (fun f => exempt f.1 || after.lookup f.1 == some f.2) &&
  after.all (fun f => exempt f.1 || before.has f.1) && !after.has ["temp_wh", "dat"]

/-! ### the identifier column as a predicate on a real file -/

/-- Bool version of `List.Nodup` for strings -/
def nodupB : List String → Bool
  | [] => true
  | x :: xs => !xs.contains x && nodupB xs

/-- "one unique identifier per cluster" on the lines of `clusters.uuids.csv` -/
def uuidOKb (n : Nat) (lines : List String) : Bool :=
  match lines with
  | [] => false
  | h :: ids => h == "uuids" && ids.length == n && nodupB ids

end PhyVerif.C13
