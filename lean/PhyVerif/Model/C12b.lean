import PhyVerif.Model.C11
import PhyVerif.Model.C12
/-!
`write_template_data` for `template_feature_ind.npy` with the merger's own template offsets
(`C11.templateOffsets`: per probe `max(max(spike_templates) + 1, rows of templates.npy)`).
-/
namespace PhyVerif.C12
open PhyVerif

/-- merged `template_feature_ind.npy`: template-index tables shifted by the template offsets -/
def mergeTfInd (ids : List (List Nat)) (counts : List Nat) (tables : List (List (List Nat))) : List (List Nat) :=
  shiftTables tables (C11.templateOffsets ids counts)

end PhyVerif.C12
