import PhyVerif.Model.C09
/-!
Model of template records (property C05), phylib/io/model.py: `_find_best_channels`,
`get_closest_channels`, `_get_template_dense`, `_get_template_sparse`, `_unwhiten`, `get_template`.
Exact arithmetic (`Rat`).  `np.argsort` (unstable on ties) is modelled by the stable sort; the
specification (Spec/C05.lean) is a relation that accepts any tie order.
-/
namespace PhyVerif.C05
open PhyVerif PhyVerif.C09

/-- what `get_template` returns -/
structure Record where
  template : Mat            -- (ns, len channels)
  channels : List Nat
  amplitude : List Rat
  best : Nat
deriving Repr, DecidableEq

structure Geometry where
  positions : List (Rat × Rat)
  shanks : Option (List Nat)
  nClosest : Nat
deriving Repr

/-- squared distance to channel `b` -/
def dist2 (pos : List (Rat × Rat)) (b c : Nat) : Rat :=
  let p := pos.getD c (0, 0); let q := pos.getD b (0, 0)
  (p.1 - q.1) * (p.1 - q.1) + (p.2 - q.2) * (p.2 - q.2)

/-- ascending stable argsort of rational keys -/
def argsortRat (keys : List Rat) : List Nat :=
  (Np.isort (fun (a b : Rat × Nat) => decide (a.1 ≤ b.1)) keys.zipIdx).map (·.2)

/-- `get_closest_channels(positions, b, n)`: `argsort(d)[:n]` (all when `n = 0`) -/
def closestChannels (g : Geometry) (b : Nat) : List Nat :=
  let order := argsortRat ((List.range g.positions.length).map (dist2 g.positions b))
  if g.nClosest = 0 then order else order.take g.nClosest

/-- sorted intersection (`np.intersect1d`) of two duplicate-free index lists, as a filter of `range` -/
def inter (n : Nat) (a b : List Nat) : List Nat :=
  (List.range n).filter fun c => a.contains c && b.contains c

/-- `np.argsort(v)[::-1]` (descending; ties in reversed stable order) -/
def argsortDesc (v : List Rat) : List Nat := (argsortRat v).reverse

/-- `_find_best_channels(template, amplitude_threshold)` → (channel_ids, amplitude, best_channel) -/
def findBestChannels (g : Geometry) (T : Mat) (thr : Rat) : List Nat × List Rat × Nat :=
  let nc := ncols T
  let amp := chAmps T
  let best := argmaxFirst amp
  let mx := amp.getD best 0
  let peak := (List.range nc).filter fun c => decide (amp.getD c 0 ≥ thr * mx)
  let close := closestChannels g best
  let close := match g.shanks with
    | some sh => inter nc close ((List.range nc).filter fun c => sh.getD c 0 == sh.getD best 0)
    | none => close
  let ids := inter nc peak close
  let order := argsortDesc (ids.map fun c => amp.getD c 0)
  let ids := order.map fun k => ids.getD k 0
  (ids, ids.map fun c => amp.getD c 0, best)

/-- the block `wmi[np.ix_(ch, ch)]` -/
def subMat (wmi : Mat) (l : List Nat) : Mat := l.map fun i => l.map fun j => (wmi.getD i []).getD j 0

/-- `_unwhiten(x, channel_ids)`, model.py:753-760: `np.dot(x, mat) * template_scaling` with `mat = wmi`
(`ch = none`) or `mat = wmi[ix_(ch, ch)]`; `sc` = the `template_scaling` entry of params.py (1.0 when absent) -/
def unwhiten (wmi : Mat) (sc : Rat) (x : Mat) (ch : Option (List Nat)) : Mat :=
  let mat := match ch with
    | none => wmi
    | some l => subMat wmi l
  (matMul x mat).map fun row => row.map (· * sc)

/-- `_get_template_dense(t, channel_ids, amplitude_threshold, unwhiten)` -/
def getTemplateDense (g : Geometry) (wmi : Mat) (sc : Rat) (Tw : Mat) (explicit : Option (List Nat))
    (thr : Rat) (unwh : Bool) : Record :=
  let T := if unwh then unwhiten wmi sc Tw none else Tw
  let (ids, amp, best) := findBestChannels g T thr
  match explicit with
  | none => ⟨T.map fun row => ids.map fun c => row.getD c 0, ids, amp, best⟩
  | some l =>
    let sub : Mat := T.map fun row => l.map fun c => row.getD c 0
    ⟨sub, l, chAmps' sub l.length, best⟩
where
  /-- per-column peak-to-peak of a block with a known number of columns -/
  chAmps' (M : Mat) (k : Nat) : List Rat := (List.range k).map fun j => ptp (col M j)

/-- the value a column table of the given integer dtype holds for "−1" (`np.array(-1).astype(dtype)`): −1 in a
signed table, the all-ones value `2^bits − 1` in an unsigned one (what `astype(np.uint32)` makes of −1, e.g. in
phylib/io/merge.py:285) -/
def minusOne (unsigned : Bool) (bits : Nat) : Int := if unsigned then 2 ^ bits - 1 else -1

/-- largest absolute value of stored column `j` (`np.abs(template_w).max(axis=0)[j]`) -/
def colAbsMax (Tw : Mat) (j : Nat) : Rat := listMax ((col Tw j).map fun x => if x < 0 then -x else x)

/-- stored columns that are in use: `cols[j] != -1` (`m` = the table's −1, `minusOne`) -/
def usedCols (cols : List Int) (m : Int) : List Nat :=
  (List.range cols.length).filter fun j => cols.getD j 0 != m

/-- the kept stored columns of `_get_template_sparse`, model.py:912-931: first the unused columns are removed, then,
among the used ones, those whose largest absolute value does not exceed `1e-6` of the largest over the USED
columns ("no signal").  (Order of the two removals as repaired, PF-C05g: before, the signal test ran over ALL stored
columns, so a value under an unused column could make a used channel "signal-free"; and `!= -1` did not recognise the
all-ones entry of an unsigned table, PF-C05h.) -/
def keptCols (Tw : Mat) (cols : List Int) (m : Int) : List Nat :=
  let used := usedCols cols m
  let thr := listMax (used.map (colAbsMax Tw)) * (1 / 1000000)
  used.filter fun j => decide (colAbsMax Tw j > thr)

/-- `_get_template_sparse` has no record: no stored column is kept.  The real code raises ValueError —
`template_max.max()` of an empty array (model.py:944) when no column is in use, `np.argmax(amplitude)` of an empty
array (model.py:956) when every column in use is all-zero. -/
def sparseRaises (Tw : Mat) (cols : List Int) (m : Int) : Bool := (keptCols Tw cols m).isEmpty

/-- `_get_template_sparse(t, unwhiten)`: `cols` = stored channel ids of the template (`m` = unused) -/
def getTemplateSparse (wmi : Mat) (sc : Rat) (Tw : Mat) (cols : List Int) (m : Int) (unwh : Bool) : Record :=
  let keep := keptCols Tw cols m
  let ch := keep.map fun j => (cols.getD j 0).toNat
  let sub : Mat := Tw.map fun row => keep.map fun j => row.getD j 0
  let T := if unwh then unwhiten wmi sc sub (some ch) else sub
  let amp := (List.range keep.length).map fun j => ptp (col T j)
  let best := ch.getD (argmaxFirst amp) 0
  let order := argsortDesc amp
  ⟨T.map fun row => order.map fun j => row.getD j 0, order.map fun j => ch.getD j 0,
   order.map fun j => amp.getD j 0, best⟩

end PhyVerif.C05
