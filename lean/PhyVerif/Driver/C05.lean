import PhyVerif.Driver.Rat
import PhyVerif.Driver.C06
import PhyVerif.Model.C05
import PhyVerif.Model.C05b
import PhyVerif.Spec.C05
namespace PhyVerif.Driver
open Lean PhyVerif PhyVerif.C05 PhyVerif.C09

def asPos (j : Json) : R (Rat × Rat) := do
  let l ← asRats j
  match l with
  | [a, b] => pure (a, b)
  | _ => .error "position: [x, y]"

def jRecord (r : Record) : Json :=
  Json.mkObj [("template", jRatMat r.template), ("channels", jNats r.channels),
              ("amplitude", jRats r.amplitude), ("best", jNat r.best)]

def asRecord (j : Json) : R Record := do
  pure ⟨← getRatMat j "template", ← getNats j "channels", ← getRats j "amplitude", ← getNat j "best"⟩

/-- `{"unsigned": bool, "bits": n}` (the dtype of the column table) → the table's "−1" -/
def asMinusOne (j : Json) : R Int := do
  pure (minusOne (← getBool j "unsigned") (← getNat j "bits"))

def runC05 (op : String) (j : Json) : R Json := do
  let wmi ← getRatMat j "wmi"; let Tw ← getRatMat j "Tw"
  let sc := (← optField j "scaling" asRat).getD 1      -- `template_scaling` of params.py
  let unwh ← getBool j "unwhiten"
  let impl ← optField j "impl" asRecord
  match op with
  | "dense" =>
    let pos ← fld j "positions" >>= asList asPos
    let shanks ← optField j "shanks" (asList asNat)
    let g : Geometry := ⟨pos, shanks, ← getNat j "n_closest"⟩
    let thr ← fld j "thr" >>= asRat
    let explicit ← optField j "explicit" (asList asNat)
    -- `float_store` = significand bits of templates.npy (24 / 53): the floating-point path (Model/C05b.lean) — an
    -- unwhitened request is built from the single precision rounding of the double precision product
    let fstore ← optField j "float_store" asNat
    let T := match fstore with
      | some _ => if unwh then denseF32Input wmi sc Tw else Tw
      | none => if unwh then unwhiten wmi sc Tw none else Tw
    let r := match fstore with
      | some _ => if unwh then getTemplateDenseF32 g wmi sc Tw explicit thr else getTemplateDense g wmi sc Tw explicit thr false
      | none => getTemplateDense g wmi sc Tw explicit thr unwh
    let ok (x : Record) : Bool := match explicit with
      | none => denseOK g T thr x
      | some l => denseExplicitOK T l x
    pure (Json.mkObj [("model", jRecord r), ("model_spec", Json.bool (ok r)),
                      ("determined", Json.bool (nearDetermined g r.best)),
                      ("ptp_exact", match fstore with
                        | some b => Json.bool (ptpExactF (if unwh then 24 else b) T) | none => Json.null),
                      ("one_term", match fstore with
                        | some _ => Json.bool (oneTermCols wmi) | none => Json.null),
                      ("impl_spec", match impl with | some x => Json.bool (ok x) | none => Json.null),
                      -- which part fails, for the message only
                      ("impl_base", match impl, explicit with
                        | some x, none => Json.bool (denseBaseOK g T thr x)
                        | _, _ => Json.null),
                      ("impl_count", match impl, explicit with
                        | some x, none => Json.bool (nearCountOK g x.best (eligible g T thr x.best) x.channels)
                        | _, _ => Json.null)])
  | "sparse" =>
    let cols ← getInts j "cols"
    let m := (← optField j "cols_dtype" asMinusOne).getD (-1)
    let r := getTemplateSparse wmi sc Tw cols m unwh
    let keep := keptCols Tw cols m
    let ch := keep.map fun jj => (cols.getD jj 0).toNat
    let sub : Mat := Tw.map fun row => keep.map fun jj => row.getD jj 0
    let Tk := if unwh then unwhiten wmi sc sub (some ch) else sub
    pure (Json.mkObj [("model", jRecord r), ("model_spec", Json.bool (sparseOK ch Tk r)),
                      ("kept", jNats ch),
                      ("raises", Json.bool (sparseRaises Tw cols m)),
                      ("impl_spec", match impl with | some x => Json.bool (sparseOK ch Tk x) | none => Json.null)])
  | _ => .error s!"C05: unknown op {op}"

end PhyVerif.Driver
