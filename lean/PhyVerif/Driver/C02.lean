import PhyVerif.Driver.Json
import PhyVerif.Driver.C01
import PhyVerif.Model.C02
import PhyVerif.Model.C02b
namespace PhyVerif.Driver
open Lean PhyVerif PhyVerif.C01 PhyVerif.C02

abbrev TCell := Nat × List Nat

def tagOp (t : Nat) : Op TCell := .elem fun c => (c.1, c.2 ++ [t])

/-- A first-order name of a deferred operation of THIS driver (the `Op` type holds functions, which cannot be
compared): an element-wise operation is named by what it appends to an empty trace — `tagOp t ↦ [t]`, so distinct
tokens have distinct names —, a channel selection by its selector. Two operation lists of the driver are equal iff
their names are equal item by item. -/
abbrev OpName := Bool × List Nat × Nat × List Int × Option Int × Option Int × Int

def opName : Op TCell → OpName
  | .elem f => (true, (f (0, [])).2, 0, [], none, none, 0)
  | .cols .all => (false, [], 0, [], none, none, 0)
  | .cols (.idx l) => (false, [], 1, l, none, none, 0)
  | .cols (.slice a b st) => (false, [], 2, [], a, b, st)

/-- the operation lists of all readers, reader by reader, operation by operation -/
def heapNames (h : Heap TCell) : List (List OpName) := h.map fun ops => ops.map opName

def mkTParts (lens : List Nat) (nch : Nat) : List (List (List TCell)) :=
  (mkParts lens nch).map fun p => p.map fun row => row.map fun i => (i, [])

def jEval (res : Option (List (List TCell))) : Json :=
  match res with
  | none => Json.null
  | some m =>
    let traces := (m.flatten.map (·.2)).eraseDups
    Json.mkObj [("ids", jMat (m.map fun row => row.map (·.1))),
                ("toks", match traces with | [t] => jNats t | [] => jNats [] | _ => Json.str "non-uniform")]

def runC02 (op : String) (j : Json) : R Json := do
  match op with
  | "program" =>
    let lens ← getNats j "parts"; let nch ← getNat j "nch"
    let parts := mkTParts lens nch
    let steps ← fld j "steps" >>= asArr
    -- derivations run statement by statement on the object store (Model/C02b); evaluation reads the heap of
    -- per-reader operation lists `Store.abs` (theorem appendOp_refines_derive: this is `derive` on the abstract heap)
    let mut st : Store TCell := ⟨[[]], [0]⟩
    let mut h : Heap TCell := [[]]
    let mut agree := true
    let mut outs : List Json := []
    for s in steps do
      let k ← getStr s "k"
      match k with
      | "derive" =>
        let r ← getNat s "from"; let t ← getNat s "tok"
        h := (derive h r (tagOp t)).1
        st := run st (appendOpProgram st r (tagOp t))
        agree := agree && (heapNames st.abs == heapNames h)
      | "cols" =>
        let r ← getNat s "from"; let c ← fld s "cols" >>= asColSel
        h := (derive h r (.cols c)).1
        st := run st (appendOpProgram st r (.cols c))
        agree := agree && (heapNames st.abs == heapNames h)
      | "eval" =>
        let r ← getNat s "reader"; let it ← fld s "item" >>= asItem
        let res := match s.getObjVal? "cols" with
          | .ok v => if v.isNull then pure (eval st.abs parts r it) else do
              let c ← asColSel v
              pure (evalCols st.abs parts r it c)
          | .error _ => pure (eval st.abs parts r it)
        outs := outs ++ [jEval (← res)]
      | _ => throw s!"C02 step {k}"
    -- `store_refines_heap`: after EVERY derivation the operation lists of all readers of the object store equal those
    -- of the abstract heap, operation by operation (names of `opName`), not only in number and length
    pure (Json.mkObj [("evals", Json.arr outs.toArray), ("n_readers", jNat st.readers.length),
                      ("store_refines_heap", Json.bool agree),
                      ("ops", Json.arr ((heapNames st.abs).map fun ops => Json.arr (ops.map fun n =>
                          if n.1 then Json.mkObj [("tok", jNats n.2.1)]
                          else Json.mkObj [("cols", jNat n.2.2.1)]).toArray).toArray)])
  | _ => .error s!"C02: unknown op {op}"

end PhyVerif.Driver
