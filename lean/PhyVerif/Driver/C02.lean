import PhyVerif.Driver.Json
import PhyVerif.Driver.C01
import PhyVerif.Model.C02
import PhyVerif.Model.C02b
namespace PhyVerif.Driver
open Lean PhyVerif PhyVerif.C01 PhyVerif.C02

abbrev TCell := Nat × List Nat

def tagOp (t : Nat) : Op TCell := .elem fun c => (c.1, c.2 ++ [t])

def mkTParts (lens : List Nat) (nch : Nat) : List (List (List TCell)) :=
  (mkParts lens nch).map fun p => p.map fun row => row.map fun i => (i, [])

def jEval (res : Option (List (List TCell))) : Json :=
  match res with
  | none => Json.null
  | some m =>
    let traces := (m.flatten.map (·.2)).eraseDups
    Json.mkObj [("ids", jMat (m.map fun row => row.map (·.1))),
                ("toks", match traces with | [t] => jNats t | [] => jNats [] | _ => Json.str "non-uniform")]

def runC02 (op : String) (j : Json) : R Json := do
  match op with
  | "program" =>
    let lens ← getNats j "parts"; let nch ← getNat j "nch"
    let parts := mkTParts lens nch
    let steps ← fld j "steps" >>= asArr
    -- derivations run statement by statement on the object store (Model/C02b); evaluation reads the heap of
    -- per-reader operation lists `Store.abs` (theorem appendOp_refines_derive: this is `derive` on the abstract heap)
    let mut st : Store TCell := ⟨[[]], [0]⟩
    let mut h : Heap TCell := [[]]
    let mut agree := true
    let mut outs : List Json := []
    for s in steps do
      let k ← getStr s "k"
      match k with
      | "derive" =>
        let r ← getNat s "from"; let t ← getNat s "tok"
        h := (derive h r (tagOp t)).1
        st := run st (appendOpProgram st r (tagOp t))
        agree := agree && (st.abs.map List.length == h.map List.length)
      | "cols" =>
        let r ← getNat s "from"; let c ← fld s "cols" >>= asColSel
        h := (derive h r (.cols c)).1
        st := run st (appendOpProgram st r (.cols c))
        agree := agree && (st.abs.map List.length == h.map List.length)
      | "eval" =>
        let r ← getNat s "reader"; let it ← fld s "item" >>= asItem
        let res := match s.getObjVal? "cols" with
          | .ok v => if v.isNull then pure (eval st.abs parts r it) else do
              let c ← asColSel v
              pure (evalCols st.abs parts r it c)
          | .error _ => pure (eval st.abs parts r it)
        outs := outs ++ [jEval (← res)]
      | _ => throw s!"C02 step {k}"
    pure (Json.mkObj [("evals", Json.arr outs.toArray), ("n_readers", jNat st.readers.length),
                      ("store_refines_heap", Json.bool agree)])
  | _ => .error s!"C02: unknown op {op}"

end PhyVerif.Driver
