import PhyVerif.Driver.Json
import PhyVerif.Driver.C01
import PhyVerif.Model.C02
import PhyVerif.Model.C02b
import PhyVerif.Model.C02c
namespace PhyVerif.Driver
open Lean PhyVerif PhyVerif.C01 PhyVerif.C02

abbrev TCell := Nat × List Nat

def tagOp (t : Nat) : Op TCell := .elem fun c => (c.1, c.2 ++ [t])

/-- A first-order name of a deferred operation of THIS driver (the `Op` type holds functions, which cannot be
compared): an element-wise operation is named by what it appends to an empty trace — `tagOp t ↦ [t]`, so distinct
tokens have distinct names —, a channel selection by its selector. Two operation lists of the driver are equal iff
their names are equal item by item. -/
abbrev OpName := Bool × List Nat × Nat × List Int × Option Int × Option Int × Int

def opName : Op TCell → OpName
  | .elem f => (true, (f (0, [])).2, 0, [], none, none, 0)
  | .cols .all => (false, [], 0, [], none, none, 0)
  | .cols (.idx l) => (false, [], 1, l, none, none, 0)
  | .cols (.slice a b st) => (false, [], 2, [], a, b, st)

/-- the operation lists of all readers, reader by reader, operation by operation -/
def heapNames (h : Heap TCell) : List (List OpName) := h.map fun ops => ops.map opName

def mkTParts (lens : List Nat) (nch : Nat) : List (List (List TCell)) :=
  (mkParts lens nch).map fun p => p.map fun row => row.map fun i => (i, [])

def jEval (res : Option (List (List TCell))) : Json :=
  match res with
  | none => Json.null
  | some m =>
    let traces := (m.flatten.map (·.2)).eraseDups
    Json.mkObj [("ids", jMat (m.map fun row => row.map (·.1))),
                ("toks", match traces with | [t] => jNats t | [] => jNats [] | _ => Json.str "non-uniform")]

/-- what the caller's in-place post-processing does to a cell in this driver: the cell id moves out of the recording
(`+ scribbleMark`), so a scribbled cell that is read back can never be mistaken for a cell of the recording -/
def scribbleMark : Nat := 1000000000

def scribbleFn (blk : List (List TCell)) : List (List TCell) :=
  blk.map fun row => row.map fun c => (c.1 + scribbleMark, c.2)

def runC02 (op : String) (j : Json) : R Json := do
  match op with
  | "program" =>
    let lens ← getNats j "parts"; let nch ← getNat j "nch"
    let parts := mkTParts lens nch
    let steps ← fld j "steps" >>= asArr
    -- derivations run statement by statement on the object store (Model/C02b); evaluation reads the heap of
    -- per-reader operation lists `Store.abs` (theorem appendOp_refines_derive: this is `derive` on the abstract heap)
    -- array objects by address (Model/C02c): the parts are the first `np` objects, every evaluation allocates its block
    -- (`getitem`), a `scribble` evaluation is followed by the caller overwriting that block in place; all evaluations
    -- read the storage `mem.parts np` as it is THEN
    let np := parts.length
    let mut mem : Mem TCell := ⟨parts⟩
    let mut st : Store TCell := ⟨[[]], [0]⟩
    let mut h : Heap TCell := [[]]
    let mut agree := true
    let mut blockIsEval := true
    let mut outs : List Json := []
    for s in steps do
      let k ← getStr s "k"
      match k with
      | "derive" =>
        let r ← getNat s "from"; let t ← getNat s "tok"
        h := (derive h r (tagOp t)).1
        st := run st (appendOpProgram st r (tagOp t))
        agree := agree && (heapNames st.abs == heapNames h)
      | "cols" =>
        let r ← getNat s "from"; let c ← fld s "cols" >>= asColSel
        h := (derive h r (.cols c)).1
        st := run st (appendOpProgram st r (.cols c))
        agree := agree && (heapNames st.abs == heapNames h)
      | "eval" =>
        let r ← getNat s "reader"; let it ← fld s "item" >>= asItem
        let scr := match s.getObjVal? "scribble" with | .ok (Json.bool b) => b | _ => false
        let csel ← match s.getObjVal? "cols" with
          | .ok v => if v.isNull then pure none else (asColSel v).map some
          | .error _ => pure none
        -- `reader[item, cols]` evaluates a clone carrying one more `cols` operation (`evalCols`)
        let hp := match csel with
          | none => (st.abs, r)
          | some c => let d := derive st.abs r (.cols c); (d.1, d.2)
        -- theorem getitem_block: the block handed out holds what `eval` / `evalCols` say on the storage as it is now
        let ev := match csel with
          | none => eval st.abs (mem.parts np) r it
          | some c => evalCols st.abs (mem.parts np) r it c
        let got := getitem mem np (hp.1.getD hp.2 []) it
        blockIsEval := blockIsEval && ((jEval ev).compress == (jEval (got.map fun p => p.1.block p.2)).compress)
        match got with
        | none => outs := outs ++ [Json.null]
        | some (m', a) =>
          outs := outs ++ [jEval (some (m'.block a))]
          -- a block the caller only looks at is garbage afterwards (the memory stays as it was); a block the caller
          -- writes into stays: later evaluations read `mem.parts np` of the memory AFTER the write
          if scr then
            mem := scribble m' a scribbleFn
      | _ => throw s!"C02 step {k}"
    -- `store_refines_heap`: after EVERY derivation the operation lists of all readers of the object store equal those
    -- of the abstract heap, operation by operation (names of `opName`), not only in number and length
    pure (Json.mkObj [("evals", Json.arr outs.toArray), ("n_readers", jNat st.readers.length),
                      ("store_refines_heap", Json.bool agree), ("block_is_eval", Json.bool blockIsEval),
                      ("ops", Json.arr ((heapNames st.abs).map fun ops => Json.arr (ops.map fun n =>
                          if n.1 then Json.mkObj [("tok", jNats n.2.1)]
                          else Json.mkObj [("cols", jNat n.2.2.1)]).toArray).toArray)])
  | _ => .error s!"C02: unknown op {op}"

end PhyVerif.Driver
