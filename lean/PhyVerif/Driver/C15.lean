import PhyVerif.Driver.Json
import PhyVerif.Model.C15
import PhyVerif.Spec.C15
namespace PhyVerif.Driver
open Lean PhyVerif PhyVerif.C15

def j3 (c : List (List (List Nat))) : Json := jList (jList jNats) c

def runC15 (op : String) (j : Json) : R Json := do
  match op with
  | "ccg" =>
    let t ← getInts j "t"; let sc ← getInts j "sc"
    let ids ← if hasFld j "ids" then getNats j "ids" else pure (Np.unique sc)
    let bin ← getInt j "bin"; let half ← getNat j "half"
    let sym ← getBool j "sym"
    let withSpec := hasFld j "spec"
    match correlograms t sc ids bin half with
    | none => pure (Json.mkObj [("model", Json.null)])
    | some c =>
      let out := if sym then symmetrize c else c
      let specEq := if withSpec then Json.bool (c == specCcg t sc ids bin half) else Json.null
      pure (Json.mkObj [("model", j3 out), ("model_eq_spec", specEq)])
  | "firing" =>
    let sc ← getInts j "sc"
    let ids ← if hasFld j "ids" then getNats j "ids" else pure (Np.unique sc)
    match firingCounts sc ids with
    | none => pure (Json.mkObj [("model", Json.null)])
    | some m => pure (Json.mkObj [("model", jList jNats m)])
  | _ => .error s!"C15: unknown op {op}"

end PhyVerif.Driver
