import PhyVerif.Driver.Json
import PhyVerif.Driver.Rat
import PhyVerif.Model.C15
import PhyVerif.Model.C15b
import PhyVerif.Model.C15c
import PhyVerif.Model.Fl
import PhyVerif.Spec.C15
import PhyVerif.Spec.C15b
namespace PhyVerif.Driver
open Lean PhyVerif PhyVerif.C15

def j3 (c : List (List (List Nat))) : Json := jList (jList jNats) c

def runC15 (op : String) (j : Json) : R Json := do
  match op with
  | "ccg" =>
    let t ← getInts j "t"; let sc ← getInts j "sc"
    let ids ← if hasFld j "ids" then getNats j "ids" else pure (Np.unique sc)
    let bin ← getInt j "bin"; let half ← getNat j "half"
    let sym ← getBool j "sym"
    let withSpec := hasFld j "spec"
    match correlograms t sc ids bin half with
    | none => pure (Json.mkObj [("model", Json.null)])
    | some c =>
      let out := if sym then symmetrize c else c
      let specEq := if withSpec then Json.bool (c == specCcg t sc ids bin half) else Json.null
      pure (Json.mkObj [("model", j3 out), ("model_eq_spec", specEq)])
  | "firing" =>
    let sc ← getInts j "sc"
    let ids ← if hasFld j "ids" then getNats j "ids" else pure (Np.unique sc)
    match firingCounts sc ids with
    | none => pure (Json.mkObj [("model", Json.null)])
    | some m => pure (Json.mkObj [("model", jList jNats m)])
  | "ccg_q" =>
    -- the whole call over exact rationals: float -> sample conversions, loop on the count array, symmetrisation
    let times ← getRats j "times"; let sc ← getInts j "sc"
    let ids ← if hasFld j "ids" then some <$> getNats j "ids" else pure none
    let rate ← fld j "rate" >>= asRat; let bin ← fld j "bin_size" >>= asRat; let window ← fld j "window" >>= asRat
    let sym ← getBool j "sym"
    let samples := samplesOf rate times
    let bs := binsizeOf rate bin; let ws := winsizeBins window bin
    let idl := idsOr sc ids
    let specEq := if hasFld j "spec" then
        Json.bool (correlogramsArr samples sc idl bs ws == some (specCcg samples sc idl bs (halfOf window bin)) &&
                   correlograms samples sc idl bs (halfOf window bin) == correlogramsArr samples sc idl bs ws)
      else Json.null
    pure (Json.mkObj [("model", jOpt j3 (correlogramsQ times sc ids rate bin window sym)),
                      ("samples", jInts samples), ("binsize", jInt bs), ("winsize", jInt ws),
                      ("ids", jNats idl), ("model_eq_spec", specEq)])
  | "ccg_fl" =>
    -- the whole call on DOUBLES (exact rational values of the floats handed to the real code): every float
    -- operation of `correlograms` = exact operation + `Fl.roundDouble`; loop on the count array; symmetrisation
    let times ← getRats j "times"; let sc ← getInts j "sc"
    let ids ← if hasFld j "ids" then some <$> getNats j "ids" else pure none
    let rate ← fld j "rate" >>= asRat; let bin ← fld j "bin_size" >>= asRat; let window ← fld j "window" >>= asRat
    let sym ← getBool j "sym"
    -- the float products once; `correlogramsFl_as_run` (Props/C15.lean): this is `samplesOfFl` / `correlogramsFl`
    let prods := prodsFl rate times
    let samples := prods.map truncInt
    let bs := binsizeOfFl rate bin; let ws := winsizeBinsFl window bin
    let half := (ws / 2).toNat
    let idl := idsOr sc ids
    let specEq := if hasFld j "spec" then
        Json.bool (correlogramsArr samples sc idl bs ws == some (specCcg samples sc idl bs half) &&
                   correlograms samples sc idl bs half == correlogramsArr samples sc idl bs ws)
      else Json.null
    -- do the exact-rational conversions of Model/C15b give the same integers?  (tally only)
    let qSame := samplesOf rate times == samples && binsizeOf rate bin == bs && winsizeBins window bin == ws
    -- THE STATEMENT'S OWN COUNTS (`specSeconds`, evaluated as `stmtSeconds`: Props `stmtSeconds_eq`) with the CALLER's
    -- bin, when the float product rate*bin is not a whole number of samples (the code then shortens the bin):
    --   stmt_sec  : times and bin in seconds, the exact values of the doubles;
    --   stmt_grid : the same statement in sample units (Props `specSeconds_units`): the float products time*rate
    --               (whole numbers on the grid) and the float product rate*bin.
    -- The two coincide when the products are exact; on decimal inputs they can differ at a bin boundary by rounding
    -- noise, and the judge calls a disagreement with the statement only when BOTH differ from the real output.
    -- half window: the code's `winsize_bins // 2` (the statement does not define it from the window size).
    let onGrid := prods.all fun x => x.den == 1
    let prodsExact := (times.map fun t => t * rate) == prods
    let isClipped := clipped bin window
    let qf := binProdFl rate bin
    let binWhole := qf.den == 1
    -- (also, for the tally only, when the times lie BETWEEN samples although every product time*rate is exact)
    let wantStmt := hasFld j "stmt" && !isClipped && decide (1 ≤ bs) &&
      ((onGrid && !binWhole) || (!onGrid && prodsExact))
    let symOf := fun (c : List (List (List Nat))) => if sym then symmetrize c else c
    let stmtSec := stmtSeconds times sc idl bin half
    let stmtGrid := stmtSeconds prods sc idl qf half
    let stmtFlds : List (String × Json) :=
      if wantStmt then
        [("stmt_sec", j3 (symOf stmtSec)), ("stmt_grid", j3 (symOf stmtGrid)),
         ("stmt_eq_spec", if hasFld j "spec" then
            Json.bool (stmtSec == specSeconds times sc idl bin half)
          else Json.null)]
      else []
    pure (Json.mkObj ([("model", jOpt j3 (correlogramsOfInts samples bs ws times sc ids rate sym)),
                      ("samples", jInts samples), ("binsize", jInt bs), ("winsize", jInt ws),
                      ("ids", jNats idl), ("model_eq_spec", specEq),
                      ("fl_dom", Json.bool (decide (FlDom times rate bin window))),
                      ("on_grid", Json.bool onGrid),
                      ("clipped", Json.bool isClipped),
                      ("q_same", Json.bool qSame),
                      ("bin_prod", jRat qf), ("bin_whole", Json.bool binWhole),
                      ("prods_exact", Json.bool prodsExact)] ++ stmtFlds))
  | "fl" =>
    -- `Fl.roundDouble` on a list of exact rationals; `inrange` = the binary64 result is this one (`Fl.InRange`)
    let xs ← getRats j "xs"
    pure (Json.mkObj [("model", jRats (xs.map Fl.roundDouble)),
                      ("inrange", Json.arr (xs.map fun x => Json.bool (decide (Fl.InRange x))).toArray)])
  | "firing_q" =>
    let sc ← getInts j "sc"
    let ids ← if hasFld j "ids" then some <$> getNats j "ids" else pure none
    let bin ← fld j "bin_size" >>= asRat
    let dur ← if hasFld j "duration" then some <$> (fld j "duration" >>= asRat) else pure none
    pure (Json.mkObj [("model", jOpt jRatMat (firingRate sc ids bin dur))])
  | "increment" =>
    let arr ← getNats j "arr"; let idx ← getNats j "idx"
    pure (Json.mkObj [("model", jOpt jNats (increment arr idx))])
  | "diff_shifted" =>
    let arr ← getInts j "arr"; let s ← getNat j "steps"
    pure (Json.mkObj [("model", jOpt jInts (diffShifted arr s))])
  | "create" =>
    let nc ← getNat j "nc"; let ws ← getInt j "winsize"
    pure (Json.mkObj [("model", j3 (createArray nc ws))])
  | _ => .error s!"C15: unknown op {op}"

end PhyVerif.Driver
