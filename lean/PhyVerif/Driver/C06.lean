import PhyVerif.Driver.Rat
import PhyVerif.Model.C06
import PhyVerif.Spec.C06
import PhyVerif.Model.C06b
import PhyVerif.Spec.C06b
namespace PhyVerif.Driver
open Lean PhyVerif PhyVerif.C06

/-- data block with `nr` rows, `nloc` local columns, cell (r, k) = r * nloc + k + 1 -/
def mkData (nr nloc : Nat) : List (List Int) :=
  (List.range nr).map fun r => (List.range nloc).map fun k => Int.ofNat (r * nloc + k + 1)

def optField {α} (j : Json) (k : String) (f : Json → R α) : R (Option α) :=
  match j.getObjVal? k with
  | .ok v => asOpt f v
  | .error _ => pure none

def runC06 (op : String) (j : Json) : R Json := do
  match op with
  | "from_sparse" =>
    let nr ← getNat j "nr"; let nloc ← getNat j "nloc"
    let cols ← getIntss j "cols"; let chans ← getNats j "chans"
    pure (Json.mkObj [("model", jOpt (jList jInts) (fromSparse (0 : Int) (mkData nr nloc) cols chans))])
  | "features" =>
    let nr ← getNat j "nr"; let nloc ← getNat j "nloc"
    let cols ← optField j "cols" (asList (asList asInt))
    let rows ← optField j "rows" (asList asNat)
    let st ← getNats j "spike_templates"; let ids ← getNats j "spike_ids"
    let sf : Sparse Int := ⟨mkData nr nloc, cols, rows⟩
    let res ← match j.getObjVal? "chans" with
      | .ok v => do
        let chans ← asList asNat v
        pure (getFeatures (0 : Int) (-1) sf nloc st ids chans)
      | .error _ => do
        let nt ← getNat j "n_templates"
        pure (getTemplateFeatures (0 : Int) (-1) sf nloc st nt ids)
    pure (Json.mkObj [("model", jOpt (jList jInts) res)])
  | "pca" =>
    -- the PCA route of get_features: the store, the request, and the components the real code computed
    let ids ← getNats j "sw_ids"; let chs ← getIntss j "sw_channels"; let wv ← getRat3 j "sw_waveforms"
    let nsw ← getNat j "nsw"; let sids ← getNats j "spike_ids"; let chans ← getNats j "chans"
    let pcs ← getRat3 j "pcs"
    let sw : WStore := ⟨ids, chs, wv⟩
    let spec : List (List (List Rat)) := sids.map fun q =>
      (List.range chans.length).map fun jj => (List.range 3).map fun k =>
        if ids.contains q then projection sw nsw pcs q (chans.getD jj 0) jj k else 0
    pure (Json.mkObj [
      ("model", jOpt (jList jRatMat) (getFeaturesPca (fun _ => pcs) sw nsw sids chans)),
      ("spec", jList jRatMat spec),
      ("block", jList jRatMat (pcaBlock sw nsw sids chans))])
  | _ => .error s!"C06: unknown op {op}"

end PhyVerif.Driver
