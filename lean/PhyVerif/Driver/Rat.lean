import PhyVerif.Driver.Json
/-! exact rationals over the line protocol: an integer, or `[numerator, denominator]` -/
namespace PhyVerif.Driver
open Lean

def asRat (j : Json) : R Rat :=
  match j.getInt? with
  | .ok i => pure (i : Rat)
  | .error _ => do
    let l ← asList asInt j
    match l with
    | [n, d] => if d = 0 then .error "zero denominator" else pure ((n : Rat) / (d : Rat))
    | _ => .error s!"rational expected: {j.compress}"

def jRat (q : Rat) : Json :=
  if q.den = 1 then jInt q.num else Json.arr #[jInt q.num, jNat q.den]

def jRats (l : List Rat) : Json := jList jRat l
def jRatMat (m : List (List Rat)) : Json := jList jRats m
def asRats (j : Json) : R (List Rat) := asList asRat j
def asRatMat (j : Json) : R (List (List Rat)) := asList asRats j
def getRats (j : Json) (k : String) : R (List Rat) := fld j k >>= asRats
def getRatMat (j : Json) (k : String) : R (List (List Rat)) := fld j k >>= asRatMat
def getRat3 (j : Json) (k : String) : R (List (List (List Rat))) := fld j k >>= asList asRatMat

end PhyVerif.Driver
