import PhyVerif.Driver.Rat
import PhyVerif.Model.C07
import PhyVerif.Spec.C07
namespace PhyVerif.Driver
open Lean PhyVerif PhyVerif.C07

def jGroups (g : List (Nat × List Nat)) : Json :=
  jList (fun (p : Nat × List Nat) => Json.arr #[jNat p.1, jNats p.2]) g

def runC07 (op : String) (j : Json) : R Json := do
  match op with
  | "spc" =>
    let w ← getNat j "w"; let signed ← getBool j "signed"; let sc ← getNats j "sc"
    let ids ← if hasFld j "ids" then some <$> getNats j "ids" else pure none
    pure (Json.mkObj [("model", jGroups (spikesPerCluster w signed sc ids)),
                      ("spec", jGroups (specGroups sc ids))])
  | "sic" =>
    let sc ← getNats j "sc"; let cl ← getNats j "cl"
    pure (Json.mkObj [("model", jNats (spikesInClusters sc cl))])
  | "unique" =>
    let l ← getInts j "l"
    pure (Json.mkObj [("model", jNats (Np.unique l))])
  | "index_of" =>
    let arr ← getInts j "arr"; let lookup ← getNats j "lookup"
    -- `spec_only`: lookups with ids in the millions — the table model (a list with max(lookup)+2 cells) is not
    -- built; the answer is the Lean definition `positionsIn` (= the model by theorem `indexOf_spec`)
    let specOnly ← if hasFld j "spec_only" then getBool j "spec_only" else pure false
    let spec := ("spec", jInts (positionsIn arr lookup))
    if specOnly then pure (Json.mkObj [spec]) else
    pure (Json.mkObj [("model", jOpt jInts (Np.indexOf arr lookup)), spec])
  | "flatten" =>
    let d ← fld j "d" >>= asList (asList asNat)
    pure (Json.mkObj [("model", jNats (flattenPerCluster (d.map fun v => (0, v))))])
  | "gmean" =>
    let arr ← getInts j "arr"; let sc ← getNats j "sc"
    pure (Json.mkObj [("model", jOpt (jList fun (p : Int × Nat) => Json.arr #[jInt p.1, jNat p.2])
                                  (groupedMean arr sc)),
                      ("mean", jOpt jRats (groupedMeanQ arr sc))])
  | "tcounts" =>
    let sc ← getNats j "sc"; let st ← getNats j "st"; let nt ← getNat j "nt"
    let cs ← getNats j "cs"
    pure (Json.mkObj [("model", jList (fun c => Json.mkObj [
        ("counts", jNats (templateCounts sc st nt c)),
        ("cluster_spikes", jNats (spikesInClusters sc [c])),
        ("template_spikes", jNats (spikesInClusters st [c]))]) cs)])
  | _ => .error s!"C07: unknown op {op}"

end PhyVerif.Driver
