import PhyVerif.Driver.Json
import PhyVerif.Model.C20
namespace PhyVerif.Driver
open Lean PhyVerif.C20

def runC20 (op : String) (j : Json) : R Json := do
  match op with
  | "download" =>
    let prior ← asOptNat' j "prior"
    let ds ← getNats j "ds"
    -- the data script: either tokens (`ds`: 0 = HTTP error, else the body), or what the server really sends
    -- (`dstat`: the status of each answer, `ds`: the token of the body / error page it carries), read through the
    -- model of `_download` (`dataOfStatus`)
    let dsc ← if hasFld j "dstat" then do
        let dstat ← getNats j "dstat"
        let dbody ← getNats j "dbody"
        if dstat.length != dbody.length then .error "dstat / dbody: same length expected"
        pure (List.zipWith dataOfStatus dstat dbody)
      else pure (ds.map fun d => if d == 0 then DataResp.httpError else DataResp.body d)
    -- the checksum script: either tokens (`ss`), or what the server really sends (`answers`: null = non-200,
    -- else the code points of the text) parsed by the model of `text.split()[0]` (`render`: [token, hexdigest])
    let ssc ← if hasFld j "answers" then do
        let answers ← fld j "answers" >>= asList (asOpt (asList asNat))
        let render ← fld j "render" >>= asList (fun r => do
          let a ← asArr r
          match a with
          | [t, d] => do pure ((← asNat t), (← asList asNat d))
          | _ => .error "render: [token, code points] expected")
        let other ← getNat j "other"
        -- `sstat` (optional): the status of each answer of the checksum URL, read through `sumOfStatus`
        let sstat ← if hasFld j "sstat" then getNats j "sstat" else pure (answers.map fun _ => 200)
        if sstat.length != answers.length then .error "sstat / answers: same length expected"
        pure (List.zipWith (fun a st => parseSum render other (match a with
          | none => SumAnswer.error | some t => sumOfStatus st t)) answers sstat)
      else do
        let ss ← getNats j "ss"
        pure (ss.map fun s => if s == 0 then SumResp.missing else SumResp.avail s)
    let r := download id (start prior dsc ssc)
    let res := match r.2 with
      | .skipped => "skipped" | .done => "done" | .httpError => "http_error" | .mismatch => "mismatch"
    pure (Json.mkObj [("result", Json.str res), ("file", jOpt jNat r.1.file),
                      ("log", jList (fun (q : Req × Option SumResp) =>
                          Json.str (match q.1 with | .data => "data" | .sum => "sum")) r.1.log),
                      ("ds", jList (fun (q : DataResp) => match q with
                          | .body b => jNat b | .httpError => jNat 0) dsc),
                      ("ss", jList (fun (q : SumResp) => match q with
                          | .avail h => jNat h | .missing => jNat 0) ssc),
                      ("last_sum", match lastSum r.1.log with
                          | some (.avail h) => jNat h
                          | _ => Json.null)])
  | _ => .error s!"C20: unknown op {op}"
where
  asOptNat' (j : Json) (k : String) : R (Option Nat) :=
    match j.getObjVal? k with
    | .ok v => asOpt asNat v
    | .error _ => pure none

end PhyVerif.Driver
