import PhyVerif.Driver.Json
import PhyVerif.Model.C20
namespace PhyVerif.Driver
open Lean PhyVerif.C20

def runC20 (op : String) (j : Json) : R Json := do
  match op with
  | "download" =>
    let prior ← asOptNat' j "prior"
    let ds ← getNats j "ds"; let ss ← getNats j "ss"
    let dsc := ds.map fun d => if d == 0 then DataResp.httpError else DataResp.body d
    let ssc := ss.map fun s => if s == 0 then SumResp.missing else SumResp.avail s
    let r := download id (start prior dsc ssc)
    let res := match r.2 with
      | .skipped => "skipped" | .done => "done" | .httpError => "http_error" | .mismatch => "mismatch"
    pure (Json.mkObj [("result", Json.str res), ("file", jOpt jNat r.1.file),
                      ("log", jList (fun (q : Req × Option SumResp) =>
                          Json.str (match q.1 with | .data => "data" | .sum => "sum")) r.1.log),
                      ("last_sum", match lastSum r.1.log with
                          | some (.avail h) => jNat h
                          | _ => Json.null)])
  | _ => .error s!"C20: unknown op {op}"
where
  asOptNat' (j : Json) (k : String) : R (Option Nat) :=
    match j.getObjVal? k with
    | .ok v => asOpt asNat v
    | .error _ => pure none

end PhyVerif.Driver
