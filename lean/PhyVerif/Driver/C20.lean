import PhyVerif.Driver.Json
import PhyVerif.Model.C20
namespace PhyVerif.Driver
open Lean PhyVerif.C20

def runC20 (op : String) (j : Json) : R Json := do
  match op with
  | "download" =>
    let prior ← asOptNat' j "prior"
    let ds ← getNats j "ds"
    let dsc := ds.map fun d => if d == 0 then DataResp.httpError else DataResp.body d
    -- the checksum script: either tokens (`ss`), or what the server really sends (`answers`: null = non-200,
    -- else the code points of the text) parsed by the model of `text.split()[0]` (`render`: [token, hexdigest])
    let ssc ← if hasFld j "answers" then do
        let answers ← fld j "answers" >>= asList (asOpt (asList asNat))
        let render ← fld j "render" >>= asList (fun r => do
          let a ← asArr r
          match a with
          | [t, d] => do pure ((← asNat t), (← asList asNat d))
          | _ => .error "render: [token, code points] expected")
        let other ← getNat j "other"
        pure (answers.map fun a => parseSum render other (match a with
          | none => SumAnswer.error | some t => SumAnswer.text t))
      else do
        let ss ← getNats j "ss"
        pure (ss.map fun s => if s == 0 then SumResp.missing else SumResp.avail s)
    let r := download id (start prior dsc ssc)
    let res := match r.2 with
      | .skipped => "skipped" | .done => "done" | .httpError => "http_error" | .mismatch => "mismatch"
    pure (Json.mkObj [("result", Json.str res), ("file", jOpt jNat r.1.file),
                      ("log", jList (fun (q : Req × Option SumResp) =>
                          Json.str (match q.1 with | .data => "data" | .sum => "sum")) r.1.log),
                      ("ss", jList (fun (q : SumResp) => match q with
                          | .avail h => jNat h | .missing => jNat 0) ssc),
                      ("last_sum", match lastSum r.1.log with
                          | some (.avail h) => jNat h
                          | _ => Json.null)])
  | _ => .error s!"C20: unknown op {op}"
where
  asOptNat' (j : Json) (k : String) : R (Option Nat) :=
    match j.getObjVal? k with
    | .ok v => asOpt asNat v
    | .error _ => pure none

end PhyVerif.Driver
