import PhyVerif.Driver.Json
import PhyVerif.Model.C13
namespace PhyVerif.Driver
open Lean PhyVerif.C13

def runC13 (op : String) (j : Json) : R Json := do
  match op with
  | "convert" =>
    let s : Sizes := ⟨← getNat j "n_spikes", ← getNat j "n_clusters", ← getNat j "n_templates", ← getNat j "n_channels"⟩
    let label ← getStr j "label"
    let same ← getBool j "same_dir"
    match convert "src" (if same then "src" else "out") label s with
    | none => pure (Json.mkObj [("model", Json.null)])
    | some files =>
      pure (Json.mkObj [("model", jList (fun (f : PhyVerif.C13.Name × Nat) =>
        Json.arr #[Json.str (".".intercalate f.1), jNat f.2]) files)])
  | _ => .error s!"C13: unknown op {op}"

end PhyVerif.Driver
