import PhyVerif.Driver.Json
import PhyVerif.Driver.Rat
import PhyVerif.Model.C13
import PhyVerif.Model.C13c
import PhyVerif.Model.C13d
import PhyVerif.Model.C14
namespace PhyVerif.Driver
open Lean PhyVerif.C13

def nameOfStr (s : String) : PhyVerif.C13.Name := s.splitOn "."

/-- the driver's reading of rows: a time in seconds as the cell `floor(q * 2^40)` (order preserving), row `i` of
`channels.rawInd` as the one cell `C14.exportRawInd channelMap channelProbes [i]` (the hypothesis `hraw` of
`convert_output_loads`), any other token row as one cell (its index); no trailing dimensions (hypothesis `hI`) -/
def drvInterp (v : View) : Interp :=
  { encQ := fun q => (q * 1099511627776).floor,
    cells := fun w i => if w = "rawInd" then [.num ((PhyVerif.C14.exportRawInd v.channelMap v.channelProbes).getD i 0)]
                        else [.num i],
    trail := fun _ => [] }

/-- C04's loader model on the WHOLE output directory (`project`) -/
def jReload (v : View) (out : FDir) : Json :=
  match PhyVerif.C04.load (fun a => a) (project (drvInterp v) out) with
  | .error e => Json.mkObj [("err", Json.str (reprStr e))]
  | .ok (lv, _) =>
    let tm := match lv.times with | .stored t => t | .samplesOverRate t => t
    let sm := match lv.samples with | .file t => t | .roundedTimes t => t
    Json.mkObj [("err", Json.null), ("n_times", jNat tm.data.length),
      ("stored", Json.bool (match lv.times with | .stored _ => true | _ => false)),
      ("samples", jInts (arrSummary sm).2), ("sc", jInts (arrSummary lv.spikeClusters).2),
      ("st", jInts (arrSummary lv.spikeTemplates).2), ("n_channels", jNat lv.channelMap.data.length),
      ("channel_map", jInts (arrSummary lv.channelMap).2), ("channel_map_shape", jNats lv.channelMap.shape),
      ("has_templates", Json.bool lv.templates.isSome)]

/-- a directory listing entry `{name, tag, rows, vec2d?, vals?}`: `vals` (integers) gives the rows of a 1-D
integer file, otherwise the rows are tokens -/
def asEntry (j : Json) : R (PhyVerif.C13.Name × Entry) := do
  let name ← getStr j "name"
  let tag ← getStr j "tag"
  let vec2d ← if hasFld j "vec2d" then getBool j "vec2d" else pure false
  let rows ← if hasFld j "vals" then (do let v ← getInts j "vals"; pure (v.map Row.z))
             else if hasFld j "rows" then (do let n ← getNat j "rows"; pure (tokRows name n))
             else pure []
  pure (nameOfStr name, ⟨tag, rows, vec2d⟩)

def getDir (j : Json) (k : String) : R FDir :=
  if hasFld j k then fld j k >>= asList asEntry else pure []

def jRow : Row → Json
  | .q v => jRat v
  | .z v => jInt v
  | .s v => Json.str v
  | .tok w i => Json.arr #[Json.str w, jNat i]

/-- values of a file whose rows are all integers (ids, samples) -/
def intVals (e : Entry) : Option (List Int) :=
  if e.rows.isEmpty then none else e.rows.mapM fun r => match r with | .z v => some v | _ => none

def jOutEntry (f : PhyVerif.C13.Name × Entry) : Json :=
  Json.mkObj [("name", Json.str (strOfName f.1)), ("tag", Json.str f.2.tag), ("dim", jNat (firstDim f.1 f.2)),
              ("vals", jOpt jInts (intVals f.2))]

def getView (j : Json) : R View := do
  let rate ← fld j "rate" >>= asRat
  let namp ← getNat j "n_amplitudes"
  -- the source's spike file: `samples` = spike_times.npy (in samples); `times_sec` = spikes.times*.npy (seconds),
  -- optionally with `samples_file` = spikes.samples*.npy
  let file ← if hasFld j "times_sec" then (do
      let t ← getRats j "times_sec"
      let s ← if hasFld j "samples_file" then some <$> getInts j "samples_file" else pure none
      pure (SpikeFile.inSeconds t s))
    else SpikeFile.inSamples <$> getInts j "samples"
  let sc ← getNats j "sc"
  let st ← getNats j "st"
  let nt ← getNat j "n_templates"
  let cm ← getNats j "channel_map"
  let cp ← getNats j "channel_probes"
  let fr ← if hasFld j "feat_rows" then some <$> getNat j "feat_rows" else pure none
  -- samples and times are both what `_load_spike_samples` makes of the one spike file (`viewOfFile`)
  let rest : PhyVerif.C13.View := ⟨rate, [], [], sc, st, List.replicate namp 0, nt, cm, cp, fr⟩
  pure (viewOfFile rate file rest)

def jErr : Option Err → Json
  | none => Json.null
  | some .sameDir => Json.str "sameDir"
  | some .noClusterChannels => Json.str "noClusterChannels"
  | some .noSpikesFile => Json.str "noSpikesFile"
  | some .badLabel => Json.str "badLabel"

/-- `RowsOK` as a Bool, evaluated on the model's own output (a self-check of the machinery) -/
def rowsOKb (v : View) (d : FDir) : Bool :=
  d.all fun f => !isObj f.1 || expectedRows (sizesOf v) f.1 == some (firstDim f.1 f.2)

/-- what a stale older export looks like when it is re-exported over (harness/alf_common.py: every object
`.npy` table is replaced by a 3-row array) -/
def staleOut (d : FDir) : FDir :=
  d.map fun f => if isObj f.1 && f.1.getLast? == some "npy" then (f.1, ⟨"stale", tokRows "stale" 3, false⟩) else f

def runC13 (op : String) (j : Json) : R Json := do
  match op with
  | "convert" =>
    let s : Sizes := ⟨← getNat j "n_spikes", ← getNat j "n_clusters", ← getNat j "n_templates", ← getNat j "n_channels"⟩
    let label ← getStr j "label"
    let same ← getBool j "same_dir"
    match convert "src" (if same then "src" else "out") label s with
    | none => pure (Json.mkObj [("model", Json.null)])
    | some files =>
      pure (Json.mkObj [("model", jList (fun (f : PhyVerif.C13.Name × Nat) =>
        Json.arr #[Json.str (".".intercalate f.1), jNat f.2]) files)])
  | "export" =>
    -- the whole conversion on directories: source view + source listing -> both directories afterwards
    let v ← getView j
    let cfg : Cfg := { sameDir := ← getBool j "same_dir", force := ← getBool j "force",
                       label := ← getStr j "label", hasTraces := ← getBool j "has_traces" }
    let src ← getDir j "src"
    let out0 ← getDir j "out0"
    let gen := fun (k : Nat) => s!"uuid-{k}"
    let reexport ← if hasFld j "reexport" then getBool j "reexport" else pure false
    let o :=
      if reexport then
        let o1 := convertFS { cfg with force := false } v gen ⟨src, out0⟩
        convertFS { cfg with force := true } v (fun k => s!"uuid2-{k}") ⟨o1.fs.src, staleOut o1.fs.out⟩
      else convertFS cfg v gen ⟨src, out0⟩
    let s := sizesOf v
    -- the table of Model/C13.lean, with the counts computed here from the source view
    let table := match convert "src" (if cfg.sameDir then "src" else "out") cfg.label s with
      | none => Json.null
      | some files => jList (fun (f : PhyVerif.C13.Name × Nat) => Json.arr #[Json.str (strOfName f.1), jNat f.2]) files
    pure (Json.mkObj [
      ("err", jErr o.err),
      ("counts", Json.mkObj [("spikes", jNat s.nSpikes), ("clusters", jNat s.nClusters),
                             ("templates", jNat s.nTemplates), ("channels", jNat s.nChannels)]),
      ("src", jList (fun (f : PhyVerif.C13.Name × Entry) => Json.arr #[Json.str (strOfName f.1), Json.str f.2.tag]) o.fs.src),
      ("out", jList jOutEntry o.fs.out),
      ("times", jRats v.times), ("samples", jInts v.samples),
      ("table", table),
      ("reload", if o.err.isNone then jReload v o.fs.out else Json.null),
      ("rows_ok", Json.bool (rowsOKb v o.fs.out)),
      ("frame_ok", Json.bool (frameOKb src o.fs.src))])
  | "frame" =>
    -- the frame clause decided on two REAL listings of the source directory
    let before ← getDir j "before"
    let after ← getDir j "after"
    pure (Json.mkObj [("frame_ok", Json.bool (frameOKb before after))])
  | "uuids" =>
    -- "one unique identifier per cluster" decided on the lines of the REAL file; the number of clusters is
    -- computed from the source view
    let v ← getView j
    let lines ← fld j "impl_lines" >>= asList asStr
    pure (Json.mkObj [("uuid_ok", Json.bool (uuidOKb (nClusters v) lines)), ("n_clusters", jNat (nClusters v))])
  | _ => .error s!"C13: unknown op {op}"

end PhyVerif.Driver
