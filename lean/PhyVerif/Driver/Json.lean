import Lean.Data.Json
/-! JSON helpers for the line-protocol driver. -/
namespace PhyVerif.Driver
open Lean

abbrev R := Except String

def fld (j : Json) (k : String) : R Json :=
  match j.getObjVal? k with
  | .ok v => .ok v
  | .error _ => .error s!"missing field {k}"

def asInt (j : Json) : R Int :=
  match j.getInt? with
  | .ok v => .ok v
  | .error _ => .error s!"not an int: {j.compress}"

def asNat (j : Json) : R Nat := do
  let i ← asInt j
  if i < 0 then .error s!"negative where nat expected: {i}" else pure i.toNat

def asStr (j : Json) : R String :=
  match j.getStr? with
  | .ok v => .ok v
  | .error _ => .error s!"not a string: {j.compress}"

def asBool (j : Json) : R Bool :=
  match j.getBool? with
  | .ok v => .ok v
  | .error _ => .error s!"not a bool: {j.compress}"

def asArr (j : Json) : R (List Json) :=
  match j.getArr? with
  | .ok v => .ok v.toList
  | .error _ => .error s!"not an array: {j.compress}"

def asList {α} (f : Json → R α) (j : Json) : R (List α) := do
  let a ← asArr j
  a.mapM f

def asOpt {α} (f : Json → R α) (j : Json) : R (Option α) :=
  if j.isNull then pure none else some <$> f j

def getInt (j : Json) (k : String) : R Int := fld j k >>= asInt
def getNat (j : Json) (k : String) : R Nat := fld j k >>= asNat
def getStr (j : Json) (k : String) : R String := fld j k >>= asStr
def getBool (j : Json) (k : String) : R Bool := fld j k >>= asBool
def getInts (j : Json) (k : String) : R (List Int) := fld j k >>= asList asInt
def getNats (j : Json) (k : String) : R (List Nat) := fld j k >>= asList asNat
def getIntss (j : Json) (k : String) : R (List (List Int)) := fld j k >>= asList (asList asInt)
def getNatss (j : Json) (k : String) : R (List (List Nat)) := fld j k >>= asList (asList asNat)
def getOptInt (j : Json) (k : String) : R (Option Int) :=
  match j.getObjVal? k with
  | .ok v => asOpt asInt v
  | .error _ => pure none
def hasFld (j : Json) (k : String) : Bool :=
  match j.getObjVal? k with
  | .ok v => !v.isNull
  | .error _ => false

def jInt (i : Int) : Json := Json.num (JsonNumber.fromInt i)
def jNat (n : Nat) : Json := Json.num (JsonNumber.fromNat n)
def jInts (l : List Int) : Json := Json.arr (l.map jInt).toArray
def jNats (l : List Nat) : Json := Json.arr (l.map jNat).toArray
def jList {α} (f : α → Json) (l : List α) : Json := Json.arr (l.map f).toArray
def jOpt {α} (f : α → Json) : Option α → Json
  | none => Json.null
  | some a => f a
def jPairN (p : Nat × Nat) : Json := Json.arr #[jNat p.1, jNat p.2]
def jPairI (p : Int × Int) : Json := Json.arr #[jInt p.1, jInt p.2]

end PhyVerif.Driver
