import PhyVerif.Driver.Rat
import PhyVerif.Model.C08
import PhyVerif.Model.C08b
import PhyVerif.Spec.C08
namespace PhyVerif.Driver
open Lean PhyVerif PhyVerif.C08

def runC08 (op : String) (j : Json) : R Json := do
  let W ← getRat3 j "W"; let chans ← getNatss j "chans"
  let st ← getNats j "st"; let sc ← getNats j "sc"
  match op with
  | "clusters" =>
    let ns ← getNat j "ns"; let nc ← getNat j "nc"
    let mm := mergeMap st sc
    let lc := loadClusters W chans st sc ns nc
    pure (Json.mkObj [
      ("merge_map", jList jNats mm),
      ("merge_map_spec", jList jNats ((List.range (sc.foldl max 0 + 1)).map (templatesOf st sc))),
      ("nan_idx", jNats (nanIdx mm)),
      ("data", jList jRatMat lc.1),
      ("n_clusters", jNat lc.2)])
  | "cluster_mean" =>
    let cs ← getNats j "cs"
    pure (Json.mkObj [("means", jList (fun c =>
      let r := clusterMean W chans st sc c
      Json.mkObj [("channels", jNats r.1), ("mean", jRatMat r.2),
                  ("from_spikes", jNat (clusterTemplate st sc c)),
                  ("dominant", jNat (argmaxNat (templateCounts st sc W.length c)))]) cs)])
  | _ => .error s!"C08: unknown op {op}"

end PhyVerif.Driver
