import PhyVerif.Driver.Rat
import PhyVerif.Model.C08
import PhyVerif.Model.C08b
import PhyVerif.Spec.C08
import PhyVerif.Model.C05
namespace PhyVerif.Driver
open Lean PhyVerif PhyVerif.C08

def runC08 (op : String) (j : Json) : R Json := do
  let W ← getRat3 j "W"; let chans ← getNatss j "chans"
  -- `unwhiten: {wmi, scaling}`: the waveforms the accessor averages are the UNWHITENED templates
  -- (`get_template(t, unwhiten=True)`, model.py:1250-1253), computed here by the C05 model from the stored ones
  let W ← match j.getObjVal? "unwhiten" with
    | .ok u => do
      let wmi ← getRatMat u "wmi"
      let sc ← fld u "scaling" >>= asRat
      pure (W.map fun Tw => C05.unwhiten wmi sc Tw none)
    | .error _ => pure W
  let st ← getNats j "st"; let sc ← getNats j "sc"
  match op with
  | "clusters" =>
    let ns ← getNat j "ns"; let nc ← getNat j "nc"
    let mm := mergeMap st sc
    let lc := loadClusters W chans st sc ns nc
    pure (Json.mkObj [
      ("merge_map", jList jNats mm),
      ("merge_map_spec", jList jNats ((List.range (sc.foldl max 0 + 1)).map (templatesOf st sc))),
      ("nan_idx", jNats (nanIdx mm)),
      ("data", jList jRatMat lc.1),
      ("n_clusters", jNat lc.2)])
  | "cluster_mean" =>
    let cs ← getNats j "cs"
    pure (Json.mkObj [("means", jList (fun c =>
      let r := clusterMean W chans st sc c
      Json.mkObj [("channels", jNats r.1), ("mean", jRatMat r.2),
                  ("from_spikes", jNat (clusterTemplate st sc c)),
                  ("dominant", jNat (argmaxNat (templateCounts st sc W.length c)))]) cs)])
  | _ => .error s!"C08: unknown op {op}"

end PhyVerif.Driver
