import PhyVerif.Driver.Json
import PhyVerif.Driver.Rat
import PhyVerif.Driver.C01
import PhyVerif.Model.C04
import PhyVerif.Model.C04c
import PhyVerif.Model.C04f
import PhyVerif.Model.C04h
namespace PhyVerif.Driver
open Lean PhyVerif.C04

def asCell04 (j : Json) : R Cell :=
  match j.getInt? with
  | .ok i => pure (.num i)
  | .error _ =>
    match j.getStr? with
    | .ok "nan" => pure .nan
    | .ok "inf" => pure .inf
    | _ => .error s!"cell: {j.compress}"

def jCell04 : Cell → Json
  | .num i => jInt i
  | .nan => Json.str "nan"
  | .inf => Json.str "inf"

def asArr04 (j : Json) : R Arr := do
  pure ⟨← getNats j "shape", ← fld j "data" >>= asList asCell04⟩

def jArr04 (a : Arr) : Json := Json.mkObj [("shape", jNats a.shape), ("data", jList jCell04 a.data)]

def asDir04 (j : Json) : R Dir := do
  let files ← fld j "files" >>= asArr
  files.mapM fun f => do
    let p ← asArr f
    match p with
    | [n, a] => do pure (← asStr n, ← asArr04 a)
    | _ => .error "file entry"

def jTimes04 : TimeSrc → Json
  | .samplesOverRate s => Json.mkObj [("samples_over_rate", jArr04 s)]
  | .stored t => Json.mkObj [("stored", jArr04 t)]

def jSamples04 : SampleSrc → Json
  | .file s => Json.mkObj [("file", jArr04 s)]
  | .roundedTimes t => Json.mkObj [("rounded_times", jArr04 t)]

def jLoadErr04 : LoadErr → Json
  | .missing w => Json.mkObj [("error", Json.str ("missing " ++ w))]
  | .nonMonotone => Json.mkObj [("error", Json.str "non_monotone")]
  | .conflict w => Json.mkObj [("error", Json.str ("conflict " ++ w))]

def jSparse04 (s : Sparse) : Json :=
  Json.mkObj [("data", jArr04 s.data), ("cols", jOpt jArr04 s.cols), ("rows", jOpt jArr04 s.rows)]

def jFullErr04 : FullErr → Json
  | .base e => jLoadErr04 e
  | .shape w => Json.mkObj [("error", Json.str ("shape " ++ w))]
  | .curatedWithoutTemplates => Json.mkObj [("error", Json.str "curated_without_templates")]

def jAnyErr04 : AnyErr → Json
  | .load e => jLoadErr04 e
  | .emptyTrain => Json.mkObj [("error", Json.str "empty_train")]
  | .dtype w => Json.mkObj [("error", Json.str ("dtype " ++ w))]

/-- the outcome of `C04.loadAny` (error or null) and the names of the directory it leaves, in EVERY outcome -/
def jAny04 (bad : List String) (d : Dir) : Json :=
  let r := loadAny (fun a => a) bad d
  Json.mkObj [("outcome", match r.1 with | .error e => jAnyErr04 e | .ok _ => Json.null),
              ("early", match r.1 with | .error e => Json.bool e.early | .ok _ => Json.null),
              ("files_after", jList (fun (f : String × Arr) => Json.str f.1) r.2),
              ("clusters_copy", match r.2.lookup "spike_clusters.npy" with
                 | some a => if (d.lookup "spike_clusters.npy").isNone then jArr04 a else Json.null
                 | none => Json.null)]

/-- `load_full`: the whole of `_load_data` (`C04.loadFull`).  Raw data files are given by their sizes
in bytes (rows through `C01.memmapRows`, cells are ids `row * ncd + col` of the concatenated
recording); `items` are the row indices at which `model.traces[...]` is evaluated. -/
def runLoadFull04 (j : Json) : R Json := do
  let d ← asDir04 j
  let rate ← fld j "rate" >>= asRat
  let tden ← getNat j "tden"
  let ncd ← getNat j "ncd"
  let one ← fld j "one" >>= asCell04
  let raw ← match j.getObjVal? "raw" with
    | .ok v =>
      if v.isNull then pure none else do
        let sizes ← getNats v "sizes"
        let offset ← getNat v "offset"
        let isz ← getNat v "itemsize"
        pure (some (mkParts (rawRows sizes offset isz ncd) ncd))
    | .error _ => pure none
  let items ← match j.getObjVal? "items" with
    | .ok v => asList asItem v
    | .error _ => pure []
  let bad ← match j.getObjVal? "bad" with
    | .ok v => asList asStr v
    | .error _ => pure []
  let any := jAny04 bad d
  let withAny (o : Json) : Json := o.setObjVal! "any" any
  match loadFull (β := Nat) (fun a => a) rate tden ncd one raw d with
  | .error e => pure (withAny (jFullErr04 e))
  | .ok (fv, d') =>
    match loadFeatures d' fv.nTemplates, loadTemplateFeatures d' fv.nTemplates with
    | .error e, _ => pure (withAny (jFullErr04 e))
    | _, .error e => pure (withAny (jFullErr04 e))
    | .ok feats, .ok tfeats =>
    let v := fv.base
    let positions := match fv.positions with
      | .file a => Json.mkObj [("file", jArr04 a)]
      | .linear n => Json.mkObj [("linear", jNat n), ("rows", jRatMat (linearPositions n))]
    let traces := match raw, fv.traces with
      | some parts, some tr => Json.arr (items.map fun it => jOpt jMat (tracesGet parts tr it)).toArray
      | _, _ => Json.null
    pure (Json.mkObj [
      ("times", jTimes04 v.times), ("samples", jSamples04 v.samples),
      ("spike_samples", jInts fv.spikeSamples), ("spike_times", jRats fv.spikeTimes),
      ("n_spikes", jNat fv.nSpikes), ("n_channels", jNat fv.nChannels), ("n_templates", jNat fv.nTemplates),
      ("amplitudes", jOpt jArr04 v.amplitudes),
      ("spike_templates", jArr04 v.spikeTemplates), ("spike_clusters", jArr04 v.spikeClusters),
      ("channel_map", jArr04 v.channelMap), ("channel_positions", positions),
      ("channel_shanks", jArr04 fv.channelShanks), ("channel_probes", jArr04 fv.channelProbes),
      ("templates", jOpt jArr04 v.templates), ("template_cols", jOpt jArr04 fv.templateCols),
      ("wm", jArr04 fv.wm), ("wmi", jOpt jArr04 v.wmi), ("similar", jArr04 fv.similar),
      -- no whitening matrix and no stored inverse: `fv.wmi` = what the loader WROTE = the inverse of the identity, which
      -- is the identity (the driver's `inv` is `id`: exact on the identity only, so only this case is exported)
      ("wmi_of_identity", if v.wm.isNone && v.wmi.isNone then jArr04 fv.wmi else Json.null),
      ("wmi_written", if v.wm.isNone && v.wmi.isNone then jOpt jArr04 (d'.lookup "whitening_mat_inv.npy") else Json.null),
      ("spike_attributes", Json.mkObj (fv.spikeAttributes.map fun na => (na.1, jArr04 na.2))),
      ("traces", traces), ("n_samples", jOpt jNat fv.nSamples), ("duration", jRat fv.duration),
      ("features", jOpt jSparse04 feats), ("template_features", jOpt jSparse04 tfeats),
      ("template_ids", jNats v.templateIds), ("cluster_ids", jNats v.clusterIds),
      ("probes", jNats fv.probes), ("n_probes", jNat fv.nProbes), ("any", any),
      ("files_after", jList (fun (f : String × Arr) => Json.str f.1) d')])

def runC04 (op : String) (j : Json) : R Json := do
  match op with
  | "load_full" => runLoadFull04 j
  | "round" =>
    -- `np.round` on exact rationals (`C04.roundHalfEven`)
    let qs ← getRats j "qs"
    pure (Json.mkObj [("model", jInts (qs.map roundHalfEven))])
  | "load" =>
    let files ← fld j "files" >>= asArr
    let d ← files.mapM fun f => do
      let p ← asArr f
      match p with
      | [n, a] => do pure (← asStr n, ← asArr04 a)
      | _ => .error "file entry"
    match load (fun a => a) d with
    | .error (.missing w) => pure (Json.mkObj [("error", Json.str ("missing " ++ w))])
    | .error .nonMonotone => pure (Json.mkObj [("error", Json.str "non_monotone")])
    | .error (.conflict w) => pure (Json.mkObj [("error", Json.str ("conflict " ++ w))])
    | .ok (v, d') =>
      let times := match v.times with
        | .samplesOverRate s => Json.mkObj [("samples_over_rate", jArr04 s)]
        | .stored t => Json.mkObj [("stored", jArr04 t)]
      let samples := match v.samples with
        | .file s => Json.mkObj [("file", jArr04 s)]
        | .roundedTimes t => Json.mkObj [("rounded_times", jArr04 t)]
      pure (Json.mkObj [
        ("times", times), ("samples", samples), ("amplitudes", jOpt jArr04 v.amplitudes),
        ("spike_templates", jArr04 v.spikeTemplates), ("spike_clusters", jArr04 v.spikeClusters),
        ("channel_map", jArr04 v.channelMap), ("channel_positions", jArr04 v.channelPositions),
        ("channel_shanks", jOpt jArr04 v.channelShanks), ("channel_probes", jOpt jArr04 v.channelProbes),
        ("templates", jOpt jArr04 v.templates), ("template_cols", jOpt jArr04 v.templateCols),
        ("wm", jOpt jArr04 v.wm), ("wmi", jOpt jArr04 v.wmi), ("similar", jOpt jArr04 v.similar),
        ("files_after", jList (fun (f : String × Arr) => Json.str f.1) d')])
  | _ => .error s!"C04: unknown op {op}"

end PhyVerif.Driver
