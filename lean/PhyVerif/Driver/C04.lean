import PhyVerif.Driver.Json
import PhyVerif.Model.C04
namespace PhyVerif.Driver
open Lean PhyVerif.C04

def asCell04 (j : Json) : R Cell :=
  match j.getInt? with
  | .ok i => pure (.num i)
  | .error _ =>
    match j.getStr? with
    | .ok "nan" => pure .nan
    | .ok "inf" => pure .inf
    | _ => .error s!"cell: {j.compress}"

def jCell04 : Cell → Json
  | .num i => jInt i
  | .nan => Json.str "nan"
  | .inf => Json.str "inf"

def asArr04 (j : Json) : R Arr := do
  pure ⟨← getNats j "shape", ← fld j "data" >>= asList asCell04⟩

def jArr04 (a : Arr) : Json := Json.mkObj [("shape", jNats a.shape), ("data", jList jCell04 a.data)]

def runC04 (op : String) (j : Json) : R Json := do
  match op with
  | "load" =>
    let files ← fld j "files" >>= asArr
    let d ← files.mapM fun f => do
      let p ← asArr f
      match p with
      | [n, a] => do pure (← asStr n, ← asArr04 a)
      | _ => .error "file entry"
    match load (fun a => a) d with
    | .error (.missing w) => pure (Json.mkObj [("error", Json.str ("missing " ++ w))])
    | .error .nonMonotone => pure (Json.mkObj [("error", Json.str "non_monotone")])
    | .error (.conflict w) => pure (Json.mkObj [("error", Json.str ("conflict " ++ w))])
    | .ok (v, d') =>
      let times := match v.times with
        | .samplesOverRate s => Json.mkObj [("samples_over_rate", jArr04 s)]
        | .stored t => Json.mkObj [("stored", jArr04 t)]
      let samples := match v.samples with
        | .file s => Json.mkObj [("file", jArr04 s)]
        | .roundedTimes t => Json.mkObj [("rounded_times", jArr04 t)]
      pure (Json.mkObj [
        ("times", times), ("samples", samples), ("amplitudes", jOpt jArr04 v.amplitudes),
        ("spike_templates", jArr04 v.spikeTemplates), ("spike_clusters", jArr04 v.spikeClusters),
        ("channel_map", jArr04 v.channelMap), ("channel_positions", jArr04 v.channelPositions),
        ("channel_shanks", jOpt jArr04 v.channelShanks), ("channel_probes", jOpt jArr04 v.channelProbes),
        ("templates", jOpt jArr04 v.templates), ("template_cols", jOpt jArr04 v.templateCols),
        ("wm", jOpt jArr04 v.wm), ("wmi", jOpt jArr04 v.wmi), ("similar", jOpt jArr04 v.similar),
        ("files_after", jList (fun (f : String × Arr) => Json.str f.1) d')])
  | _ => .error s!"C04: unknown op {op}"

end PhyVerif.Driver
