import PhyVerif.Driver.Json
import PhyVerif.Driver.C18
import PhyVerif.Driver.C03
import PhyVerif.Model.C10
import PhyVerif.Spec.C10
namespace PhyVerif.Driver
open Lean PhyVerif.C10
open PhyVerif.C18 (Cell)

/-- inverse of `renderCell`: "I<int>", "F<token>", "T<text>" -/
def parseTagged (s : String) : Cell :=
  match s.toList with
  | 'I' :: rest => .int ((String.ofList rest).toInt?.getD 0)
  | 'F' :: rest => .float ((String.ofList rest).toNat?.getD 0)
  | 'T' :: rest => .text (String.ofList rest)
  | _ => match s.toNat? with
    | some n => .int n      -- ids written by `_write_tsv_simple` are plain decimals
    | none => .text s

def asFile (j : Json) : R File := do
  if j.isNull then return .unreadable
  pure (.table (← fld j "header" >>= asList asStr) (← fld j "rows" >>= asList (asList asStr)))

def asOp (j : Json) : R Op := do
  let k ← getStr j "k"
  match k with
  | "save_clusters" => pure (.saveClusters (← getNats j "sc"))
  | "save_meta" =>
    let m ← fld j "m" >>= asArr
    let entries ← m.mapM fun e => do
      let p ← asArr e
      match p with
      | [i, v] => do pure (← asNat i, ← asOpt asCell v)
      | _ => .error "meta entry"
    pure (.saveMeta (← getStr j "field") entries)
  | "write_file" => pure (.writeFile (← getStr j "stem", ← getBool j "tsv") (← fld j "file" >>= asFile))
  | "save_subset" => pure (.saveSubset (← getNats j "sel") (← getNat j "max_n"))
  | "close" => pure .close
  | "reload" => pure .reload
  | _ => .error s!"C10 op {k}"

def jView (v : List Nat × List (String × List (Cell × Cell))) : Json :=
  Json.mkObj [("clusters", jNats v.1),
              ("metadata", jList (fun (f : String × List (Cell × Cell)) =>
                  Json.arr #[Json.str f.1, jList (fun (p : Cell × Cell) => Json.arr #[jCell p.1, jCell p.2]) f.2]) v.2)]

/-- the visiting order observed on the real directory (`glob('*.csv')` then `glob('*.tsv')`), as entries of the
model directory; names the model does not know are dropped, files the listing omits are not visited -/
def visitOf (files : List (FName × File)) (order : List FName) : List (FName × File) :=
  order.filterMap fun nm => files.find? fun p => p.1 == nm

def asFName (j : Json) : R FName := do
  match ← asArr j with
  | [s, b] => pure (← asStr s, ← asBool b)
  | _ => .error "file name: [stem, is_tsv] expected"

def asCName (j : Json) : R CName := do
  if j.isNull then return none
  pure (some (← asStr j))

def asAssign (j : Json) : R (CName × List Nat) := do
  match ← asArr j with
  | [n, v] => pure (← asCName n, ← asList asNat v)
  | _ => .error "assignment file: [label or null, ids] expected"

def cnameFile : CName → String
  | none => "spike_clusters.npy"
  | some l => "spikes.clusters" ++ l ++ ".npy"

/-- the directory entries a `Target` stands for -/
def targetFiles : Target → List String
  | .assign n => [cnameFile n]
  | .table n => [n.1 ++ (if n.2 then ".tsv" else ".csv")]
  | .subsetStore => ["_phy_spikes_subset.spikes.npy", "_phy_spikes_subset.channels.npy", "_phy_spikes_subset.waveforms.npy"]

def runC10 (op : String) (j : Json) : R Json := do
  match op with
  | "history" =>
    let ops ← fld j "ops" >>= asArr
    let f ← getRatD j "factor" 1
    let scale : Rat → Rat := fun x => x * f
    let fixed : Fixed Rat :=
      { spikeTemplates := ← getNats j "spike_templates", spikeSamples := ← getInts j "spike_samples",
        raw := ← getRatMat j "raw", chunks := ← fld j "chunks" >>= asList asPairN,
        orders := ← getIntss j "orders", nsw := ← getNat j "nsw", nClosest := ← getNat j "closest",
        hasRaw := ← getBool j "has_raw" }
    -- the directory as generated: assignment files by name, metadata files, the store of an earlier session's export
    let assign0 ← fld j "assign0" >>= asList asAssign
    let files0 ← fld j "files0" >>= asList fun e => do
      pure ((← getStr e "stem", ← getBool e "tsv"), ← fld e "file" >>= asFile)
    let subset0 ← (if hasFld j "subset0" then do
        let s ← fld j "subset0"
        pure (some (C03.saveSubset scale fixed.raw fixed.chunks fixed.spikeSamples fixed.spikeTemplates fixed.orders
          (← getNats s "sel") fixed.nsw (C03.subsetWidth (← getNat s "max_n") fixed.nClosest)))
      else pure none)
    -- float tokens whose value is an integer (number parsing is transport): `[[token, integer], …]`
    let fints ← fld j "fints" >>= asList fun e => do
      match ← asArr e with
      | [t, i] => pure (← asNat t, ← asInt i)
      | _ => .error "fints entry"
    let fnum : Nat → Option Int := fun t => fints.lookup t
    let d00 : Disk Rat := ⟨assign0, files0, subset0, fixed⟩
    -- the session is opened by a load (`first_load`)
    let mut d : Disk Rat := step renderCell scale d00 .reload
    let mut a : Abs := ⟨shown d00, []⟩
    let mut views : List Json := []
    let mut steps : List Json := [jList Json.str ((touched d00 .reload).flatMap targetFiles)]
    for jo in ops do
      let o ← asOp jo
      steps := steps ++ [jList Json.str ((touched d o).flatMap targetFiles)]
      d := step renderCell scale d o
      a := absStep a o
      match o with
      | .reload =>
        -- metadata in the visiting order the real loader had (default: the model's own directory order)
        let visit ← (if hasFld jo "order" then do
            let order ← fld jo "order" >>= asList asFName
            pure (visitOf d.files order)
          else pure ((d.files.filter fun p => !p.1.2) ++ (d.files.filter fun p => p.1.2)))
        let mview := metadataViewIn parseTagged fnum visit
        -- saved fields the property speaks about at this reload: the file of the last save is still there and is
        -- the last visited file that says anything about the field (view_field_eq_last)
        let claimed := a.fields.filter fun (fd : String × List (Nat × Cell)) =>
          let name : FName := ("cluster_" ++ fd.1, true)
          (d.files.lookup name == some (simpleTable renderCell fd.1 fd.2)) &&
          ((visit.reverse.findSome? fun p => (fileField parseTagged fnum fd.1 p).map fun _ => p.1) == some name)
        let store := storeView d
        let query ← (if hasFld jo "query" then getNats jo "query" else pure [])
        let chq ← (if hasFld jo "chq" then getNats jo "chq" else pure [])
        let stored := match store with
          | some st => query.all st.spikeIds.contains
          | none => false
        views := views ++ [Json.mkObj [
          ("view", jView (shown d, mview)),
          ("abs_clusters", jNats a.clusters),
          ("abs_fields", jList (fun (f : String × List (Nat × Cell)) =>
             Json.arr #[Json.str f.1, jList (fun (p : Nat × Cell) => Json.arr #[jNat p.1, jCell p.2]) f.2]) a.fields),
          ("claimed", jList (fun (f : String × List (Nat × Cell)) => Json.str f.1) claimed),
          ("files", jList (fun (f : FName × File) => Json.str (f.1.1 ++ (if f.1.2 then ".tsv" else ".csv"))) d.files),
          ("assign_files", jList (fun (f : CName × List Nat) => Json.str (cnameFile f.1)) d.assign),
          ("templates", jNats d.fixed.spikeTemplates), ("samples", jInts d.fixed.spikeSamples),
          ("subset", Json.bool d.subset.isSome),
          ("store", jOpt (fun (st : C03.Store Rat) => Json.mkObj [("ids", jNats st.spikeIds),
              ("channels", jIMat st.spikeChannels)]) store),
          ("wf", jQ3 (C03.getWaveforms store d.fixed.raw d.fixed.spikeSamples query chq d.fixed.nsw)),
          ("wf_spec", jOpt jQ3 (match store with
            | some st => if stored then some (query.map fun q =>
                C03.lookupSpec scale d.fixed.raw (d.fixed.spikeSamples.getD q 0) d.fixed.nsw
                  (st.spikeChannels.getD (st.spikeIds.idxOf q) []) chq) else none
            | none => none)),
          ("tile", Json.bool (PhyVerif.C16.intervalsTile d.fixed.raw.length d.fixed.chunks))]]
      | _ => pure ()
    pure (Json.mkObj [("views", Json.arr views.toArray), ("steps", Json.arr steps.toArray)])
  | _ => .error s!"C10: unknown op {op}"

end PhyVerif.Driver
