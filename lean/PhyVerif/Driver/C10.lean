import PhyVerif.Driver.Json
import PhyVerif.Driver.C18
import PhyVerif.Model.C10
import PhyVerif.Spec.C10
namespace PhyVerif.Driver
open Lean PhyVerif.C10
open PhyVerif.C18 (Cell)

/-- inverse of `renderCell`: "I<int>", "F<token>", "T<text>" -/
def parseTagged (s : String) : Cell :=
  match s.toList with
  | 'I' :: rest => .int ((String.ofList rest).toInt?.getD 0)
  | 'F' :: rest => .float ((String.ofList rest).toNat?.getD 0)
  | 'T' :: rest => .text (String.ofList rest)
  | _ => match s.toNat? with
    | some n => .int n      -- ids written by `_write_tsv_simple` are plain decimals
    | none => .text s

def asFile (j : Json) : R File := do
  if j.isNull then return .unreadable
  pure (.table (← fld j "header" >>= asList asStr) (← fld j "rows" >>= asList (asList asStr)))

def asOp (j : Json) : R Op := do
  let k ← getStr j "k"
  match k with
  | "save_clusters" => pure (.saveClusters (← getNats j "sc"))
  | "save_meta" =>
    let m ← fld j "m" >>= asArr
    let entries ← m.mapM fun e => do
      let p ← asArr e
      match p with
      | [i, v] => do pure (← asNat i, ← asOpt asCell v)
      | _ => .error "meta entry"
    pure (.saveMeta (← getStr j "field") entries)
  | "write_file" => pure (.writeFile (← getStr j "stem", ← getBool j "tsv") (← fld j "file" >>= asFile))
  | "save_subset" => pure .saveSubset
  | "close" => pure .close
  | "reload" => pure .reload
  | _ => .error s!"C10 op {k}"

def jView (v : List Nat × List (String × List (Cell × Cell))) : Json :=
  Json.mkObj [("clusters", jNats v.1),
              ("metadata", jList (fun (f : String × List (Cell × Cell)) =>
                  Json.arr #[Json.str f.1, jList (fun (p : Cell × Cell) => Json.arr #[jCell p.1, jCell p.2]) f.2]) v.2)]

def runC10 (op : String) (j : Json) : R Json := do
  match op with
  | "history" =>
    let sc0 ← getNats j "clusters0"
    let ops ← fld j "ops" >>= asList asOp
    let mut d : Disk := ⟨sc0, [], false⟩
    let mut a : Abs := ⟨sc0, []⟩
    let mut views : List Json := []
    for o in ops do
      d := step renderCell d o
      a := absStep a o
      match o with
      | .reload => views := views ++ [Json.mkObj [("view", jView (view parseTagged d)),
                                                  ("abs_clusters", jNats a.clusters),
                                                  ("abs_fields", jList (fun (f : String × List (Nat × Cell)) =>
                                                     Json.arr #[Json.str f.1, jList (fun (p : Nat × Cell) => Json.arr #[jNat p.1, jCell p.2]) f.2]) a.fields),
                                                  ("files", jList (fun (f : FName × File) => Json.str (f.1.1 ++ (if f.1.2 then ".tsv" else ".csv"))) d.files),
                                                  ("subset", Json.bool d.subsetSaved)]]
      | _ => pure ()
    pure (Json.mkObj [("views", Json.arr views.toArray)])
  | _ => .error s!"C10: unknown op {op}"

end PhyVerif.Driver
