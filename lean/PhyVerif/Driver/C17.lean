import PhyVerif.Driver.Json
import PhyVerif.Model.C17
import PhyVerif.Spec.C17
namespace PhyVerif.Driver
open Lean PhyVerif PhyVerif.C17

def asInp (j : Json) : R Inp := do
  let subset ← match j.getObjVal? "subset" with
    | .ok v => asOpt (asList asNat) v
    | .error _ => pure none
  pure { times := ← getInts j "times", clusters := ← getNats j "clusters", bounds := ← getInts j "bounds",
         nKept := ← getNat j "n_kept", count := ← getOptInt j "count", req := ← getNats j "req",
         subsetChunks := ← getBool j "subset_chunks", subset := subset }

def runC17 (op : String) (j : Json) : R Json := do
  match op with
  | "select" =>
    let x ← asInp j
    let m := selectWith (fun l n => l.take n) x
    -- does any requested cluster need a random sub-selection?
    let random := x.req.any fun c =>
      match x.count with
      | some n => decide (n > 0) && decide (((eligibleSpec x c).length : Int) > n)
      | none => false
    -- the real output is judged in the statement's own words: its `chunks_kept` must be the grid intervals at
    -- SOME regular stride (keptOKAny), and the selection must satisfy the constraints relative to THOSE intervals
    let implSpec ← if hasFld j "impl" && hasFld j "impl_kept" then do
        let out ← getNats j "impl"
        let k ← getInts j "impl_kept"
        pure (Json.bool (SpecOKIn (pairsOf k) x out))
      else pure Json.null
    -- "tmap" = [a, b] with a ≥ 1: the same input seen through t ↦ a·t + b (`Inp.mapTimes`): the selection must not move
    -- and the kept chunks are the images (`selection_order_invariant`; a self-check of the machinery)
    let mapInv ← if hasFld j "tmap" then do
        let ab ← getInts j "tmap"
        match ab with
        | [a, b] =>
          let f := fun (t : Int) => a * t + b
          let y := x.mapTimes f
          pure (Json.bool (decide (1 ≤ a) && selectWith (fun l n => l.take n) y == m &&
                           chunksKept y.bounds y.nKept == (chunksKept x.bounds x.nKept).map f))
        | _ => .error "tmap: [a, b] expected"
      else pure Json.null
    let implKept ← if hasFld j "impl_kept" then do
        let k ← getInts j "impl_kept"
        pure (Json.bool (keptOKAny x.bounds x.nKept k))
      else pure Json.null
    -- closed form of the selection when no positive count is given (`selection_noCount_closed_form`): one filter
    let noCount := match x.count with | none => true | some n => decide (n ≤ 0)
    let closed := if noCount then jNats (allEligible x) else Json.null
    pure (Json.mkObj [("model", jNats m), ("random", Json.bool random), ("closed", closed),
                      ("model_spec", Json.bool (SpecOK x m)),
                      ("kept", jInts (chunksKept x.bounds x.nKept)),
                      ("impl_spec", implSpec), ("impl_kept_ok", implKept), ("map_invariant", mapInv)])
  | _ => .error s!"C17: unknown op {op}"

end PhyVerif.Driver
