import PhyVerif.Driver.Json
import PhyVerif.Driver.Rat
import PhyVerif.Model.C16
import PhyVerif.Model.C16c
import PhyVerif.Model.C16d
import PhyVerif.Spec.C16
namespace PhyVerif.Driver
open Lean PhyVerif.C16

def jChunk (c : Chunk) : Json := Json.arr #[jInt c.s, jInt c.e, jInt c.ks, jInt c.ke]

def asChunk (j : Json) : R Chunk := do
  let l ← asList asInt j
  match l with
  | [a, b, c, d] => pure ⟨a, b, c, d⟩
  | _ => .error "chunk: 4 ints expected"

def asPairN (j : Json) : R (Nat × Nat) := do
  let l ← asList asNat j
  match l with
  | [a, b] => pure (a, b)
  | _ => .error "pair expected"

def asPairI (j : Json) : R (Int × Int) := do
  let l ← asList asInt j
  match l with
  | [a, b] => pure (a, b)
  | _ => .error "pair expected"

def runC16 (op : String) (j : Json) : R Json := do
  match op with
  | "chunk_bounds" =>
    -- model output + SpecOK decided on the real code's output (field "impl")
    let n ← getNat j "n"; let cs ← getNat j "cs"; let ov ← getNat j "ov"
    let m := chunkBounds n cs ov
    let spec ← if hasFld j "impl" then do
        let ic ← fld j "impl" >>= asList asChunk
        pure (Json.bool (tileOK n cs ic))
      else pure Json.null
    pure (Json.mkObj [("model", jList jChunk m), ("model_spec", Json.bool (tileOK n cs m)),
                      ("impl_spec", spec)])
  | "get_chunk_bounds" =>
    -- with "rate" (exact rational of the float handed to the real reader) instead of "cs": the chunk length
    -- is the model's `chunkSizeFl rate` (float product, then round); a rate the constructor rejects gives model = null
    let sizes ← getNats j "sizes"
    let (csI, extra) ← if hasFld j "rate" then do
        let rate ← fld j "rate" >>= asRat
        -- `exact_cs` = the exact-rational model; `inrange` = the float product is a normal double or zero
        -- `reader` = the constructor's bounds as ONE model definition (`readerChunkBoundsFl`: chunk length, assert, bounds)
        pure (chunkSizeFl rate, [("exact_cs", jInt (chunkSize rate)),
                                 ("inrange", Json.bool (decide (PhyVerif.Fl.InRange (defaultChunkDuration * rate)))),
                                 ("product_is_double", Json.bool (PhyVerif.Fl.isDoubleB (defaultChunkDuration * rate))),
                                 ("reader", jOpt jNats (readerChunkBoundsFl sizes rate))])
      else do
        let cs ← getNat j "cs"
        pure ((cs : Int), [])
    if csI ≤ 0 then
      pure (Json.mkObj ([("model", Json.null), ("cs", jInt csI)] ++ extra))
    else
    let cs := csI.toNat
    let m := getChunkBounds sizes cs
    let spec ← if hasFld j "impl" then do
        let ib ← getNats j "impl"
        pure (Json.bool (boundsOK sizes cs ib && intervalsTile sizes.sum (iterChunksBase ib)))
      else pure Json.null
    pure (Json.mkObj ([("model", jNats m), ("cs", jNat cs), ("part_bounds", jNats (partBounds sizes)),
                      ("iter", jList jPairN (iterChunksBase m)),
                      ("model_spec", Json.bool (boundsOK sizes cs m && intervalsTile sizes.sum (iterChunksBase m))),
                      ("impl_spec", spec)] ++ extra))
  | "iter_mts" =>
    let b ← getNats j "bounds"; let bs ← getNat j "bs"
    let m := iterChunksMts bs b
    let n := b.getLast?.getD 0
    let spec ← if hasFld j "impl" then do
        let iv ← fld j "impl" >>= asList asPairN
        pure (Json.bool (intervalsTile n iv))
      else pure Json.null
    -- the chunk table itself: "n" samples compressed with chunk duration "cd" at "rate" (exact rationals);
    -- `table_spec` = the reader clause (0 -> n, strictly increasing, gaps <= chunk length) on the REAL table
    let tbl ← if hasFld j "cd" then do
        let n ← getNat j "n"
        let cd ← fld j "cd" >>= asRat; let rate ← fld j "rate" >>= asRat
        let cs := mtsChunkSizeFl cd rate
        let ex := [("table_exact_cs", jInt (mtsChunkSize cd rate)),
                   ("table_inrange", Json.bool (decide (PhyVerif.Fl.InRange (cd * rate))))]
        if cs ≤ 0 then pure ([("table_cs", jInt cs)] ++ ex) else
        pure ([("table_cs", jInt cs), ("table", jOpt jNats (mtsTable n cs.toNat)),
              ("table_spec", Json.bool (boundsOK [n] cs.toNat b))] ++ ex)
      else pure []
    pure (Json.mkObj ([("model", jList jPairN m), ("model_spec", Json.bool (intervalsTile n m)),
                      ("impl_spec", spec)] ++ tbl))
  | "chunk_size" =>
    let rate ← fld j "rate" >>= asRat
    -- `exact` = the exact-rational model (`chunkSize`), for the tally of rates on which the float product matters
    pure (Json.mkObj [("model", jInt (chunkSizeFl rate)), ("exact", jInt (chunkSize rate)),
                      ("inrange", Json.bool (decide (PhyVerif.Fl.InRange (defaultChunkDuration * rate)))),
                      ("product_is_double", Json.bool (PhyVerif.Fl.isDoubleB (defaultChunkDuration * rate)))])
  | "excerpts" =>
    let n ← getInt j "n"; let k ← getInt j "k"; let size ← getInt j "size"
    let m := excerpts n k size
    let spec ← if hasFld j "impl" then do
        let iv ← fld j "impl" >>= asList asPairI
        pure (Json.bool (excerptsOK n k size iv))
      else pure Json.null
    pure (Json.mkObj [("model", jList jPairI m), ("model_spec", Json.bool (excerptsOK n k size m)),
                      ("impl_spec", spec)])
  | "get_excerpts" =>
    let n ← getNat j "n"; let k ← getNat j "k"; let size ← getNat j "size"
    pure (Json.mkObj [("model", jNats (getExcerpts (List.range n) k size))])
  | _ => .error s!"C16: unknown op {op}"

end PhyVerif.Driver
