import PhyVerif.Driver.Json
import PhyVerif.Driver.Rat
import PhyVerif.Model.C16
import PhyVerif.Model.C16c
import PhyVerif.Model.C16d
import PhyVerif.Model.C16e
import PhyVerif.Spec.C01b
import PhyVerif.Spec.C16
namespace PhyVerif.Driver
open Lean PhyVerif.C16

def jChunk (c : Chunk) : Json := Json.arr #[jInt c.s, jInt c.e, jInt c.ks, jInt c.ke]

def asChunk (j : Json) : R Chunk := do
  let l ← asList asInt j
  match l with
  | [a, b, c, d] => pure ⟨a, b, c, d⟩
  | _ => .error "chunk: 4 ints expected"

def asPairN (j : Json) : R (Nat × Nat) := do
  let l ← asList asNat j
  match l with
  | [a, b] => pure (a, b)
  | _ => .error "pair expected"

def asPairI (j : Json) : R (Int × Int) := do
  let l ← asList asInt j
  match l with
  | [a, b] => pure (a, b)
  | _ => .error "pair expected"

def runC16 (op : String) (j : Json) : R Json := do
  match op with
  | "chunk_bounds" =>
    -- model output + SpecOK decided on the real code's output (field "impl")
    let n ← getNat j "n"; let cs ← getNat j "cs"; let ov ← getNat j "ov"
    let m := chunkBounds n cs ov
    let spec ← if hasFld j "impl" then do
        let ic ← fld j "impl" >>= asList asChunk
        pure (Json.bool (tileOK n cs ic))
      else pure Json.null
    pure (Json.mkObj [("model", jList jChunk m), ("model_spec", Json.bool (tileOK n cs m)),
                      ("impl_spec", spec)])
  | "get_chunk_bounds" =>
    -- the chunk length comes from ONE of
    --  "cs"                       : given (function level: `_get_chunk_bounds(sizes, cs)`)
    --  "rate"                     : exact rational of a binary64 rate handed to the real reader: the model's
    --                               `chunkSizeFl rate` (float product, then round); a rate the constructor rejects gives
    --                               model = null.  `rate_ok` = `C01.RateOK rate`, the domain on which the float model is
    --                               the code (the same predicate the C01 check uses)
    --  "rate" + "prec" (+ "impl_cs"): a NumPy scalar rate of another precision (`Model/C16e.lean`): no model of the
    --                               chunk length; `env_lo`/`env_hi` = the envelope, and the bounds mechanism is run at
    --                               the chunk length the real reader exhibits ("impl_cs")
    -- "impl" = the real bounds, "impl_iters" = lists of intervals the real iterators yielded
    let sizes ← getNats j "sizes"
    let (csI, extra) ← if hasFld j "prec" then do
        let rate ← fld j "rate" >>= asRat
        let p ← getNat j "prec"
        let cs ← if hasFld j "impl_cs" then getInt j "impl_cs" else pure 0
        pure (cs, [("env_lo", jInt (chunkSizeLo p rate)), ("env_hi", jInt (chunkSizeHi p rate))])
      else if hasFld j "rate" then do
        let rate ← fld j "rate" >>= asRat
        -- `exact_cs` = the exact-rational model; `inrange` = the float product is a normal double or zero
        -- `reader` = the constructor's bounds as ONE model definition (`readerChunkBoundsFl`: chunk length, assert, bounds)
        pure (chunkSizeFl rate, [("exact_cs", jInt (chunkSize rate)),
                                 ("inrange", Json.bool (decide (PhyVerif.Fl.InRange (defaultChunkDuration * rate)))),
                                 ("rate_ok", Json.bool (decide (PhyVerif.C01.RateOK rate))),
                                 ("overflow", Json.bool (decide (PhyVerif.Fl.pow2 1024 - PhyVerif.Fl.pow2 970 ≤ defaultChunkDuration * rate))),
                                 ("env_lo", jInt (chunkSizeLo 53 rate)), ("env_hi", jInt (chunkSizeHi 53 rate)),
                                 ("product_is_double", Json.bool (PhyVerif.Fl.isDoubleB (defaultChunkDuration * rate))),
                                 ("reader", jOpt jNats (readerChunkBoundsFl sizes rate))])
      else do
        let cs ← getNat j "cs"
        pure ((cs : Int), [])
    -- the clauses that do not mention the chunk length, on the real output: every iterator pass tiles [0, n); the bounds
    -- go from 0 to n, increase strictly and contain every file boundary (`boundsOK` with the loosest gap, n)
    let itersTile ← if hasFld j "impl_iters" then do
        let its ← fld j "impl_iters" >>= asList (asList asPairN)
        pure (jList (fun iv => Json.bool (intervalsTile sizes.sum iv)) its)
      else pure Json.null
    let specNoCs ← if hasFld j "impl" then do
        let ib ← getNats j "impl"
        pure (Json.bool (boundsOK sizes sizes.sum ib && intervalsTile sizes.sum (iterChunksBase ib)))
      else pure Json.null
    let extra := extra ++ [("impl_iters_tile", itersTile), ("impl_spec_nocs", specNoCs)]
    if csI ≤ 0 then
      pure (Json.mkObj ([("model", Json.null), ("cs", jInt csI)] ++ extra))
    else
    let cs := csI.toNat
    let m := getChunkBounds sizes cs
    let spec ← if hasFld j "impl" then do
        let ib ← getNats j "impl"
        pure (Json.bool (boundsOK sizes cs ib && intervalsTile sizes.sum (iterChunksBase ib)))
      else pure Json.null
    pure (Json.mkObj ([("model", jNats m), ("cs", jNat cs), ("part_bounds", jNats (partBounds sizes)),
                      ("iter", jList jPairN (iterChunksBase m)),
                      ("model_spec", Json.bool (boundsOK sizes cs m && intervalsTile sizes.sum (iterChunksBase m))),
                      ("impl_spec", spec)] ++ extra))
  | "iter_mts" =>
    let b ← getNats j "bounds"; let bs ← getNat j "bs"
    let m := iterChunksMts bs b
    let n := b.getLast?.getD 0
    let spec ← if hasFld j "impl" then do
        let iv ← fld j "impl" >>= asList asPairN
        pure (Json.bool (intervalsTile n iv))
      else pure Json.null
    -- further passes over the same reader / passes over derived readers: each must tile [0, n)
    let itersTile ← if hasFld j "impl_iters" then do
        let its ← fld j "impl_iters" >>= asList (asList asPairN)
        pure (jList (fun iv => Json.bool (intervalsTile n iv)) its)
      else pure Json.null
    -- the chunk table itself: "n" samples compressed with chunk duration "cd" at "rate" (exact rationals);
    -- `table_spec` = the reader clause (0 -> n, strictly increasing, gaps <= chunk length) on the REAL table
    let tbl ← if hasFld j "cd" then do
        let n ← getNat j "n"
        let cd ← fld j "cd" >>= asRat; let rate ← fld j "rate" >>= asRat
        let cs := mtsChunkSizeFl cd rate
        let ex := [("table_exact_cs", jInt (mtsChunkSize cd rate)),
                   ("table_inrange", Json.bool (decide (PhyVerif.Fl.InRange (cd * rate))))]
        if cs ≤ 0 then pure ([("table_cs", jInt cs)] ++ ex) else
        pure ([("table_cs", jInt cs), ("table", jOpt jNats (mtsTable n cs.toNat)),
              ("table_spec", Json.bool (boundsOK [n] cs.toNat b))] ++ ex)
      else pure []
    pure (Json.mkObj ([("model", jList jPairN m), ("model_spec", Json.bool (intervalsTile n m)),
                      ("impl_spec", spec), ("impl_iters_tile", itersTile)] ++ tbl))
  | "chunk_size" =>
    let rate ← fld j "rate" >>= asRat
    -- `exact` = the exact-rational model (`chunkSize`), for the tally of rates on which the float product matters
    pure (Json.mkObj [("model", jInt (chunkSizeFl rate)), ("exact", jInt (chunkSize rate)),
                      ("inrange", Json.bool (decide (PhyVerif.Fl.InRange (defaultChunkDuration * rate)))),
                      ("product_is_double", Json.bool (PhyVerif.Fl.isDoubleB (defaultChunkDuration * rate)))])
  | "excerpts" =>
    let n ← getInt j "n"; let k ← getInt j "k"; let size ← getInt j "size"
    let m := excerpts n k size
    let spec ← if hasFld j "impl" then do
        let iv ← fld j "impl" >>= asList asPairI
        pure (Json.bool (excerptsOK n k size iv))
      else pure Json.null
    pure (Json.mkObj [("model", jList jPairI m), ("model_spec", Json.bool (excerptsOK n k size m)),
                      ("impl_spec", spec)])
  | "get_excerpts" =>
    let n ← getNat j "n"; let k ← getNat j "k"; let size ← getNat j "size"
    pure (Json.mkObj [("model", jNats (getExcerpts (List.range n) k size))])
  | _ => .error s!"C16: unknown op {op}"

end PhyVerif.Driver
