import PhyVerif.Driver.Json
import PhyVerif.Model.C11
import PhyVerif.Spec.C11
import PhyVerif.Model.C12
import PhyVerif.Model.C12b
import PhyVerif.Driver.C16
import PhyVerif.Model.C11e
import PhyVerif.Model.C12c
import PhyVerif.Model.C11l
namespace PhyVerif.Driver
open Lean PhyVerif

def asPairN' (j : Json) : R (Nat × Nat) := do
  let l ← asList asNat j
  match l with
  | [a, b] => pure (a, b)
  | _ => .error "pair expected"

def asPairI'' (j : Json) : R (Int × Int) := do
  let l ← asList asInt j
  match l with
  | [a, b] => pure (a, b)
  | _ => .error "pair expected"

/-- a file of the file-system model: {"k": kind, "v": value} -/
def asMFile (j : Json) : R C11.File := do
  let k ← getStr j "k"
  let v ← fld j "v"
  match k with
  | "ints" => C11.File.ints <$> asList asInt v
  | "nats" => C11.File.nats <$> asList asNat v
  | "table" => C11.File.table <$> asList (asList asNat) v
  | "pos" => C11.File.pos <$> asList asPairI'' v
  | "tmpl" => C11.File.tmpl <$> asList (asList (asList asInt)) v
  | "mat" => C11.File.mat <$> asList (asList asInt) v
  | "tsv" => C11.File.tsv <$> asList asPairN' v
  | "params" => do let p ← asPairN' v; pure (C11.File.params p.1 p.2)
  | "labels" => C11.File.labels <$> asList asStr v
  | _ => .error s!"unknown file kind {k}"

def jMFile : C11.File → Json
  | .ints v => Json.mkObj [("k", "ints"), ("v", jInts v)]
  | .nats v => Json.mkObj [("k", "nats"), ("v", jNats v)]
  | .table v => Json.mkObj [("k", "table"), ("v", jList jNats v)]
  | .pos v => Json.mkObj [("k", "pos"), ("v", jList jPairI v)]
  | .tmpl v => Json.mkObj [("k", "tmpl"), ("v", jList (jList jInts) v)]
  | .mat v => Json.mkObj [("k", "mat"), ("v", jList jInts v)]
  | .tsv v => Json.mkObj [("k", "tsv"), ("v", jList jPairN v)]
  | .params r n => Json.mkObj [("k", "params"), ("v", jNats [r, n])]
  | .labels l => Json.mkObj [("k", "labels"), ("v", jList Json.str l)]
  | .computedInv wm => Json.mkObj [("k", "computed_inv"), ("v", jOpt (jList jInts) wm)]

def jMErr : C11.MergeErr → Json
  | .noProbes => Json.mkObj [("kind", "noProbes")]
  | .notFound d n => Json.mkObj [("kind", "notFound"), ("dir", d), ("name", n)]
  | .badFile d n => Json.mkObj [("kind", "badFile"), ("dir", d), ("name", n)]
  | .zeroDim n => Json.mkObj [("kind", "zeroDim"), ("name", n)]
  | .emptyMax n => Json.mkObj [("kind", "emptyMax"), ("name", n)]
  | .shape n => Json.mkObj [("kind", "shape"), ("name", n)]
  | .ragged n => Json.mkObj [("kind", "ragged"), ("name", n)]

def asMEntry (j : Json) : R (C11.Path × C11.File) := do
  let d ← getStr j "dir"; let n ← getStr j "name"; let f ← fld j "file" >>= asMFile
  pure ((d, n), f)

/-- outcome of a merge that started on `fs`: exception, files of the output directory, frame -/
def jMergeOutcome (fs : C11.FS) (out : String) (r : (C11.FS × C11.Reg) × Option C11.MergeErr) : Json :=
  let fs' := r.1.1
  let dirs := (fs.map (·.1.1) ++ fs'.map (·.1.1)).eraseDups.filter (· != out)
  let untouched := dirs.all fun d =>
    let n0 := C11.FS.names fs d; let n1 := C11.FS.names fs' d
    n0.all (n1.contains ·) && n1.all (n0.contains ·) && n0.all fun n => C11.FS.read fs (d, n) == C11.FS.read fs' (d, n)
  Json.mkObj [
    ("error", jOpt jMErr r.2),
    ("others_untouched", Json.bool untouched),
    ("out_names", jList Json.str (C11.FS.names fs' out)),
    ("out", Json.mkObj ((C11.FS.names fs' out).filterMap fun n => (C11.FS.read fs' (out, n)).map fun f => (n, jMFile f)))]

def runC11 (op : String) (j : Json) : R Json := do
  match op with
  | "merge_fs" =>
    -- the whole `Merger(subdirs, out).merge()` on a file system: which files exist afterwards, with which
    -- contents, which exception, and whether any path outside the output directory changed
    let fs ← fld j "fs" >>= asList asMEntry
    let subdirs ← fld j "subdirs" >>= asList asStr
    let out ← getStr j "out"
    pure (jMergeOutcome fs out (C11.merge fs subdirs out))
  | "merge_fs_retry" =>
    -- `m = Merger(subdirs, out); m.merge()` on `fs` (returns or raises), the files `edits` are then put into the
    -- probe directories and `m.merge()` runs again on the SAME object (`C11.mergeRetry`: the second call starts
    -- with the registers the first one left): the outcome of the second call as for "merge_fs" (paths outside the
    -- output directory compared with the edited directories), and under "first" what the first call raised and left
    let fs ← fld j "fs" >>= asList asMEntry
    let edits ← fld j "edits" >>= asList asMEntry
    let subdirs ← fld j "subdirs" >>= asList asStr
    let out ← getStr j "out"
    let r := C11.mergeRetry fs edits subdirs out
    pure ((jMergeOutcome (C11.applyEdits fs edits) out r.2).setObjVal! "first" (Json.mkObj [
      ("error", jOpt jMErr r.1.2),
      ("out_names", jList Json.str (C11.FS.names r.1.1.1 out))]))
  | "merge_spikes" =>
    let times ← getIntss j "times"; let sc ← getNatss j "clusters"; let st ← getNatss j "templates"
    let counts ← getNats j "template_counts"
    let order := C11.spikeOrder times
    -- per file: per probe `null` (no such file) or the rows [id, token]
    let mds ← if hasFld j "mds" then fld j "mds" >>= asList (asList (asOpt (asList asPairN'))) else pure []
    pure (Json.mkObj [
      ("metadata", jList (fun md => jList jPairN (C11.mergeClusterData md sc)) mds),
      ("order", jNats order),
      ("origins", jList jPairN (C11.mergedOrigins times)),
      ("times", jInts (C11.mergedTimes times)),
      ("clusters", jNats (C11.mergedIds times sc)),
      ("templates", jNats (C11.mergedTemplateIds times st counts)),
      ("cluster_offsets", jNats (C11.idOffsets sc)),
      ("template_offsets", jNats (C11.templateOffsets st counts)),
      ("cluster_probes", jNats (C11.clusterProbes sc))])
  | _ => .error s!"C11: unknown op {op}"

def asPairI' (j : Json) : R (Int × Int) := do
  let l ← asList asInt j
  match l with
  | [a, b] => pure (a, b)
  | _ => .error "pair expected"

/-- canonical template cell of probe k: ((k*50 + t)*50 + s)*50 + c + 1 -/
def mkTemplates (k nt ns nc : Nat) : List (List (List Int)) :=
  (List.range nt).map fun t => (List.range ns).map fun s => (List.range nc).map fun c =>
    Int.ofNat (((k * 50 + t) * 50 + s) * 50 + c + 1)

def mkSquare (k n : Nat) : List (List Int) :=
  (List.range n).map fun i => (List.range n).map fun jj => Int.ofNat (k * 10000 + i * 100 + jj + 1 + (if i = jj then 100000 else 0))

def runC12 (op : String) (j : Json) : R Json := do
  match op with
  | "merge_channels" =>
    let maps ← getNatss j "maps"
    let pos ← fld j "positions" >>= asList (asList asPairI')
    let nts ← getNats j "nts"; let ns ← getNat j "ns"
    let ncs := maps.map List.length
    let toks ← getNats j "toks"
    let ts := ((nts.zip ncs).zip toks).map fun p => mkTemplates p.2 p.1.1 ns p.1.2
    let pcInd ← fld j "pc_ind" >>= asList (asList (asList asNat))
    let tfInd ← fld j "tf_ind" >>= asList (asList (asList asNat))
    let toffs ← getNats j "template_offsets"
    let stl ← if hasFld j "spike_templates" then getNatss j "spike_templates" else pure []
    -- optional matrices: per probe present / absent; the inverse whitening tokens are the whitening tokens + 500000
    let optional := fun (key : String) (ms : List (List (List Int))) => do
      let present ← if hasFld j key then fld j key >>= asList asBool else pure (ms.map fun _ => true)
      pure ((ms.zip present).map fun p => if p.2 then some p.1 else none)
    let wm ← optional "wm_present" ((ncs.zip toks).map fun p => mkSquare p.2 p.1)
    let wmi ← optional "wmi_present" ((ncs.zip toks).map fun p => (mkSquare p.2 p.1).map fun row => row.map (· + 500000))
    let sim ← optional "sim_present" ((nts.zip toks).map fun p => mkSquare p.2 p.1)
    let params ← fld j "params" >>= asList asPairN
    pure (Json.mkObj [
      ("channel_map", jNats (C12.mergeChannelMaps maps)),
      ("channel_offsets", jNats (C12.chanOffsets maps)),
      ("channel_probe", jNats (C12.channelProbes maps)),
      ("positions", jList jPairI (C12.mergePositions pos)),
      ("templates", jList (jList jInts) (C12.mergeTemplates ts)),
      ("channel_index_offsets", jNats (C12.chanIndexOffsets maps)),
      ("pc_ind", jList jNats (C12.mergePcInd maps pcInd)),
      ("tf_ind", jList jNats (if hasFld j "spike_templates" then C12.mergeTfInd stl nts tfInd else C12.shiftTables tfInd toffs)),
      ("template_offsets", jNats (C11.templateOffsets stl nts)),
      ("whitening", jOpt (jList jInts) (C12.mergeOptional wm)),
      ("whitening_inv", jOpt (jList jInts) (C12.mergeOptional wmi)),
      ("similar", jOpt (jList jInts) (C12.mergeOptional sim)),
      ("params", jOpt jPairN (C12.mergeParams params))])
  | _ => .error s!"C12: unknown op {op}"

end PhyVerif.Driver
