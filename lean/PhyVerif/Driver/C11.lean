import PhyVerif.Driver.Json
import PhyVerif.Model.C11
import PhyVerif.Spec.C11
import PhyVerif.Model.C12
import PhyVerif.Model.C12b
import PhyVerif.Driver.C16
namespace PhyVerif.Driver
open Lean PhyVerif

def asPairN' (j : Json) : R (Nat × Nat) := do
  let l ← asList asNat j
  match l with
  | [a, b] => pure (a, b)
  | _ => .error "pair expected"

def runC11 (op : String) (j : Json) : R Json := do
  match op with
  | "merge_spikes" =>
    let times ← getIntss j "times"; let sc ← getNatss j "clusters"; let st ← getNatss j "templates"
    let counts ← getNats j "template_counts"
    let order := C11.spikeOrder times
    -- per file: per probe `null` (no such file) or the rows [id, token]
    let mds ← if hasFld j "mds" then fld j "mds" >>= asList (asList (asOpt (asList asPairN'))) else pure []
    pure (Json.mkObj [
      ("metadata", jList (fun md => jList jPairN (C11.mergeClusterData md sc)) mds),
      ("order", jNats order),
      ("origins", jList jPairN (C11.mergedOrigins times)),
      ("times", jInts (C11.mergedTimes times)),
      ("clusters", jNats (C11.mergedIds times sc)),
      ("templates", jNats (C11.mergedTemplateIds times st counts)),
      ("cluster_offsets", jNats (C11.idOffsets sc)),
      ("template_offsets", jNats (C11.templateOffsets st counts)),
      ("cluster_probes", jNats (C11.clusterProbes sc))])
  | _ => .error s!"C11: unknown op {op}"

def asPairI' (j : Json) : R (Int × Int) := do
  let l ← asList asInt j
  match l with
  | [a, b] => pure (a, b)
  | _ => .error "pair expected"

/-- canonical template cell of probe k: ((k*50 + t)*50 + s)*50 + c + 1 -/
def mkTemplates (k nt ns nc : Nat) : List (List (List Int)) :=
  (List.range nt).map fun t => (List.range ns).map fun s => (List.range nc).map fun c =>
    Int.ofNat (((k * 50 + t) * 50 + s) * 50 + c + 1)

def mkSquare (k n : Nat) : List (List Int) :=
  (List.range n).map fun i => (List.range n).map fun jj => Int.ofNat (k * 10000 + i * 100 + jj + 1 + (if i = jj then 100000 else 0))

def runC12 (op : String) (j : Json) : R Json := do
  match op with
  | "merge_channels" =>
    let maps ← getNatss j "maps"
    let pos ← fld j "positions" >>= asList (asList asPairI')
    let nts ← getNats j "nts"; let ns ← getNat j "ns"
    let ncs := maps.map List.length
    let toks ← getNats j "toks"
    let ts := ((nts.zip ncs).zip toks).map fun p => mkTemplates p.2 p.1.1 ns p.1.2
    let pcInd ← fld j "pc_ind" >>= asList (asList (asList asNat))
    let tfInd ← fld j "tf_ind" >>= asList (asList (asList asNat))
    let toffs ← getNats j "template_offsets"
    let stl ← if hasFld j "spike_templates" then getNatss j "spike_templates" else pure []
    let wm := ((ncs.zip toks).map fun p => mkSquare p.2 p.1)
    let sim := ((nts.zip toks).map fun p => mkSquare p.2 p.1)
    let params ← fld j "params" >>= asList asPairN
    pure (Json.mkObj [
      ("channel_map", jNats (C12.mergeChannelMaps maps)),
      ("channel_offsets", jNats (C12.chanOffsets maps)),
      ("channel_probe", jNats (C12.channelProbes maps)),
      ("positions", jList jPairI (C12.mergePositions pos)),
      ("templates", jList (jList jInts) (C12.mergeTemplates ts)),
      ("channel_index_offsets", jNats (C12.chanIndexOffsets maps)),
      ("pc_ind", jList jNats (C12.mergePcInd maps pcInd)),
      ("tf_ind", jList jNats (if hasFld j "spike_templates" then C12.mergeTfInd stl nts tfInd else C12.shiftTables tfInd toffs)),
      ("template_offsets", jNats (C11.templateOffsets stl nts)),
      ("whitening", jList jInts (C12.blockDiag wm)),
      ("similar", jList jInts (C12.blockDiag sim)),
      ("params", jOpt jPairN (C12.mergeParams params))])
  | _ => .error s!"C12: unknown op {op}"

end PhyVerif.Driver
