import PhyVerif.Driver.Json
import PhyVerif.Driver.Rat
import PhyVerif.Driver.C16
import PhyVerif.Model.C03
import PhyVerif.Spec.C03
namespace PhyVerif.Driver
open Lean PhyVerif PhyVerif.C03

/-- recording with `dur` rows, `nch` channels, cell (r, c) = r * nch + c + 1 (0 is the padding) -/
def mkRec (dur nch : Nat) : List (List Int) :=
  (List.range dur).map fun r => (List.range nch).map fun c => Int.ofNat (r * nch + c + 1)

/-- the same recording with exact rational cells `r * nch + c + 1 + bias` (for the routes that multiply by the
unit factor) -/
def mkRecQ (dur nch : Nat) (bias : Int) : List (List Rat) :=
  (List.range dur).map fun r => (List.range nch).map fun c => ((Int.ofNat (r * nch + c + 1) + bias : Int) : Rat)

def jIMat (m : List (List Int)) : Json := jList jInts m
def jI3 (m : List (List (List Int))) : Json := jList jIMat m
def jQ3 (m : List (List (List Rat))) : Json := jList jRatMat m

/-- optional rational field (default given) -/
def getRatD (j : Json) (k : String) (d : Rat) : R Rat :=
  match j.getObjVal? k with
  | .ok v => if v.isNull then pure d else asRat v
  | .error _ => pure d

/-- a value OBSERVED on the real code (`impl_*` keys): absent when the check re-asks without the real output to
tell "the real output is outside the model's value domain" from a malformed query -/
def optFld {α} (j : Json) (k : String) (f : Json → R α) (d : α) : R α :=
  if hasFld j k then fld j k >>= f else pure d

def runC03 (op : String) (j : Json) : R Json := do
  let dur ← getNat j "dur"; let nch ← getNat j "nch"
  let A := mkRec dur nch
  let n ← getNat j "n"
  match op with
  | "extract" =>
    let spikes ← getInts j "spikes"; let ch ← getInts j "ch"
    pure (Json.mkObj [("model", jI3 (extractWaveforms A spikes n ch)),
                      ("spec", jI3 (spikes.map fun s => window A s n ch))])
  | "export" =>
    -- the exported file as it loads: windows of the biased recording times the unit factor, exactly
    let spikes ← getInts j "spikes"; let chans ← getIntss j "chans"
    let ivs ← optFld j "impl_ivs" (asList asPairN) [(0, dur)]
    let nloc ← getNat j "nloc"
    let f ← getRatD j "factor" 1; let bias := (← getOptInt j "bias").getD 0
    let AQ := mkRecQ dur nch bias
    let scale : Rat → Rat := fun x => x * f
    let file := exportWaveforms scale AQ ivs spikes chans n nloc
    pure (Json.mkObj [("model", jOpt jQ3 (npLoad file)),
                      ("spec", jQ3 ((spikes.zip chans).map fun sc => scaleW scale (window AQ sc.1 n sc.2))),
                      ("tile", Json.bool (PhyVerif.C16.intervalsTile dur ivs))])
  | "lookup" =>
    -- export -> the three store files -> load -> lookup
    let ids ← getNats j "ids"; let samples ← getInts j "samples"; let chans ← getIntss j "chans"
    let query ← getNats j "query"; let chq ← getNats j "chq"
    let ivs ← optFld j "impl_ivs" (asList asPairN) [(0, dur)]
    let nloc ← getNat j "nloc"
    let f ← getRatD j "factor" 1; let bias := (← getOptInt j "bias").getD 0
    let AQ := mkRecQ dur nch bias
    let scale : Rat → Rat := fun x => x * f
    let files : SubsetFiles Rat := ⟨ids, chans, exportWaveforms scale AQ ivs samples chans n nloc⟩
    pure (Json.mkObj [("model", jOpt jQ3 ((loadSubset files).bind fun st => getSpikeWaveforms st query chq n)),
                      ("spec", jQ3 (query.map fun q =>
                          let p := ids.idxOf q
                          lookupSpec scale AQ (samples.getD p 0) n (chans.getD p []) chq)),
                      ("tile", Json.bool (PhyVerif.C16.intervalsTile dur ivs))])
  | "subset" =>
    -- TemplateModel: save_spikes_subset_waveforms (after the selection) -> reload -> get_waveforms
    let samples ← getInts j "spike_samples"; let templates ← getNats j "spike_templates"
    let orders ← optFld j "impl_orders" (asList (asList asInt)) []
    let sel ← optFld j "impl_sel" (asList asNat) []
    let maxN ← getNat j "max_n"; let closest ← optFld j "impl_closest" asNat 0
    let query ← getNats j "query"; let chq ← getNats j "chq"
    let ivs ← optFld j "impl_ivs" (asList asPairN) [(0, dur)]
    let f ← getRatD j "factor" 1
    let AQ := mkRecQ dur nch 0
    let scale : Rat → Rat := fun x => x * f
    let nc := subsetWidth maxN closest
    let files := saveSubset scale AQ ivs samples templates orders sel n nc
    let store := loadSubset files
    let stored := query.all sel.contains
    pure (Json.mkObj [
      -- `null` = `get_waveforms` raises
      ("model", jOpt jQ3 (getWaveformsE store AQ samples query chq n)),
      ("spec", jQ3 (if stored then
          query.map fun q => lookupSpec scale AQ (samples.getD q 0) n
            (templateNChannels true (orders.getD (templates.getD q 0) []) nc) chq
        else query.map fun q => window AQ (samples.getD q 0) n (chq.map Int.ofNat))),
      ("store_ids", jNats files.spikes), ("store_channels", jIMat files.channels),
      ("loads", Json.bool store.isSome), ("nc", jNat nc), ("all_stored", Json.bool stored),
      ("tile", Json.bool (PhyVerif.C16.intervalsTile dur ivs))])
  | _ => .error s!"C03: unknown op {op}"

end PhyVerif.Driver
