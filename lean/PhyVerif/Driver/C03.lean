import PhyVerif.Driver.Json
import PhyVerif.Driver.C16
import PhyVerif.Model.C03
import PhyVerif.Spec.C03
namespace PhyVerif.Driver
open Lean PhyVerif PhyVerif.C03

/-- recording with `dur` rows, `nch` channels, cell (r, c) = r * nch + c + 1 (0 is the padding) -/
def mkRec (dur nch : Nat) : List (List Int) :=
  (List.range dur).map fun r => (List.range nch).map fun c => Int.ofNat (r * nch + c + 1)

def jIMat (m : List (List Int)) : Json := jList jInts m
def jI3 (m : List (List (List Int))) : Json := jList jIMat m

def runC03 (op : String) (j : Json) : R Json := do
  let dur ← getNat j "dur"; let nch ← getNat j "nch"
  let A := mkRec dur nch
  let n ← getNat j "n"
  match op with
  | "extract" =>
    let spikes ← getInts j "spikes"; let ch ← getInts j "ch"
    pure (Json.mkObj [("model", jI3 (extractWaveforms A spikes n ch)),
                      ("spec", jI3 (spikes.map fun s => window A s n ch))])
  | "export" =>
    let spikes ← getInts j "spikes"; let chans ← getIntss j "chans"
    let ivs ← fld j "ivs" >>= asList asPairN
    let nloc ← getNat j "nloc"
    let f := exportWaveforms (fun (x : Int) => x) A ivs spikes chans n nloc
    pure (Json.mkObj [("model", jOpt jI3 (npLoad f)),
                      ("spec", jI3 ((spikes.zip chans).map fun sc => window A sc.1 n sc.2)),
                      ("tile", Json.bool (PhyVerif.C16.intervalsTile dur ivs))])
  | "lookup" =>
    let ids ← getNats j "ids"; let samples ← getInts j "samples"; let chans ← getIntss j "chans"
    let query ← getNats j "query"; let chq ← getNats j "chq"
    let st : Store Int := ⟨ids, chans, (samples.zip chans).map fun sc => window A sc.1 n sc.2⟩
    pure (Json.mkObj [("model", jOpt jI3 (getSpikeWaveforms st query chq n)),
                      ("spec", jI3 (query.map fun q =>
                          let p := ids.idxOf q
                          let ind := chans.getD p []
                          (window A (samples.getD p 0) n (chq.map fun c =>
                              if ind.contains (Int.ofNat c) then Int.ofNat c else -1))))])
  | _ => .error s!"C03: unknown op {op}"

end PhyVerif.Driver
