import PhyVerif.Driver.Json
import PhyVerif.Model.C01
import PhyVerif.Spec.C01
namespace PhyVerif.Driver
open Lean PhyVerif PhyVerif.C01

def asItem (j : Json) : R Item := do
  if hasFld j "int" then return .int (← getInt j "int")
  if hasFld j "list" then return .list (← getInts j "list")
  match j.getObjVal? "slice" with
  | .ok v =>
    let l ← asList (asOpt asInt) v
    match l with
    | [a, b] => pure (.slice a b)
    | _ => .error "slice: [start, stop]"
  | .error _ => .error "item: int | list | slice"

def asColSel (j : Json) : R ColSel := do
  if j.isNull then return .all
  if hasFld j "idx" then return .idx (← getInts j "idx")
  match j.getObjVal? "slice" with
  | .ok v =>
    let l ← asList (asOpt asInt) v
    match l with
    | [a, b, some st] => pure (.slice a b st)
    | [a, b, none] => pure (.slice a b 1)
    | _ => .error "cols slice: [start, stop, step]"
  | .error _ => .error "cols: null | idx | slice"

/-- recording with `lens` parts, `nch` channels, cell id = row * nch + col -/
def mkParts (lens : List Nat) (nch : Nat) : List (List (List Nat)) :=
  let rec go (off : Nat) : List Nat → List (List (List Nat))
    | [] => []
    | l :: ls => ((List.range l).map fun r => (List.range nch).map fun c => (off + r) * nch + c) :: go (off + l) ls
  go 0 lens

def jMat (m : List (List Nat)) : Json := jList jNats m

def runC01 (op : String) (j : Json) : R Json := do
  match op with
  | "getitem" =>
    let lens ← getNats j "parts"; let nch ← getNat j "nch"
    let item ← fld j "item" >>= asItem
    let cols ← match j.getObjVal? "cols" with
      | .ok v => asColSel v
      | .error _ => pure ColSel.all
    let parts := mkParts lens nch
    let m := getItem parts item cols
    let sp := (npRows parts.flatten item).map fun rows => rows.map (selCols cols)
    pure (Json.mkObj [("model", jOpt jMat m), ("spec", jOpt jMat sp),
                      ("n_samples", jOpt jNat (bounds parts).getLast?),
                      ("part_bounds", jNats (bounds parts))])
  | "getitems" =>
    let lens ← getNats j "parts"; let nch ← getNat j "nch"
    let parts := mkParts lens nch
    let qs ← fld j "items" >>= asArr
    let res ← qs.mapM fun q => do
      let l ← asArr q
      match l with
      | [ji, jc] =>
        let item ← asItem ji
        let cols ← asColSel jc
        let m := getItem parts item cols
        let sp := (npRows parts.flatten item).map fun rows => rows.map (selCols cols)
        pure (Json.mkObj [("model", jOpt jMat m), ("spec", jOpt jMat sp)])
      | _ => .error "items: [[item, cols], ...]"
    pure (Json.mkObj [("res", Json.arr res.toArray),
                      ("n_samples", jOpt jNat (bounds parts).getLast?),
                      ("part_bounds", jNats (bounds parts))])
  | "memmap_rows" =>
    let fs ← getNat j "fsize"; let off ← getNat j "offset"; let isz ← getNat j "itemsize"
    let nch ← getNat j "nch"
    pure (Json.mkObj [("model", jNat (memmapRows fs off isz nch))])
  | _ => .error s!"C01: unknown op {op}"

end PhyVerif.Driver
