import PhyVerif.Driver.Json
import PhyVerif.Driver.Rat
import PhyVerif.Model.C01
import PhyVerif.Spec.C01
import PhyVerif.Model.C01b
import PhyVerif.Spec.C01b
namespace PhyVerif.Driver
open Lean PhyVerif PhyVerif.C01

def asItem (j : Json) : R Item := do
  if hasFld j "int" then return .int (← getInt j "int")
  if hasFld j "list" then return .list (← getInts j "list")
  match j.getObjVal? "slice" with
  | .ok v =>
    let l ← asList (asOpt asInt) v
    match l with
    | [a, b] => pure (.slice a b)
    | _ => .error "slice: [start, stop]"
  | .error _ => .error "item: int | list | slice"

def asColSel (j : Json) : R ColSel := do
  if j.isNull then return .all
  if hasFld j "idx" then return .idx (← getInts j "idx")
  match j.getObjVal? "slice" with
  | .ok v =>
    let l ← asList (asOpt asInt) v
    match l with
    | [a, b, some st] => pure (.slice a b st)
    | [a, b, none] => pure (.slice a b 1)
    | _ => .error "cols slice: [start, stop, step]"
  | .error _ => .error "cols: null | idx | slice"

/-- recording with `lens` parts, `nch` channels, cell id = row * nch + col -/
def mkParts (lens : List Nat) (nch : Nat) : List (List (List Nat)) :=
  let rec go (off : Nat) : List Nat → List (List (List Nat))
    | [] => []
    | l :: ls => ((List.range l).map fun r => (List.range nch).map fun c => (off + r) * nch + c) :: go (off + l) ls
  go 0 lens

def jMat (m : List (List Nat)) : Json := jList jNats m

/-- the recording handed to `get_ephys_reader`, as the harness observed it: `parts` (rows per file), `nch`,
and per backend the file sizes in bytes / the `.ch` metadata; cell id = row * nch + col -/
def asSource (j : Json) : R (Source (List Nat)) := do
  let be ← getStr j "backend"
  let lens ← getNats j "parts"; let nch ← getNat j "nch"
  let dtype ← getStr j "dtype"
  let rate ← fld j "rate" >>= asRat
  let parts := mkParts lens nch
  let arrs := parts.map fun p => ({ rows := p, ncols := nch, dtype := dtype } : Arr (List Nat))
  match be with
  | "flat" =>
    let fs ← getNats j "fsizes"
    if fs.length ≠ parts.length then .error "fsizes: one size per part" else
    pure (.flat (List.zipWith (fun f p => ⟨f, p⟩) fs parts) (← getNat j "offset") (← getNat j "itemsize")
      nch dtype rate)
  | "array" =>
    match arrs with
    | [a] => pure (.array a rate)
    | _ => .error "array: one part"
  | "npy" => pure (.npy arrs rate)
  | "cbin" =>
    let tables ← getNatss j "tables"
    if tables.length ≠ parts.length then .error "tables: one chunk table per part" else
    pure (.cbin (List.zipWith (fun t p => (({ nChannels := nch, dtype := dtype, rate := rate, chunkBounds := t } : CMeta), p))
      tables parts))
  | _ => .error s!"backend {be}"

def jBackend : Backend → Json
  | .flat => "flat" | .array => "array" | .npy => "npy" | .cbin => "cbin"

def jShape (p : Nat × Nat) : Json := Json.arr #[jNat p.1, jNat p.2]

def jOutcome : Outcome (List (List Nat)) → Json
  | .ok m => jMat m
  | .refused => Json.str "refused"
  | .raised => Json.null

def runC01b (j : Json) : R Json := do
  let src ← asSource j
  let qs ← fld j "items" >>= asArr
  let rd := build src
  let A := src.concat
  let res ← qs.mapM fun q => do
    let l ← asArr q
    -- [item, cols] or [item, cols, [c1, c2, ...]]: the index applied to the derived reader reader[:, c1][:, c2]...
    let (ji, jc, pre) ← match l with
      | [ji, jc] => pure (ji, jc, ([] : List ColSel))
      | [ji, jc, jp] => do
        let pre ← asList asColSel jp
        pure (ji, jc, pre)
      | _ => .error "items: [[item, cols] | [item, cols, [pre...]], ...]"
    let item ← asItem ji
    let cols ← asColSel jc
    let ops := pre ++ [cols]
    let m := match rd with
      | some r => jOutcome (if pre.isEmpty then getItemB r item cols else getItemOps r item ops)
      | none => Json.null
    let sp := (npRows A item).map fun rows => rows.map (applyCols ops)
    pure (Json.mkObj [("model", m), ("spec", jOpt jMat sp)])
  let attrs := match rd with
    | none => Json.null
    | some r => Json.mkObj [("backend", jBackend r.backend), ("n_samples", jOpt jNat r.nSamples),
        ("shape", jOpt jShape r.shape), ("n_channels", jNat r.nChannels), ("dtype", Json.str r.dtype),
        ("duration", jOpt jRat r.duration), ("part_bounds", jNats r.partBounds),
        ("chunk_bounds", jNats r.chunkBounds)]
  let n := A.length
  let spec := Json.mkObj [("backend", jBackend src.backend), ("n_samples", jNat n),
    ("shape", jShape (n, src.width)), ("n_channels", jNat src.width), ("dtype", Json.str src.dtype),
    ("duration", if src.rate = 0 then Json.null else jRat ((n : Rat) / src.rate))]
  -- `rate_ok`: the rate condition of `SrcOK` (`RateOK`: the constructor accepts the rate and the float product is in
  -- the range `Fl.roundDouble` models); `cs_fl` / `cs_exact`: chunk length from the float / the exact product (tally)
  pure (Json.mkObj [("res", Json.arr res.toArray), ("attrs", attrs), ("spec_attrs", spec),
    ("rate_ok", Json.bool src.rateOK), ("cs_fl", jInt (PhyVerif.C16.chunkSizeFl src.rate)),
    ("cs_exact", jInt (PhyVerif.C16.chunkSize src.rate))])

def runC01 (op : String) (j : Json) : R Json := do
  match op with
  | "reader" => runC01b j
  | _ => .error s!"C01: unknown op {op}"

end PhyVerif.Driver
