import PhyVerif.Driver.Json
import PhyVerif.Model.C19
import PhyVerif.Spec.C19
namespace PhyVerif.Driver
open Lean PhyVerif.C19

def asOptNat (j : Json) (k : String) : R (Option Nat) :=
  match j.getObjVal? k with
  | .ok v => asOpt asNat v
  | .error _ => pure none

def asUItem (j : Json) : R UItem := do
  if hasFld j "cb" then return .cb (← getNat j "cb")
  return .obj (← getNat j "obj")

def asEOp (j : Json) : R EOp := do
  let k ← getStr j "k"
  match k with
  | "connect" =>
    -- `fname` = func.__name__, `event` = the explicit `event=` argument (null when absent)
    let ev ← match j.getObjVal? "event" with
      | .ok v => asOpt asStr v
      | .error _ => pure none
    pure (.connect ⟨← getStr j "fname", ev, ← asOptNat j "sender", ← getNat j "id", ← asOptNat j "owner",
                    ← getBool j "last"⟩)
  | "unconnect" => pure (.unconnect (← fld j "items" >>= asList asUItem))
  | "reset" => pure .reset
  | "set_silent" => pure (.setSilent (← getBool j "b"))
  | "enter" => pure .enterSilent
  | "exit" => pure .exitSilent
  | "emit" =>
    let kw ← fld j "kwargs" >>= asList fun e => do
      let p ← asArr e
      match p with
      | [k, v] => do pure (← asStr k, ← asNat v)
      | _ => .error "kwargs entry"
    pure (.emit (← getStr j "event") (← getNat j "sender") (← getNats j "args") kw)
  | _ => .error s!"emitter op {k}"

def jRet : Ret → Json
  | .none => Json.null
  | .list l => jNats l
  | .one r => Json.mkObj [("one", jNat r)]

def jCall (c : Call) : Json :=
  Json.arr #[jNat c.id, jNat c.sender, jNats c.args,
             jList (fun (p : String × Nat) => Json.arr #[Json.str p.1, jNat p.2]) c.kwargs]

def jEOut (o : EOut) : Json := Json.mkObj [("calls", jList jCall o.calls), ("ret", jRet o.ret)]

def jCb (c : Cb) : Json :=
  Json.arr #[Json.str c.event, jOpt jNat c.sender, jNat c.id, jOpt jNat c.owner, Json.bool c.last]

def jREv : REv → Json
  | .progress v m => Json.arr #[Json.str "p", jInt v, jInt m]
  | .complete => Json.arr #[Json.str "c"]

/-- kinds of a list of events as one string ("p", "pc", "") -/
def kinds (l : List REv) : String :=
  String.join (l.map fun | .progress _ _ => "p" | .complete => "c")

def asROp (j : Json) : R ROp := do
  let k ← getStr j "k"
  match k with
  | "inc" => pure .increment
  | "set" => pure (.setValue (← getInt j "v"))
  | "max" => pure (.setMax (← getInt j "m"))
  | "complete" => pure .setComplete
  | "reset" => pure (.reset (← getOptInt j "m"))
  | _ => .error s!"reporter op {k}"

def asRObs (j : Json) : R RObs := do
  pure ⟨← getBool j "vu", ← getBool j "vs", ← getInt j "value", ← getInt j "max_before", ← getInt j "max",
        ← getBool j "announced"⟩

def runC19 (op : String) (j : Json) : R Json := do
  match op with
  | "emitter" =>
    let ops ← fld j "ops" >>= asList asEOp
    -- `spec` is the specification for every history (`emit_outcomes_forward`: registered callbacks read off
    -- the history by `registeredFwd`, silencing by `silencedAfter`); callbacks behave as the harness's
    -- recording stubs (`stubResult`).  `reg` = the callback list at the end (`state_registered`), `rets` =
    -- what each connect returned (`connect_returns_registered`)
    pure (Json.mkObj [("model", jList jEOut (erun stubResult EState.init ops)),
                      ("spec", jList jEOut (emitsSpecF stubResult [] ops)),
                      ("silent", Json.bool (erunState stubResult EState.init ops).silent),
                      ("silent_spec", Json.bool (silencedAfter ops)),
                      ("reg", jList jCb (erunState stubResult EState.init ops).cbs),
                      ("reg_spec", jList jCb (registeredFwd ops)),
                      ("rets", jList (jOpt jNat) (connectRets ops))])
  | "connect_name" =>
    -- event name a `connect(func)` derives from `func.__name__` (null = ValueError)
    let names ← fld j "names" >>= asList asStr
    pure (Json.mkObj [("events", jList (jOpt Json.str) (names.map getOnName))])
  | "reporter" =>
    let ops ← fld j "ops" >>= asList asROp
    let tr := rrun RState.init ops
    let msgs := hasFld j "msgs"
    let implOK ← if hasFld j "impl" then do
        let obs ← fld j "impl" >>= asList asRObs
        pure (Json.bool (announceOK [] obs))
      else pure Json.null
    pure (Json.mkObj [
      ("model", jList (fun (t : RState × ROp × RState × ROut) =>
          Json.mkObj ([("progress", jOpt jPairI t.2.2.2.progress), ("complete", Json.bool t.2.2.2.complete),
                      ("value", jInt t.2.2.1.value), ("max", jInt t.2.2.1.max),
                      ("ic", Json.bool (isComplete t.2.2.1)),
                      ("fr", jOpt jPairI (progressFrac t.2.2.1)),
                      ("ev", Json.str (kinds t.2.2.2.events))] ++
                     -- the messages of a reporter that has them (`msgs` in the query)
                     (if msgs then [("printed", jList jREv t.2.2.2.printed)] else []))) tr),
      ("model_spec", Json.bool (announceOK [] (tr.map obsOf))),
      ("impl_spec", implOK)])
  | _ => .error s!"C19: unknown op {op}"

end PhyVerif.Driver
