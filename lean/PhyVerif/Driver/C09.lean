import PhyVerif.Driver.Rat
import PhyVerif.Model.C09
import PhyVerif.Spec.C09
namespace PhyVerif.Driver
open Lean PhyVerif PhyVerif.C09

partial def runC09 (op : String) (j : Json) : R Json := do
  match op with
  | "multi" =>
    let qs ← fld j "qs" >>= asArr
    let res ← qs.mapM fun q => do
      let o ← getStr q "op"
      runC09 o q
    pure (Json.mkObj [("res", Json.arr res.toArray)])
  | "amps" =>
    let wfs ← getRat3 j "wfs"; let wmi ← getRatMat j "wmi"
    let amps ← getRats j "amplitudes"; let spikes ← getNats j "spikes"
    let d : Data := ⟨wfs, wmi, amps, spikes⟩
    pure (Json.mkObj [
      ("amps_au", jRats (ampsAu d)),
      ("spike_amps", jRats (spikeAmps d)),
      ("amps_v", jList (jOpt jRat) (ampsV d)),
      ("amps_v_spec", jList (jOpt jRat) ((List.range wfs.length).map (meanOver spikes (spikeAmps d)))),
      ("rescaled", jList (jOpt jRatMat) (rescaled d)),
      ("rescaled_peak", jList (jOpt jRat) ((rescaled d).map fun o => o.map fun W => listMax (chAmps W)))])
  | "mean_amps" =>
    let ids ← getNats j "ids"; let amps ← getRats j "amplitudes"
    pure (Json.mkObj [("model", jList (fun (p : Nat × Rat) => Json.arr #[jNat p.1, jRat p.2]) (meanAmps ids amps))])
  | "channels" =>
    let wfs ← getRat3 j "wfs"
    pure (Json.mkObj [("peak", jNats (peakChannels wfs)), ("durations", jInts (durations wfs))])
  | "depths" =>
    let feat0 ← getRatMat j "feat0"; let cols ← getNatss j "cols"; let ys ← getRats j "ys"
    let st ← getNats j "spike_templates"
    pure (Json.mkObj [("model", jList (jOpt jRat) (depths feat0 cols ys st))])
  | _ => .error s!"C09: unknown op {op}"

end PhyVerif.Driver
