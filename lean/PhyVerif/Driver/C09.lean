import PhyVerif.Driver.Rat
import PhyVerif.Model.C09
import PhyVerif.Model.C09b
import PhyVerif.Spec.C09
import PhyVerif.Spec.C09b
import PhyVerif.Model.C09c
import PhyVerif.Spec.C09c
namespace PhyVerif.Driver
open Lean PhyVerif PhyVerif.C09

def getRat (j : Json) (k : String) : R Rat := fld j k >>= asRat

/-- harness aid (NOT part of the model): the channels whose exact peak-to-peak amplitude is within a relative
`2⁻⁴⁰` of the largest one.  Cluster waveforms of curated datasets are floating-point weighted means; there the
rounding of `max - min` may break an exact near-tie either way, so any of these channels is accepted as the
reported peak channel (and the duration is then checked on the reported channel). -/
def nearPeaks (W : Mat) : List Nat :=
  let a := chAmps W
  let m := listMax a
  (a.zipIdx.filter fun p => decide (m ≤ p.1 * (1 + 1 / 1099511627776))).map (·.2)

/-- harness aid (NOT part of the model), real-valued datasets: the channels whose exact peak-to-peak amplitude is within
the ABSOLUTE distance `eps` of the largest one (float32 subtraction in the real code: `eps` = 1e-5 × the largest
magnitude of the array, chosen by the harness).  With `eps = 0`: the channels that tie exactly. -/
def nearPeaksAbs (W : Mat) (eps : Rat) : List Nat :=
  let a := chAmps W
  let m := listMax a
  (a.zipIdx.filter fun p => decide (m - p.1 ≤ eps)).map (·.2)

/-- harness aid: `durTable` in milliseconds (entry `[t][j]`: duration of waveform `t` measured on channel `j`) -/
def durTableMs (wfs : List Mat) (rate : Rat) : List (List Rat) :=
  (durTable wfs).map fun row => row.map fun (d : Int) => (d : Rat) / rate * 1000


/-- JSON of the three return values of `get_amplitudes_true` on `d` (plus the self-check of `ampsVUnit_eq_mean`) -/
def ampsJson (d : Data) (f : Rat) : Json :=
  let (sa, resc, av) := amplitudesTrue d f
  Json.mkObj [
    ("amps_au", jRats (ampsAu d)),
    ("spike_amps", jRats sa),
    ("amps_v", jList (jOpt jRat) av),
    ("amps_v_spec", jList (jOpt jRat) ((List.range d.wfsW.length).map (meanOver d.spikes sa))),
    ("rescaled", jList (jOpt jRatMat) resc),
    ("rescaled_peak", jList (jOpt jRat) (resc.map fun o => o.map fun W => listMax (chAmps W)))]

/-- JSON of peak channels / durations of a waveform array -/
def channelsJson (wfs : List Mat) (rate : Rat) : Json :=
  Json.mkObj [("peak", jNats (peakChannels wfs)), ("durations", jInts (durations wfs)),
    -- `_waveform_durations` in milliseconds (flat-index route) and, as a self-check of the theorem
    -- `duration_ms_spec`, the same from the per-waveform formula
    ("durations_ms", jRats (waveformDurations wfs rate)),
    ("durations_ms_spec", jRats ((durations wfs).map fun (d : Int) => (d : Rat) * 1000 / rate)),
    ("near_peaks", jList jNats (wfs.map nearPeaks)),
    ("dur_table_ms", jRatMat (durTableMs wfs rate))]

/-- everything `summaries` reports about one id space, computed from the STORED arrays by `Model/C09c`
(`summariesUse`: the arrays are selected once); the remaining fields are harness aids and self-checks of theorems -/
def useJson (s : Stored) (clusters : Bool) (f rate eps : Rat) : Json :=
  let r := summariesUse s clusters f rate
  let a := r.1
  let d : Data := ⟨a.1, s.wmi, s.amplitudes, a.2.1⟩
  let durs := durations a.1
  Json.mkObj [
    ("wfs", jList jRatMat a.1), ("spikes", jNats a.2.1), ("n_wav", jNat a.2.2),
    ("id_count", jNat (idCount s clusters)),
    -- ids of the space that do not occur in the stored assignment (`ampsUse_spec`: exactly the NaN entries)
    ("no_spikes", jNats ((List.range (idCount s clusters)).filter fun t => !(assignment s clusters).contains t)),
    ("amps", match r.2.1 with
      | none => Json.null
      | some (sa, resc, av) => Json.mkObj [
          ("amps_au", jRats (ampsAu d)),
          ("spike_amps", jRats sa),
          ("amps_v", jList (jOpt jRat) av),
          ("amps_v_spec", jList (jOpt jRat) ((List.range a.1.length).map (meanOver a.2.1 sa))),
          ("rescaled", jList (jOpt jRatMat) resc),
          ("rescaled_peak", jList (jOpt jRat) (resc.map fun o => o.map fun W => listMax (chAmps W)))]),
    ("channels", Json.mkObj [
      ("peak", jNats r.2.2.1),
      ("durations_ms", jRats r.2.2.2),
      ("durations_ms_spec", jRats (durs.map fun (x : Int) => (x : Rat) * 1000 / rate)),
      ("near_peaks", jList jNats (a.1.map nearPeaks)),
      ("near_peaks_abs", jList jNats (a.1.map fun W => nearPeaksAbs W eps)),
      ("dur_table_ms", jRatMat (durTableMs a.1 rate))])]

partial def runC09 (op : String) (j : Json) : R Json := do
  match op with
  | "multi" =>
    let qs ← fld j "qs" >>= asArr
    let res ← qs.mapM fun q => do
      let o ← getStr q "op"
      runC09 o q
    pure (Json.mkObj [("res", Json.arr res.toArray)])
  | "amps" =>
    let wfs ← getRat3 j "wfs"; let wmi ← getRatMat j "wmi"
    let amps ← getRats j "amplitudes"; let spikes ← getNats j "spikes"
    let f ← getRat j "factor"
    -- the three RETURN VALUES of `get_amplitudes_true(sample2unit=f)`: the unit factor is applied by the model
    pure (ampsJson ⟨wfs, wmi, amps, spikes⟩ f)
  | "summaries" =>
    -- both id spaces from the STORED arrays: which waveforms / assignment / number of ids `use=` selects is decided
    -- by the model (`useArrays`, through `C08.loadClusters`), not read back from the loaded object
    let W ← getRat3 j "templates"; let chans ← getNatss j "chans"
    let st ← getNats j "st"; let sc ← getNats j "sc"
    let ns ← getNat j "ns"; let nc ← getNat j "nc"
    let wmi ← getRatMat j "wmi"; let amps ← getRats j "amplitudes"
    let f ← getRat j "factor"; let rate ← getRat j "rate"
    let probes ← getInts j "probes"
    let eps ← (if hasFld j "eps" then getRat j "eps" else pure 0)
    let s : Stored := ⟨W, chans, st, sc, ns, nc, wmi, amps⟩
    let unw ← (if hasFld j "wm" then do
        let wm ← getRatMat j "wm"
        pure (Json.bool (decide (Unwhitens wm wmi nc)))
      else pure Json.null)
    pure (Json.mkObj [
      ("templates", useJson s false f rate eps), ("clusters", useJson s true f rate eps),
      ("templates_probes", jInts (templatesProbes probes W)),
      ("templates_amplitudes", jRats (amplitudesVec st amps)),
      ("clusters_amplitudes", jRats (amplitudesVec sc amps)),
      ("templates_present", jNats (Np.unique (st.map Int.ofNat))),
      ("clusters_present", jNats (Np.unique (sc.map Int.ofNat))),
      ("unwhitens", unw)])
  | "peak_amps" =>
    -- peak amplitude (largest channel peak-to-peak, `peakAmp_spec`) of waveforms given by the caller — the harness
    -- sends the REAL rescaled waveforms
    let wfs ← getRat3 j "wfs"
    pure (Json.mkObj [("peaks", jRats (wfs.map fun W => listMax (chAmps W)))])
  | "mean_amps" =>
    let ids ← getNats j "ids"; let amps ← getRats j "amplitudes"
    pure (Json.mkObj [("model", jList (fun (p : Nat × Rat) => Json.arr #[jNat p.1, jRat p.2]) (meanAmps ids amps))])
  | "channels" =>
    let wfs ← getRat3 j "wfs"
    let rate ← getRat j "rate"
    pure (channelsJson wfs rate)
  | "depths" =>
    let feat0 ← getRatMat j "feat0"; let cols ← getNatss j "cols"; let ys ← getRats j "ys"
    let st ← getNats j "spike_templates"
    pure (Json.mkObj [("model", jList (jOpt jRat) (depths feat0 cols ys st))])
  | _ => .error s!"C09: unknown op {op}"

end PhyVerif.Driver
