import PhyVerif.Driver.Rat
import PhyVerif.Model.C09
import PhyVerif.Model.C09b
import PhyVerif.Spec.C09
import PhyVerif.Spec.C09b
namespace PhyVerif.Driver
open Lean PhyVerif PhyVerif.C09

def getRat (j : Json) (k : String) : R Rat := fld j k >>= asRat

/-- harness aid (NOT part of the model): the channels whose exact peak-to-peak amplitude is within a relative
`2⁻⁴⁰` of the largest one.  Cluster waveforms of curated datasets are floating-point weighted means; there the
rounding of `max - min` may break an exact near-tie either way, so any of these channels is accepted as the
reported peak channel (and the duration is then checked on the reported channel). -/
def nearPeaks (W : Mat) : List Nat :=
  let a := chAmps W
  let m := listMax a
  (a.zipIdx.filter fun p => decide (m ≤ p.1 * (1 + 1 / 1099511627776))).map (·.2)

/-- harness aid: `durTable` in milliseconds (entry `[t][j]`: duration of waveform `t` measured on channel `j`) -/
def durTableMs (wfs : List Mat) (rate : Rat) : List (List Rat) :=
  (durTable wfs).map fun row => row.map fun (d : Int) => (d : Rat) / rate * 1000

partial def runC09 (op : String) (j : Json) : R Json := do
  match op with
  | "multi" =>
    let qs ← fld j "qs" >>= asArr
    let res ← qs.mapM fun q => do
      let o ← getStr q "op"
      runC09 o q
    pure (Json.mkObj [("res", Json.arr res.toArray)])
  | "amps" =>
    let wfs ← getRat3 j "wfs"; let wmi ← getRatMat j "wmi"
    let amps ← getRats j "amplitudes"; let spikes ← getNats j "spikes"
    let f ← getRat j "factor"
    let d : Data := ⟨wfs, wmi, amps, spikes⟩
    -- the three RETURN VALUES of `get_amplitudes_true(sample2unit=f)`: the unit factor is applied by the model
    let (sa, resc, av) := amplitudesTrue d f
    pure (Json.mkObj [
      ("amps_au", jRats (ampsAu d)),
      ("spike_amps", jRats sa),
      ("amps_v", jList (jOpt jRat) av),
      ("amps_v_spec", jList (jOpt jRat) ((List.range wfs.length).map (meanOver spikes sa))),
      ("rescaled", jList (jOpt jRatMat) resc),
      ("rescaled_peak", jList (jOpt jRat) (resc.map fun o => o.map fun W => listMax (chAmps W)))])
  | "peak_amps" =>
    -- peak amplitude (largest channel peak-to-peak, `peakAmp_spec`) of waveforms given by the caller — the harness
    -- sends the REAL rescaled waveforms
    let wfs ← getRat3 j "wfs"
    pure (Json.mkObj [("peaks", jRats (wfs.map fun W => listMax (chAmps W)))])
  | "mean_amps" =>
    let ids ← getNats j "ids"; let amps ← getRats j "amplitudes"
    pure (Json.mkObj [("model", jList (fun (p : Nat × Rat) => Json.arr #[jNat p.1, jRat p.2]) (meanAmps ids amps))])
  | "channels" =>
    let wfs ← getRat3 j "wfs"
    let rate ← getRat j "rate"
    pure (Json.mkObj [("peak", jNats (peakChannels wfs)), ("durations", jInts (durations wfs)),
      -- `_waveform_durations` in milliseconds (flat-index route) and, as a self-check of the theorem
      -- `duration_ms_spec`, the same from the per-waveform formula
      ("durations_ms", jRats (waveformDurations wfs rate)),
      ("durations_ms_spec", jRats ((durations wfs).map fun (d : Int) => (d : Rat) * 1000 / rate)),
      ("near_peaks", jList jNats (wfs.map nearPeaks)),
      ("dur_table_ms", jRatMat (durTableMs wfs rate))])
  | "depths" =>
    let feat0 ← getRatMat j "feat0"; let cols ← getNatss j "cols"; let ys ← getRats j "ys"
    let st ← getNats j "spike_templates"
    pure (Json.mkObj [("model", jList (jOpt jRat) (depths feat0 cols ys st))])
  | _ => .error s!"C09: unknown op {op}"

end PhyVerif.Driver
