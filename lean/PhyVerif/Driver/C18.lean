import PhyVerif.Driver.Json
import PhyVerif.Model.C18
import PhyVerif.Model.C18c
import PhyVerif.Model.C18p
import PhyVerif.Spec.C18
import PhyVerif.Spec.C18c
import PhyVerif.Model.C18j
import PhyVerif.Spec.C18j
namespace PhyVerif.Driver
open Lean PhyVerif.C18

mutual
partial def asPV (j : Json) : R PV := do
  let t ← getStr j "t"
  match t with
  | "none" => pure .none
  | "bool" => pure (.bool (← getBool j "v"))
  | "int" => pure (.int (← getInt j "v"))
  | "float" => pure (.float (← getNat j "v"))
  | "str" => pure (.str (← getStr j "v"))
  | "np" => pure (.npScalar (← getInt j "v"))
  | "npx" => pure (.npExotic (← getStr j "dtype") (← getInt j "v"))
  | "arr" => pure (.arr (← getStr j "dtype") (← getNats j "shape") (← getInts j "strides") (← getInt j "offset")
                        (← getInts j "mem"))
  | "list" => do
    let l ← fld j "v" >>= asArr
    asPVList l
  | "dict" => do
    let l ← fld j "v" >>= asArr
    asPVDict l
  | _ => .error s!"PV tag {t}"
partial def asPVList (l : List Json) : R PV := do
  let vs ← l.mapM asPV
  pure (.list (vs.foldr (fun h t => .cons h t) .nil))
partial def asPVDict (l : List Json) : R PV := do
  let kvs ← l.mapM fun e => do
    let p ← asArr e
    match p with
    | [k, v] => do pure (← asStr k, ← asPV v)
    | _ => .error "dict entry"
  pure (.dict (kvs.foldr (fun kv t => .cons kv.1 kv.2 t) .nil))
end

mutual
partial def jPV : PV → Json
  | .none => Json.mkObj [("t", "none")]
  | .bool b => Json.mkObj [("t", "bool"), ("v", Json.bool b)]
  | .int i => Json.mkObj [("t", "int"), ("v", jInt i)]
  | .float f => Json.mkObj [("t", "float"), ("v", jNat f)]
  | .str s => Json.mkObj [("t", "str"), ("v", Json.str s)]
  | .npScalar i => Json.mkObj [("t", "np"), ("v", jInt i)]
  | .npExotic d i => Json.mkObj [("t", "npx"), ("dtype", Json.str d), ("v", jInt i)]
  | .arr d sh st off mem =>
    -- `items`: the elements in row-major order (for an array that came back: its buffer)
    Json.mkObj [("t", "arr"), ("dtype", Json.str d), ("shape", jNats sh), ("strides", jInts st),
                ("offset", jInt off), ("items", jInts (gather mem sh st off))]
  | .payload d it => Json.mkObj [("t", "payload"), ("dtype", Json.str d), ("items", jInts it)]
  | .list l => Json.mkObj [("t", "list"), ("v", Json.arr (jPVList l).toArray)]
  | .dict kv => Json.mkObj [("t", "dict"), ("v", Json.arr (jPVDict kv).toArray)]
partial def jPVList : PVList → List Json
  | .nil => []
  | .cons h t => jPV h :: jPVList t
partial def jPVDict : PVDict → List Json
  | .nil => []
  | .cons k v t => Json.arr #[Json.str k, jPV v] :: jPVDict t
end

def asKey (j : Json) : R Key := do
  if hasFld j "int" then return .int (← getInt j "int")
  return .str (← getStr j "str")

def jKey : Key → Json
  | .int i => Json.mkObj [("int", jInt i)]
  | .str s => Json.mkObj [("str", Json.str s)]

def asCell (j : Json) : R Cell := do
  if hasFld j "int" then return .int (← getInt j "int")
  if hasFld j "float" then return .float (← getNat j "float")
  return .text (← getStr j "text")

def jCell : Cell → Json
  | .int i => Json.mkObj [("int", jInt i)]
  | .float f => Json.mkObj [("float", jNat f)]
  | .text s => Json.mkObj [("text", Json.str s)]

/-- canonical renderer of abstract cells (used by the C10 driver): floats are `F<token>`, text cells start
with `T` -/
def renderCell : Cell → String
  | .int i => s!"I{i}"
  | .float f => s!"F{f}"
  | .text s => "T" ++ s

def jNum : Num → Json
  | .int i => Json.mkObj [("int", jInt i)]
  | .float neg m e => Json.mkObj [("float", Json.arr #[Json.bool neg, jNat m, jInt e])]
  | .inf neg => Json.mkObj [("inf", Json.bool neg)]
  | .nan => Json.mkObj [("nan", Json.bool true)]
  | .text s => Json.mkObj [("text", Json.str s)]

/-- a cell handed to `write_tsv`: {"int": i} | {"float": [neg, m, e]} (the double ±m·2^e) | {"text": s} -/
def asWCell (j : Json) : R WCell := do
  if hasFld j "int" then return .int (← getInt j "int")
  if hasFld j "float" then
    let a ← fld j "float" >>= asArr
    match a with
    | [n, m, e] => return .float ⟨← asBool n, ← asNat m, ← asInt e⟩
    | _ => .error "float cell"
  return .text (← getStr j "text")

/-- a value of a two-column table: {"int": i} | {"lit": repr(x)} | {"text": s} -/
def asSVal (j : Json) : R SVal := do
  if hasFld j "int" then return .int (← getInt j "int")
  if hasFld j "lit" then return .float (← getStr j "lit")
  return .text (← getStr j "text")

def jRowsNum (rows : List (List (String × Num))) : Json :=
  jList (jList fun (fc : String × Num) => Json.arr #[Json.str fc.1, jNum fc.2]) rows

def jSimple (r : Option (String × List (Int × Num))) : Json :=
  match r with
  | none => Json.null
  | some (f, d) => Json.mkObj [("field", Json.str f),
      ("data", jList (fun (p : Int × Num) => Json.arr #[jInt p.1, jNum p.2]) d)]

def jMeta (r : Option (List (String × List (Num × Num)))) : Json :=
  jOpt (jList fun (fd : String × List (Num × Num)) =>
    Json.arr #[Json.str fd.1, jList (fun (p : Num × Num) => Json.arr #[jNum p.1, jNum p.2]) fd.2]) r

def optText (j : Json) (k : String) : R (Option String) :=
  match j.getObjVal? k with
  | .ok v => asOpt asStr v
  | .error _ => pure none

/-- a parameter value: null | {"bool": b} | {"int": i} | {"lit": repr(x)} | {"str": s} -/
def asPScalar (j : Json) : R PScalar := do
  if j.isNull then return .none
  if hasFld j "bool" then return .bool (← getBool j "bool")
  if hasFld j "int" then return .int (← getInt j "int")
  if hasFld j "lit" then return .float (← getStr j "lit")
  return .str (← getStr j "str")

def asPVal (j : Json) : R PVal := do
  if hasFld j "list" then return .list (← fld j "list" >>= asList asPScalar)
  if hasFld j "tuple" then return .tuple (← fld j "tuple" >>= asList asPScalar)
  return .scalar (← asPScalar j)

def jPScalar : PScalar → Json
  | .none => Json.null
  | .bool b => Json.mkObj [("bool", Json.bool b)]
  | .int i => Json.mkObj [("int", jInt i)]
  | .float lit => Json.mkObj [("lit", Json.str lit)]
  | .str s => Json.mkObj [("str", Json.str s)]

def jPVal : PVal → Json
  | .scalar a => jPScalar a
  | .list l => Json.mkObj [("list", jList jPScalar l)]
  | .tuple l => Json.mkObj [("tuple", jList jPScalar l)]

def jParams (d : Option (List (String × PVal))) : Json :=
  jOpt (jList fun (kv : String × PVal) => Json.arr #[Json.str kv.1, jPVal kv.2]) d

/-- `save_json` then `load_json` on one top-level dictionary given as `[[key, value], ...]` -/
def jsonRoundTrip (dict : Json) : R Json := do
  let entries ← asArr dict
  let d ← entries.mapM fun e => do
    let p ← asArr e
    match p with
    | [k, v] => do pure (← asKey k, ← asPV v)
    | _ => .error "entry"
  let rt := roundTrip d
  pure (Json.mkObj [("model", jList (fun (kv : Key × PV) => Json.arr #[jKey kv.1, jPV kv.2]) rt),
                    ("spec", jList (fun (kv : Key × PV) => Json.arr #[jKey kv.1, jPV (canon kv.2)]) d)])

def runC18 (op : String) (j : Json) : R Json := do
  match op with
  | "params" =>
    -- `write_python` then `read_python` on file texts
    let dJ ← fld j "data" >>= asArr
    let d ← dJ.mapM fun e => do
      let p ← asArr e
      match p with
      | [k, v] => do pure (← asStr k, ← asPVal v)
      | _ => .error "entry"
    let real ← optText j "impl_text"
    let text := writePython d
    pure (Json.mkObj [("text", Json.str (String.ofList text)),
                      ("back", jParams (readPython text)),
                      ("expected", jParams (some (d.map fun kv => (kv.1.toLower, kv.2)))),
                      ("real_parsed", jOpt (fun (t : String) => jParams (readPython t.toList)) real)])
  | "number" =>
    -- `_try_make_number` on each string
    let ss ← fld j "strings" >>= asList asStr
    pure (Json.mkObj [("values", jList jNum (ss.map tryMakeNumber))])
  | "uniclass" =>
    -- the tables of `pyNorm` over ALL non-ASCII code points: [code point, digit value] and the white space
    let cps := (List.range 1114112).filter fun n => 128 ≤ n && !(55296 ≤ n && n ≤ 57343)
    let digits := cps.filterMap fun n => (uniDigitVal (Char.ofNat n)).map fun d => Json.arr #[jNat n, jNat d]
    let spaces := cps.filter fun n => isUniSpace (Char.ofNat n)
    pure (Json.mkObj [("digits", Json.arr digits.toArray), ("spaces", jNats spaces)])
  | "csv" =>
    -- the csv transport alone: records -> text -> records; the real writer's text through the model reader
    let rows ← fld j "rows" >>= asList (asList asStr)
    let d := delimOf (← getBool j "tsv")
    let text := csvWrite d (rows.map fun r => r.map String.toList)
    let real ← optText j "impl_text"
    pure (Json.mkObj [("text", Json.str (String.ofList text)),
                      ("back", jList (jList Json.str) ((csvRead d text).map fun r => r.map String.ofList)),
                      ("real_parsed", jOpt (fun (t : String) => jList (jList Json.str)
                          ((csvRead d t.toList).map fun r => r.map String.ofList)) real)])
  | "table" =>
    -- `write_tsv` then `read_tsv` on file texts
    let rowsJ ← fld j "rows" >>= asArr
    let rows ← rowsJ.mapM fun r => do
      let cells ← asArr r
      cells.mapM fun c => do
        let p ← asArr c
        match p with
        | [f, v] => do pure (← asStr f, ← asWCell v)
        | _ => .error "cell"
    let first ← optText j "first"
    let isTsv ← getBool j "tsv"
    let real ← optText j "impl_text"
    -- `n_significant_figures` (default 4)
    let n := match j.getObjVal? "nsf" with
      | .ok v => (v.getNat?.toOption).getD 4
      | .error _ => 4
    match writeTsv (renderW n) rows first, writeTsvFile isTsv (renderW n) rows first with
    | some file, some text =>
      pure (Json.mkObj [("header", jList Json.str file.1),
                        ("text", Json.str (String.ofList text)),
                        ("back", jOpt jRowsNum (readTsvFile tryMakeNumber text)),
                        ("expected", jRowsNum (expectedRows file.1 (rows.map fun r => r.map fun fc => (fc.1, obsW n fc.2)))),
                        ("real_parsed", jOpt (fun (t : String) => jOpt jRowsNum (readTsvFile tryMakeNumber t.toList)) real),
                        ("real_header", jOpt (fun (t : String) =>
                            let lines := fileLines t.toList
                            jList Json.str (((lines.map (csvParseLine (sniff lines))).headD []).map String.ofList)) real)])
    | _, _ => pure (Json.mkObj [("header", Json.null)])
  | "simple" =>
    let dataJ ← fld j "data" >>= asArr
    let data ← dataJ.mapM fun e => do
      let p ← asArr e
      match p with
      | [i, v] => do pure (← asInt i, ← asSVal v)
      | _ => .error "entry"
    let field ← getStr j "field"
    let isTsv ← getBool j "tsv"
    let real ← optText j "impl_text"
    let text := writeTsvSimple isTsv field data
    pure (Json.mkObj [("text", Json.str (String.ofList text)),
                      ("back", jSimple (readTsvSimple text)),
                      ("expected", jSimple (some (field, (sortById data).map fun p => (p.1, obsS p.2)))),
                      ("real_parsed", jOpt (fun (t : String) => jSimple (readTsvSimple t.toList)) real),
                      -- the written file after blank lines were inserted (between rows / at the end), through the model reader
                      ("edited_parsed", jOpt (fun (t : String) => jSimple (readTsvSimple t.toList)) (← optText j "impl_edited")),
                      -- the same file through `load_metadata` (cluster-table reader + regrouping)
                      ("meta", jMeta (loadMetadata text)),
                      ("meta_expected", jMeta (some (if data = [] then [] else
                          [(field, (sortById data).map fun p => (Num.int p.1, obsS p.2))])))])
  | "json" => do jsonRoundTrip (← fld j "dict")
  | "json_many" =>
    -- several dictionaries saved and loaded one after the other by ONE process of the real code (a child process
    -- running under another locale): one answer per dictionary
    let ds ← fld j "dicts" >>= asArr
    pure (Json.mkObj [("results", Json.arr (← ds.mapM jsonRoundTrip).toArray)])
  | "jsonstr" =>
    -- the text layer of strings (Model/C18j): for each str (code points) the literal `save_json` writes, the
    -- scanner on it (followed by the end of a one-entry file), the same through an ASCII-encoded file, the codecs;
    -- `impl_bodies`: the text the REAL code wrote after the opening quote of the value, through the model scanner
    let ss ← fld j "strings" >>= asList (asList asNat)
    let bodies ← match j.getObjVal? "impl_bodies" with
      | .ok v => asList (asOpt (asList asNat)) v
      | .error _ => pure (ss.map fun _ => none)
    let jScan (r : Option (PyStr × List Nat)) : Json := jOpt (fun p => Json.arr #[jNats p.1, jNats p.2]) r
    pure (Json.mkObj [("results", jList (fun (sb : PyStr × Option (List Nat)) =>
      let s := sb.1
      Json.mkObj [("literal", jNats (strLiteral s)),
                  ("scanned", jScan (scan (escapeStr s ++ [34, 10, 125]))),
                  ("via_ascii_file", jScan (strViaAsciiFile s)),
                  ("ascii", jOpt jNats (strictAscii (strLiteral s))),
                  ("utf8_ok", Json.bool (strictUtf8Ok (strLiteral s))),
                  ("raw_ascii_ok", Json.bool (strictAscii s).isSome),
                  ("raw_utf8_ok", Json.bool (strictUtf8Ok s)),
                  ("valid", Json.bool (decide (ValidStr s))),
                  ("nojoin", Json.bool (decide (NoJoin s))),
                  ("real_scanned", jOpt jScan (sb.2.map scan))]) (ss.zip bodies))])
  | _ => .error s!"C18: unknown op {op}"

end PhyVerif.Driver
