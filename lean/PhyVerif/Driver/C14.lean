import PhyVerif.Driver.Rat
import PhyVerif.Driver.C05
import PhyVerif.Model.C14
import PhyVerif.Spec.C14
namespace PhyVerif.Driver
open Lean PhyVerif PhyVerif.C14

def runC14 (op : String) (j : Json) : R Json := do
  match op with
  | "rawind" =>
    let maps ← getNatss j "maps"
    let cm := C12.mergeChannelMaps maps
    let pr := C12.channelProbes maps
    pure (Json.mkObj [("merged_map", jNats cm), ("probes", jNats pr), ("model", jInts (exportRawInd cm pr)),
                      ("spec", jInts (maps.flatten.map Int.ofNat))])
  | "rawind_direct" =>
    let cm ← getNats j "cm"; let pr ← getNats j "probes"
    pure (Json.mkObj [("model", jInts (exportRawInd cm pr))])
  | "nearest" =>
    let pos ← fld j "positions" >>= asList asPos
    let pr ← getNats j "probes"; let peaks ← getNats j "peaks"; let ncw ← getNat j "ncw"
    let impl ← optField j "impl" (asList (asList asNat))
    let model := peaks.map fun pk => nearestSameProbe pos pr pk ncw
    pure (Json.mkObj [("model", jList jNats model),
                      ("model_spec", Json.bool ((peaks.zip model).all fun p => nearestOK pos pr p.1 ncw p.2)),
                      ("impl_spec", match impl with
                        | some rows => Json.bool ((peaks.zip rows).all fun p => nearestOK pos pr p.1 ncw p.2)
                        | none => Json.null)])
  | "depths" =>
    let ys ← getRats j "ys"; let peaks ← getNats j "peaks"; let nan ← getNats j "nan_idx"
    let sc ← getNats j "spike_clusters"
    let cd := clusterDepths ys peaks nan
    pure (Json.mkObj [("cluster_depths", jList (jOpt jRat) cd),
                      ("spike_depths", jList (jOpt jRat) (spikeDepthsFromClusters cd sc))])
  | _ => .error s!"C14: unknown op {op}"

end PhyVerif.Driver
