import PhyVerif.Driver.Rat
import PhyVerif.Driver.C05
import PhyVerif.Driver.C09
import PhyVerif.Model.C14
import PhyVerif.Spec.C14
namespace PhyVerif.Driver
open Lean PhyVerif PhyVerif.C14 PhyVerif.C09

def runC14 (op : String) (j : Json) : R Json := do
  match op with
  | "rawind" =>
    let maps ← getNatss j "maps"
    let cm := C12.mergeChannelMaps maps
    let pr := C12.channelProbes maps
    pure (Json.mkObj [("merged_map", jNats cm), ("probes", jNats pr), ("model", jInts (exportRawInd cm pr)),
                      ("spec", jInts (maps.flatten.map Int.ofNat)),
                      -- theorem `merged_probes_ordered`: a merged table is in channel-map order and its per-probe
                      -- re-expression is each probe's original map
                      ("ordered", Json.bool (probesOrdered cm pr)), ("per_probe", jInts (perProbeRawInd cm pr))])
  | "rawind_direct" =>
    let cm ← getNats j "cm"; let pr ← getNats j "probes"
    let m := exportRawInd cm pr
    -- `ordered`: the class of probe tables for which a per-probe raw index is claimed (Spec `probesOrdered`)
    -- `per_probe`: the closed form the statement's words give (Spec `perProbeRawInd`, theorem `rawInd_per_probe`):
    -- raw index − (largest raw index of the previous probe + 1); `probe_max`: (label, largest raw index) per label in use
    pure (Json.mkObj [("model", jInts m), ("ordered", Json.bool (probesOrdered cm pr)),
                      ("nonneg", Json.bool (m.all fun x => decide (0 ≤ x))),
                      ("per_probe", jInts (perProbeRawInd cm pr)),
                      ("probe_max", jList (fun q => Json.arr #[toJson q, toJson (probeMaxRaw cm pr q)]) (uniqueNat pr))])
  | "nearest" =>
    let pos ← fld j "positions" >>= asList asPos
    let pr ← getNats j "probes"; let peaks ← getNats j "peaks"; let ncw ← getNat j "ncw"
    let impl ← optField j "impl" (asList (asList asNat))
    let model := peaks.map fun pk => nearestSameProbe pos pr pk ncw
    -- `wfs` (the stored waveforms, sent where they are exact rationals): the EXPORTED table of the model,
    -- `exportListedChannels` = rows of the model's OWN peak channels (theorem `listed_channels_of_waveform`);
    -- `listed_impl_spec`: the real rows are admissible rows of THOSE peak channels (not of peaks handed in)
    let listed : Option (List (List Nat)) ← if hasFld j "wfs" then (do
        pure (some (exportListedChannels (← getRat3 j "wfs") pos pr ncw))) else pure none
    let mpeaks : List Nat ← if hasFld j "wfs" then (do pure (peakChannels (← getRat3 j "wfs"))) else pure []
    pure (Json.mkObj [("model", jList jNats model),
                      ("listed", match listed with | some l => jList jNats l | none => Json.null),
                      ("listed_spec", match listed with
                        | some l => Json.bool (l.length == mpeaks.length &&
                            (mpeaks.zip l).all fun p => nearestOK pos pr p.1 ncw p.2)
                        | none => Json.null),
                      ("listed_impl_spec", match listed, impl with
                        | some _, some rows => Json.bool (rows.length == mpeaks.length &&
                            (mpeaks.zip rows).all fun p => nearestOK pos pr p.1 ncw p.2)
                        | _, _ => Json.null),
                      ("model_spec", Json.bool ((peaks.zip model).all fun p => nearestOK pos pr p.1 ncw p.2)),
                      ("impl_spec", match impl with
                        | some rows => Json.bool (rows.length == peaks.length &&
                            (peaks.zip rows).all fun p => nearestOK pos pr p.1 ncw p.2)
                        | none => Json.null),
                      -- theorem `nearestOK_peak_first`: with pairwise distinct positions the first listed channel IS the peak
                      ("impl_peak_first", match impl with
                        | some rows => Json.bool (ncw == 0 || !(pos.eraseDups.length == pos.length) ||
                            (peaks.zip rows).all fun p => p.2.head? == some p.1)
                        | none => Json.null)])
  | "depths" =>
    -- make_depths: WHICH ids are blanked is computed here from the spike assignment (`spikelessIds`), never handed in;
    -- `peaks` = the exported clusters.channels table; `feat0`/`cols` = the stored feature arrays when the dataset has
    -- any (one row of `feat0` per STORED spike: fewer rows than spikes -> get_depths() is None -> cluster depths)
    let ys ← getRats j "ys"; let peaks ← getNats j "peaks"
    let sc ← getNats j "spike_clusters"; let st ← getNats j "spike_templates"
    let fe : Option Feats ← if hasFld j "feat0" then (do
        pure (some ⟨← getRatMat j "feat0", ← getNatss j "cols"⟩)) else pure none
    pure (Json.mkObj [("cluster_depths", jList (jOpt jRat) (exportClusterDepths ys peaks sc)),
                      ("spike_depths", jList (jOpt jRat) (exportSpikeDepths fe ys peaks st sc)),
                      ("blanked", jNats (spikelessIds peaks.length sc)),
                      ("from_features", Json.bool (getDepths fe ys st).isSome)])
  | "amp_files" =>
    -- value side of make_template_and_spikes_objects: both calls of get_amplitudes_true with the unit factor and the
    -- gather of the listed channels (the tables `inds_*` are the rows the real export wrote, validated by `nearest`)
    let wmi ← getRatMat j "wmi"; let amps ← getRats j "amplitudes"; let f ← getRat j "factor"
    let dT : Data := ⟨← getRat3 j "templates", wmi, amps, ← getNats j "spike_templates"⟩
    let dC : Data := ⟨← getRat3 j "clusters_wfs", wmi, amps, ← getNats j "spike_clusters"⟩
    -- `impl_*`: rows read from the real export (absent when the check re-asks without the real output)
    let indsT := (← optField j "impl_inds_t" (asList (asList asNat))).getD []
    let indsC := (← optField j "impl_inds_c" (asList (asList asNat))).getD []
    -- `exportAmpFilesOnce` = `exportAmpFiles` (theorem `exportAmpFilesOnce_eq`, by `rfl`): the per-id amplitude table is
    -- evaluated once instead of once per spike (long recordings)
    let e := exportAmpFilesOnce dT dC f indsT indsC
    pure (Json.mkObj [("spikes_amps", jRats e.spikesAmps),
                      ("templates_amps", jList (jOpt jRat) e.templatesAmps),
                      ("templates_waveforms", jList (jOpt jRatMat) e.templatesWaveforms),
                      ("clusters_amps", jList (jOpt jRat) e.clustersAmps),
                      ("clusters_waveforms", jList (jOpt jRatMat) e.clustersWaveforms)])
  | "ptt" =>
    let wfs ← getRat3 j "wfs"; let rate ← getRat j "rate"
    let sc ← getNats j "spike_clusters"; let st ← getNats j "spike_templates"
    -- model.nan_idx is COMPUTED (C08 model on the stored assignments), never handed in
    let nan := modelNanIdx st sc
    pure (Json.mkObj [("peak", jNats (peakChannels wfs)),
                      ("ptt", jList (jOpt jRat) (exportDurations wfs rate st sc)),
                      -- harness aids for floating-point cluster waveforms (see Driver/C09 `nearPeaks`): admissible peak
                      -- channels, and the NaN-masked duration measured on every channel
                      ("near_peaks", jList jNats (wfs.map nearPeaks)),
                      ("ptt_table", jList (jList (jOpt jRat)) ((durTableMs wfs rate).zipIdx.map fun p =>
                        p.1.map fun x => if nan.contains p.2 then none else some x))])
  | _ => .error s!"C14: unknown op {op}"

end PhyVerif.Driver
