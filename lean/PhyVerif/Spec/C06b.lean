import PhyVerif.Model.C06b
/-! What the PCA route must return, entry by entry. -/
namespace PhyVerif.C06
open PhyVerif

/-- the sample the store holds for spike `q` at time `t` on channel `c`: zero when the channel row of
the spike does not list `c` -/
def storedSample (sw : WStore) (q t c : Nat) : Rat :=
  let r := sw.spikeIds.idxOf q
  let ind := sw.channels.getD r []
  if ind.contains (Int.ofNat c) then ((sw.waveforms.getD r []).getD t []).getD (ind.idxOf (Int.ofNat c)) 0
  else 0

/-- the `(nsw, nc)` waveform of a stored spike on the requested channels -/
def storedWave (sw : WStore) (nsw : Nat) (chans : List Nat) (q : Nat) : Wav :=
  (List.range nsw).map fun t => chans.map fun c => storedSample sw q t c

/-- the block of waveforms the components are computed from: the requested spikes that are stored, in
increasing id order -/
def pcaBlock (sw : WStore) (nsw : Nat) (spikeIds chans : List Nat) : List Wav :=
  (intersect1d spikeIds sw.spikeIds).map (storedWave sw nsw chans)

/-- projection of spike `q`'s waveform on requested channel number `j` (channel `c`) onto component
`k`: `Σ_t waveform[q, t, c] · pcs[k, t, j]` -/
def projection (sw : WStore) (nsw : Nat) (pcs : List Wav) (q c j k : Nat) : Rat :=
  ((List.range nsw).map fun t => ((pcs.getD k []).getD t []).getD j 0 * storedSample sw q t c).sum

/-- a channel row of the store: entries ≥ −1, the real (non-negative) ones distinct -/
def RowOK (ind : List Int) : Prop := (∀ v ∈ ind, -1 ≤ v) ∧ (ind.filter (0 ≤ ·)).Nodup

/-- well-formed waveform store: distinct spike ids, one channel row and one `(nsw, row width)` block
per stored spike -/
def WStoreOK (sw : WStore) (nsw : Nat) : Prop :=
  sw.spikeIds.Nodup ∧ sw.channels.length = sw.spikeIds.length ∧
  sw.waveforms.length = sw.spikeIds.length ∧ (∀ ind ∈ sw.channels, RowOK ind) ∧
  ∀ p ∈ sw.waveforms.zip sw.channels, p.1.length = nsw ∧ ∀ row ∈ p.1, row.length = p.2.length

end PhyVerif.C06
