import PhyVerif.Model.C03
import PhyVerif.Spec.C16
/-! The zero-padded raw window: the single object every route of C03 must return. -/
namespace PhyVerif.C03
open PhyVerif

variable {α : Type} [Zero α]

/-- rows `[s - n/2, s - n/2 + n)` of the recording on the listed channels, zeros for rows
outside the recording and for channels given as −1 -/
def window (A : List (List α)) (s : Int) (n : Nat) (ch : List Int) : List (List α) :=
  (List.range n).map fun (i : Nat) =>
    let r : Int := s - (n / 2 : Nat) + i
    ch.map fun c =>
      if 0 ≤ r ∧ r < (A.length : Int) ∧ c ≠ -1 then (A.getD r.toNat []).getD c.toNat 0 else 0

/-- cell (row `i`, channel `c`) of that window -/
def wcell (A : List (List α)) (s : Int) (n : Nat) (i : Nat) (c : Int) : α :=
  let r : Int := s - (n / 2 : Nat) + i
  if 0 ≤ r ∧ r < (A.length : Int) ∧ c ≠ -1 then (A.getD r.toNat []).getD c.toNat 0 else 0

theorem window_eq_wcell (A : List (List α)) (s : Int) (n : Nat) (ch : List Int) :
    window A s n ch = (List.range n).map fun i => ch.map (wcell A s n i) := rfl

/-- what the store route has to return for one query spike whose sample is `s` and whose stored channel row
is `stored`: the unit factor times the raw window on every query channel the store holds for the spike, zeros
on the query channels it does not hold -/
def lookupSpec (scale : α → α) (A : List (List α)) (s : Int) (n : Nat) (stored : List Int) (chq : List Nat) :
    List (List α) :=
  (List.range n).map fun i => chq.map fun (c : Nat) =>
    if stored.contains (Int.ofNat c) then scale (wcell A s n i (Int.ofNat c)) else 0

/-- cell-wise unit scaling of one waveform -/
def scaleW (scale : α → α) (w : List (List α)) : List (List α) := w.map fun row => row.map scale

/-- the recording is rectangular with `nch` channels -/
def Rect (A : List (List α)) (nch : Nat) : Prop := ∀ row ∈ A, row.length = nch

/-- channel lists in scope: −1 or a valid channel -/
def ChOK (nch : Nat) (ch : List Int) : Prop := ∀ c ∈ ch, c = -1 ∨ (0 ≤ c ∧ c < nch)

end PhyVerif.C03
