import PhyVerif.Model.C03
import PhyVerif.Spec.C16
/-! The zero-padded raw window: the single object every route of C03 must return. -/
namespace PhyVerif.C03
open PhyVerif

variable {α : Type} [Zero α]

/-- rows `[s - n/2, s - n/2 + n)` of the recording on the listed channels, zeros for rows
outside the recording and for channels given as −1 -/
def window (A : List (List α)) (s : Int) (n : Nat) (ch : List Int) : List (List α) :=
  (List.range n).map fun (i : Nat) =>
    let r : Int := s - (n / 2 : Nat) + i
    ch.map fun c =>
      if 0 ≤ r ∧ r < (A.length : Int) ∧ c ≠ -1 then (A.getD r.toNat []).getD c.toNat 0 else 0

/-- the recording is rectangular with `nch` channels -/
def Rect (A : List (List α)) (nch : Nat) : Prop := ∀ row ∈ A, row.length = nch

/-- channel lists in scope: −1 or a valid channel -/
def ChOK (nch : Nat) (ch : List Int) : Prop := ∀ c ∈ ch, c = -1 ∨ (0 ≤ c ∧ c < nch)

end PhyVerif.C03
