import PhyVerif.Model.C18j
/-! Value domain of the strings of C18 (text layer of the JSON file). -/
namespace PhyVerif.C18

/-- every item is a code point of a Python `str` (`0 .. 0x10FFFF`; lone surrogates are allowed) -/
def ValidStr (s : PyStr) : Prop := ∀ c ∈ s, c < 1114112

instance (s : PyStr) : Decidable (ValidStr s) := by unfold ValidStr; infer_instance

/-- is the first code point a low surrogate? -/
def headLow : PyStr → Bool
  | c :: _ => isLow c
  | [] => false

/-- no high surrogate is DIRECTLY followed by a low surrogate.  (Such a two-item `str` is written as
`\ud83e\udde0`, which is also what the one astral character U+1F9E0 is written as: `json.loads` returns
the astral character, in the `json` library itself — see `Props.json_string_joined_example`.  Text decoded
from bytes never contains such a pair; PEP 383 file names only contain U+DC80..U+DCFF.) -/
def NoJoin : PyStr → Prop
  | [] => True
  | c :: s => (isHigh c = true → headLow s = false) ∧ NoJoin s

instance : (s : PyStr) → Decidable (NoJoin s)
  | [] => by unfold NoJoin; infer_instance
  | c :: s => by
    unfold NoJoin
    have := instDecidableNoJoin s
    infer_instance

end PhyVerif.C18
