import PhyVerif.Model.C08
/-! Specification of C08. -/
namespace PhyVerif.C08
open PhyVerif PhyVerif.C09

/-- the templates the spikes of cluster `c` came from: sorted, distinct -/
def templatesOf (st sc : List Nat) (c : Nat) : List Nat :=
  Np.unique (((st.zip sc).filter fun p => p.2 == c).map fun p => Int.ofNat p.1)

/-- number of spikes of cluster `c` stemming from template `t` -/
def countOf (st sc : List Nat) (t c : Nat) : Nat :=
  ((st.zip sc).filter fun p => p.1 == t && p.2 == c).length

/-- the spike-count-weighted mean at (sample s, channel ch) of the templates of cluster `c`, each
restricted to its own channel list -/
def weightedMean (W : List Mat) (chans : List (List Nat)) (st sc : List Nat) (c s ch : Nat) : Rat :=
  let ts := templatesOf st sc c
  ((ts.map fun t => (countOf st sc t c : Rat) *
      (if (chans.getD t []).contains ch then ((W.getD t []).getD s []).getD ch 0 else 0)).sum) /
    ((ts.map fun t => countOf st sc t c).sum : Nat)

end PhyVerif.C08
