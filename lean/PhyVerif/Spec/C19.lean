import PhyVerif.Model.C19
/-! Specification side of C19, written independently of the emitter's and reporter's state. -/
namespace PhyVerif.C19

/-- callbacks registered after a history: successful connects in order, minus what unconnect/reset
removed (a `connect` that raises `ValueError` registers nothing) -/
def registered : List EOp → List Cb
  | [] => []
  | ops =>
    ops.foldl (fun acc op =>
      match op with
      | .connect r => (match connectCb r with | some c => acc ++ [c] | none => acc)
      | .unconnect items => acc.filter (keeps items)
      | .reset => []
      | _ => acc) []

/-- Does `unconnect(*items)` hit the registration `c`?  Read item by item (and not field by field as
the code's filter does): a callback item hits the registrations of that callback (Python `==`: a bound method
`obj.on_x` evaluated again is equal to the registered one); an object item hits the registrations filtered
on that sender and those whose callback is a bound method of that object. -/
def hits (items : List UItem) (c : Cb) : Bool :=
  items.any fun it =>
    match it with
    | .cb i => i == c.id
    | .obj o => c.sender == some o || c.owner == some o

/-- is a registration `c` still there after the operations `later` that follow its `connect`?  It is, unless
a `reset` or an `unconnect` hitting it comes later -/
def survives (c : Cb) (later : List EOp) : Bool :=
  later.all fun op =>
    match op with
    | .reset => false
    | .unconnect items => !hits items c
    | _ => true

/-- "the currently registered callbacks", written without any state and independently of the code's filter:
a `connect` of the history contributes its registration (in history order) exactly when it did not raise and
survives everything after it -/
def registeredFwd : List EOp → List Cb
  | [] => []
  | .connect r :: later =>
    (match connectCb r with
     | some c => if survives c later then [c] else []
     | none => []) ++ registeredFwd later
  | _ :: later => registeredFwd later

/-- the callbacks an emit must call, in order: registered for the event, sender filter absent or
equal, registration order with `last` ones after all others -/
def shouldCall (reg : List Cb) (event : String) (sender : Nat) : List Nat :=
  let m := reg.filter fun c => c.event == event &&
    (match c.sender with | none => true | some s => s == sender)
  ((m.filter fun c => !c.last) ++ (m.filter fun c => c.last)).map (·.id)

/-- what the callbacks must receive: the emit's keyword arguments without the `single` entry -/
def forwarded (kw : Kwargs) : Kwargs := kw.filter fun p => p.1 != "single"

/-- is a single result requested?  (`single=<truthy>` among the keyword arguments) -/
def wantsSingle (kw : Kwargs) : Bool :=
  match kw.lookup "single" with
  | some v => v != 0
  | none => false

/-- expected outcome of an un-silenced emit: each callback of `shouldCall` is invoked once with
(sender, args, forwarded kwargs); the returned list holds the callbacks' results in that order;
with `single` only the first callback is invoked and its result is returned bare -/
def emitSpec (result : Call → Nat) (reg : List Cb) (event : String) (sender : Nat) (args : List Nat)
    (kw : Kwargs) : EOut :=
  let calls := (shouldCall reg event sender).map fun i => (⟨i, sender, args, forwarded kw⟩ : Call)
  if wantsSingle kw then
    match calls with
    | [] => ⟨[], .list []⟩
    | c :: _ => ⟨[c], .one (result c)⟩
  else ⟨calls, .list (calls.map result)⟩

/-- nesting depth of open `silent()` contexts after a history (exits without a matching enter are
ignored) and the flag given by the last `set_silent` -/
def depthFlag : List EOp → Nat × Bool
  | ops => ops.foldl (fun (df : Nat × Bool) op =>
      match op with
      | .enterSilent => (df.1 + 1, df.2)
      | .exitSilent => (df.1 - 1, df.2)
      | .setSilent b => (df.1, b)
      | _ => df) (0, false)

/-- histories in scope of `emit_outcomes`: `set_silent` is only used outside `silent()` contexts,
exits match enters -/
def WellNested : List EOp → Nat → Prop
  | [], _ => True
  | .enterSilent :: ops, d => WellNested ops (d + 1)
  | .exitSilent :: ops, d => 0 < d ∧ WellNested ops (d - 1)
  | .setSilent _ :: ops, d => d = 0 ∧ WellNested ops d
  | _ :: ops, d => WellNested ops d

/-- the only restriction Python itself imposes: a `silent()` context can be left only after it has
been entered (`d` = contexts open so far).  `set_silent` may occur anywhere. -/
def ExitsMatched : List EOp → Nat → Prop
  | [], _ => True
  | .enterSilent :: ops, d => ExitsMatched ops (d + 1)
  | .exitSilent :: ops, d => 0 < d ∧ ExitsMatched ops (d - 1)
  | _ :: ops, d => ExitsMatched ops d

/-- The silence flag after a history, read off the history BACKWARDS (`rev` = most recent operation
first), without any state: the flag is what the most recent assignment gave it — `set_silent(b)`
assigns `b`, entering a context assigns True, leaving a context assigns the value the flag had just
before the matching enter.  `k` = number of enters still to be skipped while looking for that
matching enter (`k = 0`: looking for the most recent assignment). -/
def silentBack : List EOp → Nat → Bool
  | [], _ => false
  | op :: r, 0 =>
    match op with
    | .setSilent b => b
    | .enterSilent => true
    | .exitSilent => silentBack r 1
    | _ => silentBack r 0
  | op :: r, k + 1 =>
    match op with
    | .enterSilent => silentBack r k
    | .exitSilent => silentBack r (k + 2)
    | _ => silentBack r (k + 1)

/-- is the emitter silenced after the history `pre`? -/
def silencedAfter (pre : List EOp) : Bool := silentBack pre.reverse 0

/-- expected outcomes of all emits of a history: for each emit, look at the prefix before it
(histories satisfying `WellNested`) -/
def emitsSpec (result : Call → Nat) (pre : List EOp) : List EOp → List EOut
  | [] => []
  | .emit e s a kw :: ops =>
    let df := depthFlag pre
    (if df.1 > 0 || df.2 then ⟨[], .none⟩ else emitSpec result (registered pre) e s a kw) ::
      emitsSpec result (pre ++ [.emit e s a kw]) ops
  | op :: ops => emitsSpec result (pre ++ [op]) ops

/-- expected outcomes of all emits of ANY history (only `ExitsMatched` is assumed): silencing is
decided by `silencedAfter` -/
def emitsSpecG (result : Call → Nat) (pre : List EOp) : List EOp → List EOut
  | [] => []
  | .emit e s a kw :: ops =>
    (if silencedAfter pre then ⟨[], .none⟩ else emitSpec result (registered pre) e s a kw) ::
      emitsSpecG result (pre ++ [.emit e s a kw]) ops
  | op :: ops => emitsSpecG result (pre ++ [op]) ops

/-- expected outcomes of all emits of ANY history, with "the currently registered callbacks" read off the
history by `registeredFwd` (no fold, no use of the code's filter) and silencing by `silencedAfter` -/
def emitsSpecF (result : Call → Nat) (pre : List EOp) : List EOp → List EOut
  | [] => []
  | .emit e s a kw :: ops =>
    (if silencedAfter pre then ⟨[], .none⟩ else emitSpec result (registeredFwd pre) e s a kw) ::
      emitsSpecF result (pre ++ [.emit e s a kw]) ops
  | op :: ops => emitsSpecF result (pre ++ [op]) ops

/-- The behaviour of the recording stubs the correspondence run registers as callbacks (and of the
non-vacuity examples): a stub answers a number made of its identity, the sender it was handed and the
number of positional arguments it received.  The theorems hold for every behaviour. -/
def stubResult (c : Call) : Nat := 1000 * c.id + 10 * c.sender + c.args.length

/-! ### reporter -/

/-- one observed step of a reporter history: what the operation did to value/max and whether a
completion was announced -/
structure RObs where
  valueUpdate : Bool        -- increment / set value / set_complete
  valueSet : Bool           -- the value was assigned (value updates and reset)
  value : Int               -- value after the step
  maxBefore : Int
  max : Int                 -- maximum after the step
  announced : Bool
deriving Repr, DecidableEq

/-- "a completion has been announced since the value was last set below the maximum or the maximum
was last raised": scan the observed history backwards (most recent first) -/
def announcedSince : List RObs → Bool
  | [] => false
  | o :: earlier =>
    if o.announced then true
    else if (o.valueSet && decide (o.value < o.max)) || decide (o.max > o.maxBefore) then false
    else announcedSince earlier

/-- the announcement rule for one step given the observed history before it (most recent first):
a completion is announced exactly when a value update reaches the maximum and none has been
announced since …  Note that a value update below the maximum is itself a "set below". -/
def shouldAnnounce (before : List RObs) (valueUpdate : Bool) (value max : Int) : Bool :=
  valueUpdate && decide (value ≥ max) && !(announcedSince before)

/-- check a whole observed history (oldest first) against the rule -/
def announceOK : List RObs → List RObs → Bool
  | _, [] => true
  | before, o :: rest =>
    (o.announced == shouldAnnounce before o.valueUpdate o.value o.maxBefore) &&
      announceOK (o :: before) rest

def obsOf (t : RState × ROp × RState × ROut) : RObs :=
  let (s, op, s', out) := t
  let vu := match op with | .increment | .setValue _ | .setComplete => true | _ => false
  let vs := match op with | .setMax _ => false | _ => true
  ⟨vu, vs, s'.value, s.max, s'.max, out.complete⟩

/-- the value an operation hands to `_set_value` in the state `pre` (event.py:263-289: `increment`, the `value` setter,
`set_complete`); `none`: the operation does not call `_set_value` (`value_max` setter, `reset`) -/
def valueSet (pre : RState) : ROp → Option Int
  | .increment => some (pre.value + 1)
  | .setValue v => some v
  | .setComplete => some pre.max
  | .setMax _ => none
  | .reset _ => none

end PhyVerif.C19
