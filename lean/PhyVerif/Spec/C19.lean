import PhyVerif.Model.C19
/-! Specification side of C19, written independently of the emitter's and reporter's state. -/
namespace PhyVerif.C19

/-- callbacks registered after a history: connects in order, minus what unconnect/reset removed -/
def registered : List EOp → List Cb
  | [] => []
  | ops =>
    ops.foldl (fun acc op =>
      match op with
      | .connect c => acc ++ [c]
      | .unconnect items => acc.filter (keeps items)
      | .reset => []
      | _ => acc) []

/-- the callbacks an emit must call, in order: registered for the event, sender filter absent or
equal, registration order with `last` ones after all others -/
def shouldCall (reg : List Cb) (event sender : Nat) : List Nat :=
  let m := reg.filter fun c => c.event == event &&
    (match c.sender with | none => true | some s => s == sender)
  ((m.filter fun c => !c.last) ++ (m.filter fun c => c.last)).map (·.id)

/-- expected outcome of an un-silenced emit -/
def emitSpec (reg : List Cb) (event sender : Nat) (single : Bool) : EOut :=
  let ids := shouldCall reg event sender
  if single then
    match ids with
    | [] => ⟨[], .list []⟩
    | i :: _ => ⟨[i], .one i⟩
  else ⟨ids, .list ids⟩

/-- nesting depth of open `silent()` contexts after a history (exits without a matching enter are
ignored) and the flag given by the last `set_silent` -/
def depthFlag : List EOp → Nat × Bool
  | ops => ops.foldl (fun (df : Nat × Bool) op =>
      match op with
      | .enterSilent => (df.1 + 1, df.2)
      | .exitSilent => (df.1 - 1, df.2)
      | .setSilent b => (df.1, b)
      | _ => df) (0, false)

/-- histories in scope: `set_silent` is only used outside `silent()` contexts, exits match enters -/
def WellNested : List EOp → Nat → Prop
  | [], _ => True
  | .enterSilent :: ops, d => WellNested ops (d + 1)
  | .exitSilent :: ops, d => 0 < d ∧ WellNested ops (d - 1)
  | .setSilent _ :: ops, d => d = 0 ∧ WellNested ops d
  | _ :: ops, d => WellNested ops d

/-- expected outcomes of all emits of a history: for each emit, look at the prefix before it -/
def emitsSpec (pre : List EOp) : List EOp → List EOut
  | [] => []
  | .emit e s single :: ops =>
    let df := depthFlag pre
    (if df.1 > 0 || df.2 then ⟨[], .none⟩ else emitSpec (registered pre) e s single) ::
      emitsSpec (pre ++ [.emit e s single]) ops
  | op :: ops => emitsSpec (pre ++ [op]) ops

/-! ### reporter -/

/-- one observed step of a reporter history: what the operation did to value/max and whether a
completion was announced -/
structure RObs where
  valueUpdate : Bool        -- increment / set value / set_complete
  valueSet : Bool           -- the value was assigned (value updates and reset)
  value : Int               -- value after the step
  maxBefore : Int
  max : Int                 -- maximum after the step
  announced : Bool
deriving Repr, DecidableEq

/-- "a completion has been announced since the value was last set below the maximum or the maximum
was last raised": scan the observed history backwards (most recent first) -/
def announcedSince : List RObs → Bool
  | [] => false
  | o :: earlier =>
    if o.announced then true
    else if (o.valueSet && decide (o.value < o.max)) || decide (o.max > o.maxBefore) then false
    else announcedSince earlier

/-- the announcement rule for one step given the observed history before it (most recent first):
a completion is announced exactly when a value update reaches the maximum and none has been
announced since …  Note that a value update below the maximum is itself a "set below". -/
def shouldAnnounce (before : List RObs) (valueUpdate : Bool) (value max : Int) : Bool :=
  valueUpdate && decide (value ≥ max) && !(announcedSince before)

/-- check a whole observed history (oldest first) against the rule -/
def announceOK : List RObs → List RObs → Bool
  | _, [] => true
  | before, o :: rest =>
    (o.announced == shouldAnnounce before o.valueUpdate o.value o.maxBefore) &&
      announceOK (o :: before) rest

def obsOf (t : RState × ROp × RState × ROut) : RObs :=
  let (s, op, s', out) := t
  let vu := match op with | .increment | .setValue _ | .setComplete => true | _ => false
  let vs := match op with | .setMax _ => false | _ => true
  ⟨vu, vs, s'.value, s.max, s'.max, out.complete⟩

end PhyVerif.C19
