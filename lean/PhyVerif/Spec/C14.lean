import PhyVerif.Model.C14
import PhyVerif.Spec.C12
/-! Specification predicates of C14. -/
namespace PhyVerif.C14
open PhyVerif PhyVerif.C09

/-- acceptance predicate for a listed-channel row (any tie order accepted): with `k` = number of
channels on the peak's probe (capped at the row width), the first `k` entries are distinct
channels of that probe in non-decreasing L1 distance from the peak, the peak first, and no
unlisted channel of that probe is strictly closer than a listed one -/
def nearestOK (pos : List (Rat × Rat)) (probes : List Nat) (peak ncw : Nat) (row : List Nat) : Bool :=
  let nc := pos.length
  let same := (List.range nc).filter fun c => probes.getD c 0 == probes.getD peak 0
  let k := min ncw same.length
  let head := row.take k
  (row.length == min ncw nc) && (head.eraseDups == head) && head.all (same.contains ·) &&
  (match head with | [] => k == 0 | c0 :: _ => l1 pos peak c0 == 0) &&
  ((head.zip head.tail).all fun p => decide (l1 pos peak p.1 ≤ l1 pos peak p.2)) &&
  same.all (fun c => head.contains c || head.all fun h => decide (l1 pos peak h ≤ l1 pos peak c))

/-- The probe labels are non-decreasing ALONG THE CHANNEL MAP: a channel with a smaller raw index never carries a
larger probe label.  This is what a merge produces (`rawInd_inverts_merge`: blocks labelled 0..k-1 with increasing
offsets); it is exactly the class of tables on which `make_channel_objects` (subtracting the previous label's largest
raw index + 1) yields no negative index: with an inversion, two consecutive labels `L < L'` have a channel of `L'`
below the largest raw index of `L`, whose exported index is negative. -/
def probesOrdered (cm probes : List Nat) : Bool :=
  (List.range cm.length).all fun a => (List.range cm.length).all fun b =>
    !(decide (cm.getD a 0 < cm.getD b 0)) || decide (probes.getD a 0 ≤ probes.getD b 0)

end PhyVerif.C14
