import PhyVerif.Model.C14
import PhyVerif.Spec.C12
/-! Specification predicates of C14. -/
namespace PhyVerif.C14
open PhyVerif PhyVerif.C09

/-- acceptance predicate for a listed-channel row (any tie order accepted): with `k` = number of
channels on the peak's probe (capped at the row width), the first `k` entries are distinct
channels of that probe in non-decreasing L1 distance from the peak, the peak first, and no
unlisted channel of that probe is strictly closer than a listed one -/
def nearestOK (pos : List (Rat × Rat)) (probes : List Nat) (peak ncw : Nat) (row : List Nat) : Bool :=
  let nc := pos.length
  let same := (List.range nc).filter fun c => probes.getD c 0 == probes.getD peak 0
  let k := min ncw same.length
  let head := row.take k
  (row.length == min ncw nc) && (head.eraseDups == head) && head.all (same.contains ·) &&
  (match head with | [] => k == 0 | c0 :: _ => l1 pos peak c0 == 0) &&
  ((head.zip head.tail).all fun p => decide (l1 pos peak p.1 ≤ l1 pos peak p.2)) &&
  same.all (fun c => head.contains c || head.all fun h => decide (l1 pos peak h ≤ l1 pos peak c))

end PhyVerif.C14
