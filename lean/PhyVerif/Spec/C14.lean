import PhyVerif.Model.C14
import PhyVerif.Spec.C12
/-! Specification predicates of C14. -/
namespace PhyVerif.C14
open PhyVerif PhyVerif.C09

/-- acceptance predicate for a listed-channel row (any tie order accepted): with `k` = number of
channels on the peak's probe (capped at the row width), the first `k` entries are distinct
channels of that probe in non-decreasing L1 distance from the peak, the peak first, and no
unlisted channel of that probe is strictly closer than a listed one -/
def nearestOK (pos : List (Rat × Rat)) (probes : List Nat) (peak ncw : Nat) (row : List Nat) : Bool :=
  let nc := pos.length
  let same := (List.range nc).filter fun c => probes.getD c 0 == probes.getD peak 0
  let k := min ncw same.length
  let head := row.take k
  (row.length == min ncw nc) && (head.eraseDups == head) && head.all (same.contains ·) &&
  (match head with | [] => k == 0 | c0 :: _ => l1 pos peak c0 == 0) &&
  ((head.zip head.tail).all fun p => decide (l1 pos peak p.1 ≤ l1 pos peak p.2)) &&
  same.all (fun c => head.contains c || head.all fun h => decide (l1 pos peak h ≤ l1 pos peak c))

/-- The probe labels follow THE CHANNEL MAP: a channel with a smaller probe label has a strictly smaller raw index
(every probe owns a range of raw indices, the ranges in label order).  This is what a merge produces
(`merged_probes_ordered`: blocks labelled 0..k-1 with strictly increasing offsets); it is EXACTLY the class of tables on
which `make_channel_objects` (subtracting the previous label's largest raw index + 1) yields no negative index
(`rawInd_nonneg_iff_ordered`).  Strict on purpose: two channels of DIFFERENT probes with the SAME raw index (`[0, 0]`,
probes `[0, 1]`) export `-1` for the second. -/
def probesOrdered (cm probes : List Nat) : Bool :=
  (List.range cm.length).all fun a => (List.range cm.length).all fun b =>
    !(decide (probes.getD a 0 < probes.getD b 0)) || decide (cm.getD a 0 < cm.getD b 0)

/-- the largest raw index of probe `q` (0 for a label no channel carries) -/
def probeMaxRaw (cm probes : List Nat) (q : Nat) : Nat :=
  (((List.range cm.length).filter fun i => probes.getD i 0 == q).map fun i => cm.getD i 0).foldl max 0

/-- "raw channel indices are re-expressed per probe", as a closed form: the raw index of a channel of the FIRST probe
(smallest label in use) is exported as it is; the raw index of a channel of any other probe `p` is exported minus
(largest raw index of the PREVIOUS probe + 1), the previous probe being the largest label in use below `p`. -/
def perProbeRawInd (cm probes : List Nat) : List Int :=
  (List.range cm.length).map fun i =>
    match (probes.filter (· < probes.getD i 0)).max? with
    | none => (cm.getD i 0 : Int)
    | some q => (cm.getD i 0 : Int) - ((probeMaxRaw cm probes q + 1 : Nat) : Int)

end PhyVerif.C14
