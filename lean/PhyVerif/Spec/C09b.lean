import PhyVerif.Model.C09b
import PhyVerif.Spec.C09
/-!
Direct (definition-free) formulas of C09 for waveform arrays: everything is said about the ENTRIES
`W[s][j]` of a rectangular `(ns, nc)` array, not about the model's folds.
-/
namespace PhyVerif.C09
open PhyVerif

/-- entry `W[s, j]` (sample `s`, channel `j`) -/
def entry (W : Mat) (s j : Nat) : Rat := (W.getD s []).getD j 0

/-- `W` is a rectangular `(ns, nc)` array -/
def Rect (W : Mat) (ns nc : Nat) : Prop := W.length = ns ∧ ∀ row ∈ W, row.length = nc

instance (W : Mat) (ns nc : Nat) : Decidable (Rect W ns nc) := by unfold Rect; infer_instance

/-- `a` is the peak-to-peak amplitude of channel `j` of `W`: the largest minus the smallest sample -/
def IsPtp (W : Mat) (j : Nat) (a : Rat) : Prop :=
  ∃ s1 s2, s1 < W.length ∧ s2 < W.length ∧
    (∀ s, s < W.length → entry W s j ≤ entry W s1 j) ∧
    (∀ s, s < W.length → entry W s2 j ≤ entry W s j) ∧
    a = entry W s1 j - entry W s2 j

/-- `p` is THE peak channel of the `nc`-channel waveform `W`: the FIRST channel whose peak-to-peak
amplitude is the largest one -/
def IsPeakChannel (W : Mat) (nc p : Nat) : Prop :=
  p < nc ∧ ∃ a, IsPtp W p a ∧
    (∀ j b, j < nc → IsPtp W j b → b ≤ a) ∧
    (∀ j b, j < p → IsPtp W j b → b < a)

/-- `a` is the peak amplitude of the `nc`-channel waveform `W`: the largest channel peak-to-peak -/
def IsPeakAmp (W : Mat) (nc : Nat) (a : Rat) : Prop :=
  (∃ j, j < nc ∧ IsPtp W j a) ∧ ∀ j b, j < nc → IsPtp W j b → b ≤ a

/-- samples of channel `j` along time: `W[:, j]` -/
def chan (W : Mat) (j : Nat) : List Rat := (List.range W.length).map fun s => entry W s j

/-- `sum_k a_k` for `k < n` -/
def sumTo (n : Nat) (a : Nat → Rat) : Rat := ((List.range n).map a).sum

end PhyVerif.C09
