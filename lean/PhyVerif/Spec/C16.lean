import PhyVerif.Model.C16
/-! Specification side of C16: decidable predicates evaluated on *any* output (the model's in the
theorems, the real code's in the correspondence run). -/
namespace PhyVerif.C16

/-- index interval `[lo, hi)` actually selected by Python `data[i:j]` on data of length `n`
(for `i, j ≥ 0`; negative bounds do not occur here) -/
def clampIv (n : Nat) (i j : Int) : Nat × Nat :=
  let lo := min i.toNat n
  (lo, max lo (min j.toNat n))

/-- `a ⊆ b` for index intervals (an empty interval is inside anything) -/
def ivSubset (a b : Nat × Nat) : Bool := a.1 == a.2 || (decide (b.1 ≤ a.1) && decide (a.2 ≤ b.2))

/-- The three `chunk_bounds` clauses of C16 on data `[0, n)`. -/
def tileOK (n : Nat) (cs : Nat) (chunks : List Chunk) : Bool :=
  (kept (List.range n) chunks == List.range n) &&
  chunks.all (fun c =>
    ivSubset (clampIv n c.ks c.ke) (clampIv n c.s c.e) &&
    decide ((clampIv n c.s c.e).2 - (clampIv n c.s c.e).1 ≤ cs))

/-- strictly increasing -/
def strictInc : List Nat → Bool
  | [] => true
  | [_] => true
  | a :: b :: t => decide (a < b) && strictInc (b :: t)

/-- consecutive gaps ≤ cs -/
def gapsLe (cs : Nat) : List Nat → Bool
  | [] => true
  | [_] => true
  | a :: b :: t => decide (b - a ≤ cs) && gapsLe cs (b :: t)

/-- reader clause: bounds increase strictly from 0 to the sample count, contain every file
boundary, are never further apart than the chunk length. -/
def boundsOK (sizes : List Nat) (cs : Nat) (b : List Nat) : Bool :=
  (b.head? == some 0) && (b.getLast? == some sizes.sum) && strictInc b &&
  (partBounds sizes).all (fun p => b.contains p) && gapsLe cs b

/-- the non-empty intervals tile `[0, n)` in order -/
def chainFrom : Nat → List (Nat × Nat) → Option Nat
  | cur, [] => some cur
  | cur, (a, b) :: t =>
    if a == b then chainFrom cur t
    else if a == cur && decide (a < b) then chainFrom b t else none

def intervalsTile (n : Nat) (ivs : List (Nat × Nat)) : Bool := chainFrom 0 ivs == some n

/-- excerpts: in-bounds, disjoint, increasing, at most k, each at most `size` long -/
def excerptsChain (n size : Int) : Int → List (Int × Int) → Bool
  | _, [] => true
  | prev, (a, b) :: t =>
    decide (prev ≤ a) && decide (a ≤ b) && decide (b ≤ n) && decide (b - a ≤ size) &&
      excerptsChain n size b t

def excerptsOK (n k size : Int) (ex : List (Int × Int)) : Bool :=
  excerptsChain n size 0 ex && decide ((ex.length : Int) ≤ k)

end PhyVerif.C16
