import PhyVerif.Model.C18
/-! What a round trip must return, and which values are in scope. -/
namespace PhyVerif.C18

mutual
/-- the value `load_json` is expected to return for a saved value: NumPy scalars as Python
scalars, one-dimensional arrays of at most ten items as lists, every other array unchanged
(dtype, shape, values), containers element-wise -/
def canon : PV → PV
  | .npScalar i => .int i
  | .npExotic dtype tok => .arr dtype [] [] 0 [tok]      -- a 0-d array of the scalar's dtype holding the value
  | .arr dtype shape strides off mem =>
    -- same dtype, same shape, C-contiguous, holding the elements in row-major order
    match shape with
    | [n] =>
      if n ≤ 10 && !noListDtype dtype then .list (ofInts (gather mem shape strides off))
      else .arr dtype shape (cStrides shape) 0 (gather mem shape strides off)
    | _ => .arr dtype shape (cStrides shape) 0 (gather mem shape strides off)
  | .list l => .list (canonList l)
  | .dict kv => .dict (canonDict kv)
  | v => v
def canonList : PVList → PVList
  | .nil => .nil
  | .cons h t => .cons (canon h) (canonList t)
def canonDict : PVDict → PVDict
  | .nil => .nil
  | .cons k v t => .cons k (canon v) (canonDict t)
end

mutual
/-- values in scope: no user dictionary uses the reserved keys `__ndarray__`, `__qbytearray__` (the
object hook would take such a dictionary for an encoded array / Qt byte array, _misc.py:67-73) -/
def WF : PV → Prop
  | .list l => WFList l
  | .dict kv => WFDict kv
  | _ => True
def WFList : PVList → Prop
  | .nil => True
  | .cons h t => WF h ∧ WFList t
def WFDict : PVDict → Prop
  | .nil => True
  | .cons k v t => k ≠ "__ndarray__" ∧ k ≠ "__qbytearray__" ∧ WF v ∧ WFDict t
end

/-- top-level keys in scope: integers, and strings that are not the decimal form of an integer -/
def KeyOK : Key → Prop
  | .int _ => True
  | .str s => isIntString s = false

/-- transport hypothesis on integer formatting/parsing: `str(i)` is recognised and parsed back -/
def IntStrOK : Prop := ∀ i : Int, isIntString (intToStr i) = true ∧ parseInt (intToStr i) = i

/-- the rows `read_tsv` must return: per written row, its (field, value) pairs in header order,
absent fields omitted -/
def expectedRows {γ : Type} (fields : List String) (rows : List (List (String × γ))) : List (List (String × γ)) :=
  rows.map fun r => fields.filterMap fun f => (r.lookup f).map fun c => (f, c)

/-- a multi-index addresses an element of an array of this shape -/
def IdxOK : List Nat → List Nat → Prop
  | [], [] => True
  | n :: shape, i :: idx => i < n ∧ IdxOK shape idx
  | _, _ => False

/-- position of a multi-index in the row-major enumeration -/
def rank : List Nat → List Nat → Nat
  | _ :: shape, i :: idx => i * size shape + rank shape idx
  | _, _ => 0

end PhyVerif.C18
