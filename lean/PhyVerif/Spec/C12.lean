import PhyVerif.Model.C12
/-! Block structure by probe: offsets are prefix sums of the per-probe sizes. -/
namespace PhyVerif.C12
open PhyVerif

/-- prefix sum: summed size of the probes before `k` -/
def prefixSum (sizes : List Nat) (k : Nat) : Nat := (sizes.take k).sum

/-- channel maps in scope: each is a permutation of `0 .. nc-1` with at least one channel -/
def MapsOK (maps : List (List Nat)) : Prop :=
  ∀ m ∈ maps, m ≠ [] ∧ m.Perm (List.range m.length)

/-- geometries in scope: non-negative coordinates, at least two distinct x per probe -/
def PosOK (pos : List (List (Int × Int))) : Prop :=
  ∀ p ∈ pos, (∀ xy ∈ p, 0 ≤ xy.1) ∧ ∃ a ∈ p, ∃ b ∈ p, a.1 < b.1

variable {α : Type} [Zero α]

/-- rectangular template sets: every template has `ns` rows of `nc` cells, at least one template -/
def TmplOK (t : List (List (List α))) (ns nc : Nat) : Prop :=
  t ≠ [] ∧ ∀ tm ∈ t, tm.length = ns ∧ ∀ row ∈ tm, row.length = nc

def get3 (m : List (List (List α))) (i j k : Nat) : α := ((m.getD i []).getD j []).getD k 0
def get2 (m : List (List α)) (i j : Nat) : α := (m.getD i []).getD j 0

end PhyVerif.C12
