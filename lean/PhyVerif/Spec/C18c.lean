import PhyVerif.Model.C18c
import PhyVerif.Spec.C18
/-! Specification side of the table files of C18: cell domains and what a written cell reads back as. -/
namespace PhyVerif.C18

/-- "a string cell that is not a numeric literal": non-empty, `int()` and `float()` both reject it -/
def NonNumeric (s : String) : Prop := s ≠ "" ∧ tryMakeNumber s = .text s

/-- no line break inside (the csv reader is fed physical lines; and a `\r` inside a quoted cell comes
back as `\n` through the universal-newline translation of the real reader, _misc.py:244) -/
def NoBreak (s : Str) : Prop := ∀ c ∈ s, c ≠ '\r' ∧ c ≠ '\n'

instance (s : Str) : Decidable (NoBreak s) := by unfold NoBreak; infer_instance

/-- cells of a cluster table in scope: any integer, any finite float, non-numeric strings without line
break -/
def WCellOK : WCell → Prop
  | .int _ => True
  | .float _ => True
  | .text s => NonNumeric s ∧ NoBreak s.toList

/-- all field names used by the rows of a table -/
def fieldsOf {γ : Type} (rows : List (List (String × γ))) : List String := rows.flatMap fun r => r.map (·.1)

/-- "two or more columns": the rows use at least two different field names -/
def TwoColumns {γ : Type} (rows : List (List (String × γ))) : Prop :=
  ∃ f1 f2, f1 ≠ f2 ∧ f1 ∈ fieldsOf rows ∧ f2 ∈ fieldsOf rows

/-- the rows with every cell replaced by what it is expected to read back as -/
def obsRows {γ δ : Type} (obs : γ → δ) (rows : List (List (String × γ))) : List (List (String × δ)) :=
  rows.map fun r => r.map fun fc => (fc.1, obs fc.2)

/-- what a value of a two-column table reads back as -/
def obsS : SVal → Num
  | .int i => .int i
  | .float lit => tryMakeNumber lit
  | .text s => .text s

/-- `lit` is read as a finite float (what `repr(x)` of a finite float is: `'0.25'`, `'1e-05'`, `'-2.5'`) -/
def FloatLit (lit : String) : Prop := ∃ neg m e, tryMakeNumber lit = .float neg m e

/-- values of a two-column table in scope: integers, floats (given by their `repr` text), strings that
are not numeric literals (the empty string included); no line break -/
def SValOK : SVal → Prop
  | .int _ => True
  | .float lit => NoBreak lit.toList
  | .text s => tryMakeNumber s = .text s ∧ NoBreak s.toList

end PhyVerif.C18
