import PhyVerif.Model.C15c
import PhyVerif.Spec.C15b
/-! Specification side of the float part of C15: the inputs on which rounding changes nothing. -/
namespace PhyVerif.C15
open PhyVerif.Fl

/-- beyond `GridOK` (every `time·rate` and `rate·bin` a whole number): the inputs on which no float operation of
`correlograms` rounds — the sample numbers and the bin fit in 53 bits, the window is a double and
`.5·window/bin` is a number with at most 53 significant bits (e.g. the window is a whole, half-integral or other
dyadic multiple of the bin).  The correspondence run of the exact-rational model was restricted to these. -/
structure FlExact (bin window : Rat) (T : List Int) (B : Int) : Prop where
  samplesFit : ∀ a, a < T.length → (T.getD a 0).natAbs ≤ 2 ^ 53
  binFit : B.natAbs ≤ 2 ^ 53
  windowDouble : IsDouble window
  quotDouble : IsDouble ((1 / 2 : Rat) * window / bin)

end PhyVerif.C15
