import PhyVerif.Model.C13c
/-! Domain and specification predicates of the directory-level statements of C13. -/
namespace PhyVerif.C13

/-- The shape facts the loader asserts on every dataset it accepts (model.py:351-403): the per-spike
vectors have one length, the per-channel vectors have one length. -/
def ViewOK (v : View) : Prop :=
  v.times.length = v.samples.length ∧ v.spikeClusters.length = v.samples.length ∧ v.spikeTemplates.length = v.samples.length ∧
  v.amplitudes.length = v.samples.length ∧ v.channelProbes.length = v.channelMap.length

/-- every object file (`spikes.* / clusters.* / templates.* / channels.*`) of a directory has, as first
dimension, the count of its family -/
def RowsOK (v : View) (d : FDir) : Prop :=
  ∀ f ∈ d, isObj f.1 = true → expectedRows (sizesOf v) f.1 = some (firstDim f.1 f.2)

/-- The source files that `copy_files` renames into object files (`spike_clusters.npy`,
`spike_templates.npy`, `channel_positions.npy`, and the optional `channel_probe.npy`, `channel_labels.npy`,
`cluster_probes.npy`, `cluster_shanks.npy`) hold one row per spike / channel / cluster of the loaded
model.  The loader asserts this for the first three; the optional ones are copied verbatim, so the
exported table simply inherits whatever first dimension the source file has. -/
def SrcOK (v : View) (src : FDir) : Prop :=
  ∀ r ∈ fileRenames, isObj r.2.1 = true → ∀ e, src.lookup r.1 = some e →
    expectedRows (sizesOf v) r.2.1 = some e.rows.length

/-- the name under which `rename_with_label` leaves a file -/
def labelled' (label : String) (n : Name) : Name := if label = "" then n else relabel label n

/-- contract of the identifier generator for one conversion: the first `n` calls return distinct values -/
def GenDistinct (gen : Nat → String) (n : Nat) : Prop :=
  ∀ i j, i < n → j < n → gen i = gen j → i = j

/-- "one unique identifier per cluster" on the rows of the identifier file -/
def UuidOK (n : Nat) (lines : List String) : Prop :=
  lines.head? = some "uuids" ∧ lines.tail.length = n ∧ lines.tail.Nodup

/-- A conversion in the domain of the property: the target is not the source directory, and the source is
a Kilosort/phy directory the loader accepts (it holds `spike_templates.npy`, `spike_clusters.npy` — written
by the loader itself when missing — and `channel_positions.npy`) that does not already contain ALF cluster
tables.  A source that holds `clusters.channels.npy` makes the real `convert` raise FileNotFoundError
(alf.py:179-182 tests the SOURCE directory, alf.py:224 reads the OUTPUT directory; `convertFS` reproduces it as
`Err.noClusterChannels`).  A label containing `/` makes `Path.with_suffix` raise ValueError (alf.py:303) after
all files have been written (`Err.badLabel`).  A source that is ALREADY ALF-named (`spikes.clusters.npy`,
`spikes.templates.npy` instead of the KS names) is outside too: `convert` is documented "from KS/phy format to ALF", its
rename table `_FILE_RENAMES` is keyed by the KS names, so nothing is copied and `compress_spikes_dtypes` raises
StopIteration (alf.py:308) after everything else was written — `convertFS` reproduces it as `Err.noSpikesFile`
(harness: tallied case `ALF-named source`, real StopIteration / model noSpikesFile). -/
def Convertible (cfg : Cfg) (fs : FS) : Prop :=
  cfg.sameDir = false ∧ labelBad cfg.label = false ∧ fs.src.has ["clusters", "channels", "npy"] = false ∧
  fs.src.has ["clusters", "peakToTrough", "npy"] = false ∧ fs.src.has ["spike_clusters", "npy"] = true ∧
  fs.src.has ["spike_templates", "npy"] = true ∧ fs.src.has ["channel_positions", "npy"] = true

end PhyVerif.C13
