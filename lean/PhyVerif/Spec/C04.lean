import PhyVerif.Model.C04
/-!
Specification side of C04: the declarative table of DESIGN §5 C04 — for every attribute of the loaded
model WHICH file it comes from (a list of name patterns, first pattern with a match wins), WHICH
transform is applied and WHAT is shown when no file matches.

Nothing here mentions `findPath`, `readFile` or `load`: the table is data (`Attr.files`,
`Attr.transform`, `Attr.mandatory`) and its reading is the relation `Expected`, built from
`Wins` / `Absent`, which only talk about `globMatch` on the names of the directory.
The theorem `C04.load_values` (Props/C04.lean) says that every successful `load` satisfies the table.
-/
namespace PhyVerif.C04

/-- the file names of a directory -/
def names (d : Dir) : List String := d.map (·.1)

/-- no file of the directory matches any of the patterns -/
def Absent (d : Dir) (pats : List String) : Prop :=
  ∀ p ∈ pats, ∀ g ∈ names d, globMatch p g = false

/-- `f` is a file a first-match search over `pats` may return: it is in the directory, it matches a
pattern, and no EARLIER pattern matches any file.  (When the winning pattern is a wildcard matching
several files the real loader takes whichever `glob` lists first; `wins_unique` shows that under
`GlobUnique` — every pattern matches at most one file, the well-formedness condition of DESIGN §5 —
the winner is unique.) -/
def Wins (d : Dir) (pats : List String) (f : String) : Prop :=
  ∃ i, ∃ hi : i < pats.length, globMatch (pats[i]'hi) f = true ∧ f ∈ names d ∧
    ∀ j (hj : j < pats.length), j < i → ∀ g ∈ names d, globMatch (pats[j]'hj) g = false

/-- every pattern of the list matches at most one file of the directory -/
def GlobUnique (d : Dir) (pats : List String) : Prop :=
  ∀ p ∈ pats, ∀ g ∈ names d, ∀ g' ∈ names d, globMatch p g = true → globMatch p g' = true → g = g'

instance (d : Dir) (pats : List String) : Decidable (Absent d pats) := by
  unfold Absent; infer_instance

instance (d : Dir) (pats : List String) : Decidable (GlobUnique d pats) := by
  unfold GlobUnique; infer_instance

/-- the attributes of the table whose value is one array read from one file -/
inductive Attr where
  | amplitudes | spikeTemplates | spikeClusters | channelMap | channelPositions | channelShanks
  | channelProbes | templates | templateCols | wm | wmi | similar
deriving Repr, DecidableEq

/-- column "files, in order" of the table (model.py:541, 549, 557, 567, 592, 600, 613, 687, 699, 719,
735, 742) -/
def Attr.files : Attr → List String
  | .amplitudes => ["amplitudes.npy", "spikes.amps*.npy"]
  | .spikeTemplates => ["spike_templates.npy", "spikes.templates*.npy"]
  | .spikeClusters => ["spike_clusters.npy", "spikes.clusters*.npy"]
  | .channelMap => ["channel_map.npy", "channels.rawInd*.npy"]
  | .channelPositions => ["channel_positions.npy", "channels.localCoordinates*.npy"]
  | .channelShanks => ["channel_shanks.npy", "channels.shanks*.npy"]
  | .channelProbes => ["channel_probe.npy", "channels.probes*.npy"]
  | .templates => ["templates.npy", "templates.waveforms.npy", "templates.waveforms.*.npy"]
  | .templateCols => ["template_ind.npy", "templates.waveformsChannels*.npy"]
  | .wm => ["whitening_mat.npy"]
  | .wmi => ["whitening_mat_inv.npy"]
  | .similar => ["similar_templates.npy"]

/-- `.reshape((-1,))` -/
def flattenArr (a : Arr) : Arr := { a with shape := [a.data.length] }

/-- column "transform": every fully loaded array is scrubbed (NaN/inf → 0) and squeezed; the
template waveforms are memory-mapped, hence NOT scrubbed — only templates that are NaN everywhere
read as zero -/
def Attr.transform : Attr → Arr → Arr
  | .amplitudes => fun a => squeeze (scrub a)
  | .spikeTemplates => fun a => squeeze (scrub a)
  | .spikeClusters => fun a => squeeze (scrub a)
  | .channelMap => fun a => atleast 1 (squeeze (scrub a))
  | .channelPositions => fun a => atleast 2 (squeeze (scrub a))
  | .channelShanks => fun a => flattenArr (squeeze (scrub a))
  | .channelProbes => fun a => atleast 1 (squeeze (scrub a))
  | .templates => fun a => zeroNanTemplates (atleast 3 (squeeze a))
  | .templateCols => fun a => squeeze (scrub a)
  | .wm => fun a => atleast 2 (squeeze (scrub a))
  | .wmi => fun a => atleast 2 (squeeze (scrub a))
  | .similar => fun a => atleast 2 (squeeze (scrub a))

/-- column "when absent" = error: the attributes without which the loader refuses the directory -/
def Attr.mandatory : Attr → Bool
  | .spikeTemplates | .channelMap | .channelPositions => true
  | _ => false

/-- what the loaded view shows for an attribute; `none` = the documented default is in force
(no amplitudes / zeros / dense templates / identity / computed inverse / zeros) -/
def View.attr (v : View) : Attr → Option Arr
  | .amplitudes => v.amplitudes
  | .spikeTemplates => some v.spikeTemplates
  | .spikeClusters => some v.spikeClusters
  | .channelMap => some v.channelMap
  | .channelPositions => some v.channelPositions
  | .channelShanks => v.channelShanks
  | .channelProbes => v.channelProbes
  | .templates => v.templates
  | .templateCols => v.templateCols
  | .wm => v.wm
  | .wmi => v.wmi
  | .similar => v.similar

/-- an ordinary row of the table: the transformed contents of a winning file, or — exactly when no
pattern matches any file — nothing -/
def Row (d : Dir) (pats : List String) (tr : Arr → Arr) (val : Option Arr) : Prop :=
  (∃ f a, Wins d pats f ∧ d.lookup f = some a ∧ val = some (tr a)) ∨ (Absent d pats ∧ val = none)

/-- The table, read for one attribute.  Two rows are not ordinary:
* spike clusters: when no cluster file exists the value is that of the winning spike-TEMPLATE file;
* template columns: only looked for when there are templates. -/
def Expected (d : Dir) (a : Attr) (val : Option Arr) : Prop :=
  match a with
  | .spikeClusters =>
    (∃ f x, Wins d a.files f ∧ d.lookup f = some x ∧ val = some (a.transform x)) ∨
    (Absent d a.files ∧ ∃ f x, Wins d Attr.spikeTemplates.files f ∧ d.lookup f = some x ∧
      val = some (a.transform x))
  | .templateCols =>
    (Absent d Attr.templates.files ∧ val = none) ∨
    (¬ Absent d Attr.templates.files ∧ Row d a.files a.transform val)
  | _ => Row d a.files a.transform val

/-- The first two rows of the table: where the spike times and samples come from.
KiloSort layout: `spike_times.npy` (samples; times = samples / rate).  Otherwise (ALF) the times are
the seconds of `spikes.times*.npy` and the samples those of `spikes.samples*.npy` or, when that file
is absent, the rounded products `round(times · rate)`. -/
def ExpectedTimes (d : Dir) (times : TimeSrc) (samples : SampleSrc) : Prop :=
  (∃ s, d.lookup "spike_times.npy" = some s ∧
      times = .samplesOverRate (squeeze (scrub s)) ∧ samples = .file (squeeze (scrub s))) ∨
  ("spike_times.npy" ∉ names d ∧ ∃ f t, Wins d ["spikes.times*.npy"] f ∧ d.lookup f = some t ∧
      times = .stored (squeeze (scrub t)) ∧
      ((∃ g s, Wins d ["spikes.samples*.npy"] g ∧ d.lookup g = some s ∧
          samples = .file (squeeze (scrub s))) ∨
       (Absent d ["spikes.samples*.npy"] ∧ samples = .roundedTimes (squeeze (scrub t)))))

/-! ### extra per-spike attributes -/

/-- `SKIP_SPIKE_ATTRS` (model.py:282) -/
def skipSpikeAttrs : List String :=
  ["clusters", "templates", "samples", "times", "times_reordered", "amplitudes"]

/-- the table row of the extra per-spike attributes: attribute `n` with value `x` is shown exactly
when the directory holds `spike_<n>.npy`, `n` is not one of the reserved names, `x` is the file
squeezed and scrubbed, and its first dimension is the number of spikes -/
def IsSpikeAttr (d : Dir) (ns : Nat) (n : String) (x : Arr) : Prop :=
  ∃ a, ("spike_" ++ n ++ ".npy", a) ∈ d ∧ n ∉ skipSpikeAttrs ∧ x = squeeze (scrub a) ∧
    x.shape.head? = some ns

/-! ### rounding -/

/-- `z` is `q` rounded to the nearest integer, ties to the even one (what `np.round` computes) -/
def IsRoundHalfEven (q : Rat) (z : Int) : Prop :=
  (q - 1/2 ≤ (z : Rat) ∧ (z : Rat) ≤ q + 1/2) ∧
  (((z : Rat) = q - 1/2 ∨ (z : Rat) = q + 1/2) → z % 2 = 0)

end PhyVerif.C04
