import PhyVerif.Model.C15
/-! Specification side of C15: pair counts, independent of the shift loop. -/
namespace PhyVerif.C15

/-- all index pairs `a < b < n` -/
def pairs (n : Nat) : List (Nat × Nat) :=
  (List.range n).flatMap fun b => (List.range b).map fun a => (a, b)

/-- non-decreasing spike samples -/
def Sorted (x : Inp) : Prop := ∀ a b, a ≤ b → b < x.n → x.t a ≤ x.t b

/-- number of pairs (a before b) with a in cluster i, b in cluster j,
`floor((t_b - t_a)/bin) = k`, `k ≤ half` -/
def pairCount (x : Inp) (i j : Nat) (k : Int) : Nat :=
  ((pairs x.n).filter fun p =>
    x.cl p.1 == i && x.cl p.2 == j && ((x.t p.2 - x.t p.1) / x.bin == k) && decide (k ≤ x.half)).length

/-- list-level specification in terms of the caller's cluster ids -/
def specCcg (t : List Int) (sc : List Int) (ids : List Nat) (bin : Int) (half : Nat) :
    List (List (List Nat)) :=
  (List.range ids.length).map fun i => (List.range ids.length).map fun j =>
    (List.range (half + 1)).map fun (k : Nat) =>
      ((pairs t.length).filter fun p =>
        sc.getD p.1 0 == Int.ofNat (ids.getD i 0) && sc.getD p.2 0 == Int.ofNat (ids.getD j 0) &&
        ((t.getD p.2 0 - t.getD p.1 0) / bin == Int.ofNat k)).length

/-- shape `(nc, nc, m)` -/
def Shape3 (c : List (List (List Nat))) (nc m : Nat) : Prop :=
  c.length = nc ∧ ∀ row ∈ c, row.length = nc ∧ ∀ v ∈ row, v.length = m

/-- firing-rate integer part: outer product of per-cluster spike counts in the caller's order -/
def specFiring (sc : List Int) (ids : List Nat) : List (List Nat) :=
  let bc := ids.map fun c => sc.count (Int.ofNat c)
  bc.map fun bi => bc.map fun bj => bj * bi

/-- in-domain inputs: distinct caller ids, every spike's cluster among them -/
def InDom (sc : List Int) (ids : List Nat) : Prop :=
  ids.Nodup ∧ ∀ c ∈ sc, 0 ≤ c ∧ c.toNat ∈ ids

end PhyVerif.C15
