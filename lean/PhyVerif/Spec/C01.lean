import PhyVerif.Model.C01
/-! NumPy indexing of the concatenated recording: the oracle of C01. -/
namespace PhyVerif.C01
open PhyVerif

/-- `A[item]` with NumPy semantics on the first axis (an integer gives one row, 2-D);
`none` = IndexError -/
def npRows {α : Type} (A : List α) (item : Item) : Option (List α) :=
  let n : Int := A.length
  match item with
  | .int i => if -n ≤ i ∧ i < n then (A[(if i < 0 then i + n else i).toNat]?).map fun r => [r] else none
  | .slice start stop => some (Np.take A (Np.sliceIdx A.length start stop 1))
  | .list l => l.mapM fun i => if -n ≤ i ∧ i < n then A[(if i < 0 then i + n else i).toNat]? else none

/-- the index expressions C01 quantifies over, for a recording of `n` rows -/
def InDom (n : Nat) : Item → Prop
  | .int i => -(n : Int) ≤ i ∧ i < n
  | .slice start stop =>
    (∀ s, start = some s → -(n : Int) ≤ s ∧ s ≤ n) ∧ (∀ e, stop = some e → -(n : Int) ≤ e ∧ e ≤ n) ∧
    Np.sliceIdx n start stop 1 ≠ []
  | .list l => l ≠ [] ∧ l.Pairwise (· < ·) ∧ ∀ i ∈ l, 0 ≤ i ∧ i < n

end PhyVerif.C01
