import PhyVerif.Model.C01
/-! NumPy indexing of the concatenated recording: the oracle of C01. -/
namespace PhyVerif.C01
open PhyVerif

/-- `A[item]` with NumPy semantics on the first axis (an integer gives one row, 2-D);
`none` = IndexError -/
def npRows {α : Type} (A : List α) (item : Item) : Option (List α) :=
  let n : Int := A.length
  match item with
  | .int i => if -n ≤ i ∧ i < n then (A[(if i < 0 then i + n else i).toNat]?).map fun r => [r] else none
  | .slice start stop => some (Np.take A (Np.sliceIdx A.length start stop 1))
  | .list l => l.mapM fun i => if -n ≤ i ∧ i < n then A[(if i < 0 then i + n else i).toNat]? else none

/-- the index expressions C01 quantifies over, for a recording of `n` rows ("integers in [-n, n), slices with
start/stop in [-n, n] or None that select >= 1 row, strictly increasing index lists/arrays").

What the real reader does OUTSIDE this domain (ran it on a 6-row in-memory reader and on the same rows in two
flat files of 4 + 2 rows; `_get_subitems`, traces.py:60-99 — no theorem, no alarm: outside the quantifier):
* slice bound `> n`: clamped (`min(v, n)`), as NumPy does: `r[0:7]`, `r[2:100]`, `r[:13]` are NumPy's rows;
* slice bound `< -n`: reduced modulo `n` (`v % n`) where NumPy clamps to 0: `r[-7:]` is the LAST row only
  (NumPy: all 6 rows), `r[:-7]` is rows 0..4 (NumPy: no row), `r[-13:]` is the last row; `r[-8:3]` is an empty
  block on one part and `ValueError` (nothing to stack) on two parts (NumPy: rows 0..2);
* a slice selecting no row: `ValueError` from `np.vstack([])` (`r[6:9]`, `r[7:]`; `r[4:4]`, `r[5:1]` on 4 + 2
  rows), or an empty block when `stop - 1` is not in an earlier part than `start` (`r[2:2]`; `r[4:4]` on one part)
  (NumPy: an empty block);
* integer `>= n`: `IndexError`, as NumPy; integer `< -n`: `i % n`, a row is returned (`r[-7]` is the last row,
  `r[-12]` row 0) where NumPy raises `IndexError`;
* index list: an entry `>= n`: `IndexError`, as NumPy; a negative entry: `ValueError` (NumPy counts from the
  end); a repeated entry: `AssertionError` (`np.diff` has a zero; NumPy repeats the row); a decreasing list within
  one part is answered as NumPy does (`r[[2, 1]]`), across parts the rows come back in PART order (`r[[5, 1]]` on
  4 + 2 rows is rows 1, 5; NumPy: 5, 1); the empty list raises `ValueError` (NumPy: an empty block). -/
def InDom (n : Nat) : Item → Prop
  | .int i => -(n : Int) ≤ i ∧ i < n
  | .slice start stop =>
    (∀ s, start = some s → -(n : Int) ≤ s ∧ s ≤ n) ∧ (∀ e, stop = some e → -(n : Int) ≤ e ∧ e ≤ n) ∧
    Np.sliceIdx n start stop 1 ≠ []
  | .list l => l ≠ [] ∧ l.Pairwise (· < ·) ∧ ∀ i ∈ l, 0 ≤ i ∧ i < n

end PhyVerif.C01
