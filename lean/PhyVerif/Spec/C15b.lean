import PhyVerif.Model.C15b
import PhyVerif.Spec.C15
/-! Specification side of the second part of C15 (rational inputs, firing-rate factor). -/
namespace PhyVerif.C15

/-- the firing-rate normaliser the property names: entry (i, j) is
`#spikes(ids[i]) · #spikes(ids[j]) · bin / duration` (duration 0 or absent counts as 1) -/
def specFiringRate (sc : List Int) (ids : List Nat) (bin : Rat) (dur : Option Rat) : List (List Rat) :=
  ids.map fun ci => ids.map fun cj =>
    ((sc.count (Int.ofNat cj) * sc.count (Int.ofNat ci) : Nat) : Rat) * (bin / durOr1 dur)

/-- the property in ITS OWN UNITS (seconds): entry (i, j, k) counts the spike pairs a before b with a in
`ids[i]`, b in `ids[j]` and `floor((t_b - t_a) / bin) = k`, for `k` up to `half` -/
def specSeconds (times : List Rat) (sc : List Int) (ids : List Nat) (bin : Rat) (half : Nat) :
    List (List (List Nat)) :=
  (List.range ids.length).map fun i => (List.range ids.length).map fun j =>
    (List.range (half + 1)).map fun (k : Nat) =>
      ((pairs times.length).filter fun p =>
        sc.getD p.1 0 == Int.ofNat (ids.getD i 0) && sc.getD p.2 0 == Int.ofNat (ids.getD j 0) &&
        (((times.getD p.2 0 - times.getD p.1 0) / bin).floor == Int.ofNat k)).length

/-- the inputs on which the sample grid and the time axis agree: positive rate, bin and window inside the
clipping interval `[1e-5, 1e5]` s (outside, the code silently clips them), every `time · rate` and
`rate · bin` a whole number (otherwise the code truncates: the counts are then those of the truncated samples
and of the truncated bin, see `correlogramsQ_samples`) -/
structure GridOK (times : List Rat) (rate bin window : Rat) (T : List Int) (B : Int) : Prop where
  rate_pos : 0 < rate
  bin_lo : clipLo ≤ bin
  bin_hi : bin ≤ clipHi
  win_lo : clipLo ≤ window
  win_hi : window ≤ clipHi
  len : T.length = times.length
  onGrid : ∀ a, a < times.length → times.getD a 0 * rate = ((T.getD a 0 : Int) : Rat)
  binGrid : rate * bin = ((B : Int) : Rat)
  binPos : 1 ≤ B

/-- the lag events of the statement: for every pair a before b, `(label a, label b, ⌊(t_b − t_a) / bin⌋)` — ONE floor
per spike pair -/
def stmtEvents (times : List Rat) (sc : List Int) (bin : Rat) : List (Int × Int × Int) :=
  (pairs times.length).map fun p =>
    (sc.getD p.1 0, sc.getD p.2 0, ((times.getD p.2 0 - times.getD p.1 0) / bin).floor)

/-- `specSeconds` as the driver evaluates it (one floor per pair instead of one per pair and entry): entry (i, j, k) is
the number of lag events equal to `(ids[i], ids[j], k)`.  `stmtSeconds_eq` (Props/C15.lean): the same array as
`specSeconds`, for all inputs. -/
def stmtSeconds (times : List Rat) (sc : List Int) (ids : List Nat) (bin : Rat) (half : Nat) :
    List (List (List Nat)) :=
  let ev := stmtEvents times sc bin
  (List.range ids.length).map fun i => (List.range ids.length).map fun j =>
    (List.range (half + 1)).map fun (k : Nat) =>
      ev.count (Int.ofNat (ids.getD i 0), Int.ofNat (ids.getD j 0), Int.ofNat k)

/-- `GridOK` without its clause on the bin: spike times on the sample grid, bin and window inside the clipping
interval, the bin at least one sample long after truncation — `rate · bin` may be ANY rational ≥ 1
(`correlogramsQ_truncates`: what the code counts then) -/
structure TimesOK (times : List Rat) (rate bin window : Rat) (T : List Int) : Prop where
  rate_pos : 0 < rate
  bin_lo : clipLo ≤ bin
  bin_hi : bin ≤ clipHi
  win_lo : clipLo ≤ window
  win_hi : window ≤ clipHi
  len : T.length = times.length
  onGrid : ∀ a, a < times.length → times.getD a 0 * rate = ((T.getD a 0 : Int) : Rat)
  binPos : 1 ≤ (rate * bin).floor

end PhyVerif.C15
