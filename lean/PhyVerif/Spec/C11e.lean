import PhyVerif.Model.C11e
import PhyVerif.Model.C11
import PhyVerif.Model.C12b
import PhyVerif.Spec.C11
/-!
Specification side of the file-system merge: what the probe directories hold (`Inputs`, `Loaded`) and the
table of the files a successful merge leaves in an (initially empty) output directory, written with the pure
C11 / C12 functions the other theorems are about (`expectedOut`).
-/
namespace PhyVerif.C11
open PhyVerif

/-- the contents of the probe directories, per file name in probe order -/
structure Inputs where
  params : List (Nat × Nat)
  times : List (List Int)
  amps : List (List Int)
  templates : List (List Nat)                       -- spike_templates.npy
  clusters : List (List Nat)                        -- spike_clusters.npy
  tsvAmplitude : List (Option (List (Nat × Nat)))   -- per-cluster TSVs, `none` = the probe has no such file
  tsvContamPct : List (Option (List (Nat × Nat)))
  tsvKSLabel : List (Option (List (Nat × Nat)))
  maps : List (List Nat)
  positions : List (List (Int × Int))
  tmpl : List (List (List (List Int)))              -- templates.npy
  pcInd : List (List (List Nat))
  tfInd : List (List (List Nat))
  similar : List (Option (List (List Int)))         -- optional matrices, `none` = the probe has no such file
  whitening : List (Option (List (List Int)))
  whiteningInv : List (Option (List (List Int)))

/-- the per-cluster TSV of each probe, by file name -/
def Inputs.tsv (I : Inputs) (fn : String) : List (Option (List (Nat × Nat))) :=
  if fn = "cluster_Amplitude.tsv" then I.tsvAmplitude else if fn = "cluster_ContamPct.tsv" then I.tsvContamPct
  else I.tsvKSLabel

/-- the optional matrix of each probe, by file name -/
def Inputs.misc (I : Inputs) (fn : String) : List (Option (List (List Int))) :=
  if fn = "similar_templates.npy" then I.similar else if fn = "whitening_mat.npy" then I.whitening
  else I.whiteningInv

/-- `I` is what the merger's loads return on `fs` -/
def Loaded (fs : FS) (subdirs : List String) (I : Inputs) : Prop :=
  loadEach (readParams fs "params.py") subdirs = .ok I.params ∧
  loadEach (readInts fs "spike_times.npy") subdirs = .ok I.times ∧
  loadEach (readInts fs "amplitudes.npy") subdirs = .ok I.amps ∧
  loadEach (readNats fs "spike_templates.npy") subdirs = .ok I.templates ∧
  loadEach (readNats fs "spike_clusters.npy") subdirs = .ok I.clusters ∧
  loadEach (readTsvOpt fs "cluster_Amplitude.tsv") subdirs = .ok I.tsvAmplitude ∧
  loadEach (readTsvOpt fs "cluster_ContamPct.tsv") subdirs = .ok I.tsvContamPct ∧
  loadEach (readTsvOpt fs "cluster_KSLabel.tsv") subdirs = .ok I.tsvKSLabel ∧
  loadEach (readNats fs "channel_map.npy") subdirs = .ok I.maps ∧
  loadEach (readPos fs "channel_positions.npy") subdirs = .ok I.positions ∧
  loadEach (readTmpl fs "templates.npy") subdirs = .ok I.tmpl ∧
  loadEach (readTable fs "pc_feature_ind.npy") subdirs = .ok I.pcInd ∧
  loadEach (readTable fs "template_feature_ind.npy") subdirs = .ok I.tfInd ∧
  loadEach (readMatOpt fs "similar_templates.npy") subdirs = .ok I.similar ∧
  loadEach (readMatOpt fs "whitening_mat.npy") subdirs = .ok I.whitening ∧
  loadEach (readMatOpt fs "whitening_mat_inv.npy") subdirs = .ok I.whiteningInv

/-- what a merge that returns implies about the inputs (each item is a place where the real code raises
otherwise): at least one probe; no probe without spikes (`np.max`, merge.py:147-148) and none with exactly one
(`squeeze` + `np.concatenate`); no probe without channels (`array.max()`, merge.py:213, 226); the per-spike
arrays have as many entries in total as there are spikes (merge.py:50); the templates of all probes have the
waveform length of the first (merge.py:238); the `pc_feature_ind` tables of all probes have one row width, and so
have the `template_feature_ind` tables (`np.concatenate` in `_concat`, merge.py:30, 285: `ValueError` otherwise) -/
def InDomain (subdirs : List String) (I : Inputs) : Prop :=
  subdirs ≠ [] ∧
  NonEmpty I.clusters ∧ NonEmpty I.templates ∧ NonEmpty I.maps ∧ NonEmpty I.positions ∧
  (∀ a ∈ I.times, a.length ≠ 1) ∧ (∀ a ∈ I.amps, a.length ≠ 1) ∧
  (∀ a ∈ I.templates, a.length ≠ 1) ∧ (∀ a ∈ I.clusters, a.length ≠ 1) ∧
  I.amps.flatten.length = I.times.flatten.length ∧
  I.templates.flatten.length = I.times.flatten.length ∧
  I.clusters.flatten.length = I.times.flatten.length ∧
  (I.tmpl.all fun t => t.all fun tm => tm.length == ((I.tmpl.headD []).headD []).length) = true ∧
  sameWidth I.pcInd = true ∧ sameWidth I.tfInd = true

/-- the output directory after a successful merge into an empty directory, file by file -/
def expectedOut (subdirs : List String) (I : Inputs) (name : String) : Option File :=
  let counts := I.tmpl.map List.length
  if name = "params.py" then (C12.mergeParams I.params).map fun p => .params p.1 p.2
  else if name = "probes.description.tsv" then some (.labels subdirs)
  else if name = "spike_times.npy" then some (.ints (mergedTimes I.times))
  else if name = "amplitudes.npy" then some (.ints (gather I.amps (spikeOrder I.times)))
  else if name = "spike_templates.npy" then some (.nats (mergedTemplateIds I.times I.templates counts))
  else if name = "spike_clusters.npy" then some (.nats (mergedIds I.times I.clusters))
  else if name = "cluster_probes.npy" then some (.nats (clusterProbes I.clusters))
  else if name ∈ tsvNames then
    (if (mergeClusterData (I.tsv name) I.clusters).isEmpty then none
     else some (.tsv (mergeClusterData (I.tsv name) I.clusters)))
  else if name = "channel_map.npy" then some (.nats (C12.mergeChannelMaps I.maps))
  else if name = "channel_probe.npy" then some (.nats (C12.channelProbes I.maps))
  else if name = "channel_positions.npy" then some (.pos (C12.mergePositions I.positions))
  else if name = "templates.npy" then some (.tmpl (C12.mergeTemplates I.tmpl))
  else if name = "pc_feature_ind.npy" then some (.table (C12.mergePcInd I.maps I.pcInd))
  else if name = "template_feature_ind.npy" then some (.table (C12.mergeTfInd I.templates counts I.tfInd))
  else if name = "similar_templates.npy" then (C12.mergeOptional I.similar).map .mat
  else if name = "whitening_mat.npy" then (C12.mergeOptional I.whitening).map .mat
  else if name = "whitening_mat_inv.npy" then
    some (match C12.mergeOptional I.whiteningInv with
      | some m => .mat m                                         -- every probe has it: block-diagonal
      | none => .computedInv (C12.mergeOptional I.whitening))    -- skipped, then computed by the final load
  else none

/-- (for the examples of `Props/C11.lean`) two minimal probe directories (2 spikes, 2 channels, 1 template of 1 sample each) -/
def exampleProbe (dir : String) (t : List Int) (tsv : List (Nat × Nat)) : FS :=
  [((dir, "params.py"), .params 30000 2), ((dir, "spike_times.npy"), .ints t),
   ((dir, "amplitudes.npy"), .ints [10, 11]), ((dir, "spike_templates.npy"), .nats [0, 0]),
   ((dir, "spike_clusters.npy"), .nats [1, 0]), ((dir, "templates.npy"), .tmpl [[[5, 6]]]),
   ((dir, "channel_map.npy"), .nats [1, 0]), ((dir, "channel_positions.npy"), .pos [(0, 0), (10, 0)]),
   ((dir, "pc_feature_ind.npy"), .table [[0, 1]]), ((dir, "template_feature_ind.npy"), .table [[0]]),
   ((dir, "cluster_KSLabel.tsv"), .tsv tsv)]
def exampleFS : FS := exampleProbe "a" [3, 5] [(0, 7)] ++ exampleProbe "b" [4, 5] [] ++ [(("b", "whitening_mat.npy"), .mat [[1, 0], [0, 1]])]


end PhyVerif.C11
