import PhyVerif.Spec.C04
import PhyVerif.Model.C04c
/-!
Specification side of C04, second part: the rows of the table whose default is a concrete array
(zeros, identity), the channel positions, and what "the raw traces with columns permuted by the
channel map" means.  As in `Spec/C04.lean`, nothing here mentions `load`, `loadFull`, `findPath`.
-/
namespace PhyVerif.C04

/-- an array of the given shape holding zeros only -/
def IsZeros (shape : List Nat) (a : Arr) : Prop :=
  a.shape = shape ∧ a.data.length = shape.foldl (· * ·) 1 ∧ ∀ c ∈ a.data, c = Cell.num 0

/-- the `n × n` identity (`one` = the cell standing for 1.0) -/
def IsEye (one : Cell) (n : Nat) (a : Arr) : Prop :=
  a.shape = [n, n] ∧ a.data.length = n * n ∧
  ∀ i j, i < n → j < n → a.data[i * n + j]? = some (if i = j then one else Cell.num 0)

/-- a row of the table whose "when absent" column is a concrete array described by `Dflt` -/
def RowP (d : Dir) (pats : List String) (tr : Arr → Arr) (Dflt : Arr → Prop) (val : Arr) : Prop :=
  (∃ f a, Wins d pats f ∧ d.lookup f = some a ∧ val = tr a) ∨ (Absent d pats ∧ Dflt val)

/-- the channel positions shown: the file (transformed) when its rows are pairwise distinct,
otherwise the linear layout for `nc` channels -/
def ExpectedPositions (d : Dir) (nc : Nat) (p : Positions) : Prop :=
  ∃ f a, Wins d Attr.channelPositions.files f ∧ d.lookup f = some a ∧
    ((arrRows (Attr.channelPositions.transform a)).Nodup ∧ p = .file (Attr.channelPositions.transform a) ∨
     ¬ (arrRows (Attr.channelPositions.transform a)).Nodup ∧ p = .linear nc)

/-- spike times are non-decreasing (as numbers) -/
def NonDecreasing (l : List Int) : Prop := ∀ i (h : i + 1 < l.length), l[i] ≤ l[i + 1]

end PhyVerif.C04
