import PhyVerif.Model.C17
/-! Specification of C17 as decidable predicates on (input, output). -/
namespace PhyVerif.C17
open PhyVerif

/-- kept chunk intervals according to the statement: whole grid intervals at a regular stride
starting with the first -/
def keptIntervals (bounds : List Int) (nKept : Nat) : List (Int × Int) :=
  let nChunks := bounds.length - 1
  let s := stride nChunks nKept
  ((List.range nChunks).filter fun i => i % s == 0).map fun i => (bounds.getD i 0, bounds.getD (i + 1) 0)

def inKept (bounds : List Int) (nKept : Nat) (t : Int) : Bool :=
  (keptIntervals bounds nKept).any fun iv => decide (iv.1 ≤ t) && decide (t < iv.2)

/-- eligibility stated directly (not through searchsorted parity) -/
def eligibleSpec (x : Inp) (c : Nat) : List Nat :=
  (List.range x.clusters.length).filter fun i =>
    x.clusters.getD i 0 == c &&
    (!x.subsetChunks || inKept x.bounds x.nKept (x.times.getD i 0)) &&
    (match x.subset with | none => true | some s => s.contains i)

def strictIncN : List Nat → Bool
  | [] => true
  | [_] => true
  | a :: b :: t => decide (a < b) && strictIncN (b :: t)

/-- the selection constraints of C17 on an output `out` -/
def SpecOK (x : Inp) (out : List Nat) : Bool :=
  strictIncN out &&
  -- every returned spike exists and belongs to a requested cluster
  out.all (fun i => decide (i < x.clusters.length) && x.req.contains (x.clusters.getD i 0)) &&
  -- per requested cluster: all eligible spikes, or exactly `count` of them
  x.req.all (fun c =>
    let e := eligibleSpec x c
    let got := out.filter fun i => x.clusters.getD i 0 == c
    match x.count with
    | some n =>
      if n > 0 ∧ (e.length : Int) > n then
        decide ((got.length : Int) = n) && got.all (e.contains ·)
      else got == e
    | none => got == e)

/-- kept-chunk clause: flattened kept bounds are the kept intervals, at most `nKept` of them -/
def keptOK (bounds : List Int) (nKept : Nat) (flat : List Int) : Bool :=
  flat == (keptIntervals bounds nKept).flatMap (fun iv => [iv.1, iv.2]) &&
  decide ((keptIntervals bounds nKept).length ≤ nKept)

/-- grids in scope: at least two bounds, strictly increasing -/
def GridOK (bounds : List Int) : Prop := 2 ≤ bounds.length ∧ bounds.Pairwise (· < ·)

/-! ### The statement's own reading of "kept chunks", independent of the stride formula of the code

The property says: "the kept chunks are whole intervals of the supplied chunk grid taken at a regular stride
starting with the first, never more than the requested number". It does not say WHICH stride. `keptOKAny`
accepts every regular stride; `SpecOKIn` states the selection constraints relative to a given list of kept
intervals (so that an implementation choosing another admissible stride is not rejected). -/

/-- grid intervals `0, s, 2s, …` for an arbitrary stride `s` -/
def keptIntervalsAt (bounds : List Int) (s : Nat) : List (Int × Int) :=
  let nChunks := bounds.length - 1
  ((List.range nChunks).filter fun i => i % s == 0).map fun i => (bounds.getD i 0, bounds.getD (i + 1) 0)

def flatOf (ivs : List (Int × Int)) : List Int := ivs.flatMap fun iv => [iv.1, iv.2]

/-- `flat` is the flattened list of the grid intervals at SOME regular stride `s ≥ 1` starting with the first,
at most `nKept` of them.
The statement says "never MORE than the requested number"; it does not say "as many as the requested number
allows".  So this predicate — faithful to the words — also accepts a selector that keeps fewer chunks than it could,
down to the first chunk alone for every `nKept ≥ 1` (`keptOKAny [0,10,20,30] 3 [0,10] = true`, stride 3).  That the
code keeps as many as a regular stride allows is a fact about the MODEL (`stride_minimal`: its stride is the smallest
one that keeps at most `nKept` chunks); on the real selector it is checked by the exact comparison of `chunks_kept`
with the model — a CORR verdict, not a clause of the property. -/
def keptOKAny (bounds : List Int) (nKept : Nat) (flat : List Int) : Bool :=
  (List.range bounds.length).any fun s0 =>
    flat == flatOf (keptIntervalsAt bounds (s0 + 1)) &&
    decide ((keptIntervalsAt bounds (s0 + 1)).length ≤ nKept)

/-- a flattened list `[a0, b0, a1, b1, …]` read back as intervals -/
def pairsOf : List Int → List (Int × Int)
  | a :: b :: t => (a, b) :: pairsOf t
  | _ => []

def inIvs (ivs : List (Int × Int)) (t : Int) : Bool :=
  ivs.any fun iv => decide (iv.1 ≤ t) && decide (t < iv.2)

/-- eligibility relative to a given list of kept intervals -/
def eligibleSpecIn (ivs : List (Int × Int)) (x : Inp) (c : Nat) : List Nat :=
  (List.range x.clusters.length).filter fun i =>
    x.clusters.getD i 0 == c &&
    (!x.subsetChunks || inIvs ivs (x.times.getD i 0)) &&
    (match x.subset with | none => true | some s => s.contains i)

/-- the selection constraints of C17 relative to a given list of kept intervals -/
def SpecOKIn (ivs : List (Int × Int)) (x : Inp) (out : List Nat) : Bool :=
  strictIncN out &&
  out.all (fun i => decide (i < x.clusters.length) && x.req.contains (x.clusters.getD i 0)) &&
  x.req.all (fun c =>
    let e := eligibleSpecIn ivs x c
    let got := out.filter fun i => x.clusters.getD i 0 == c
    match x.count with
    | some n =>
      if n > 0 ∧ (e.length : Int) > n then
        decide ((got.length : Int) = n) && got.all (e.contains ·)
      else got == e
    | none => got == e)

/-- The same input seen through a map `f` of the time axis (spike times and chunk bounds).  The model's times are
`Int`; the real selector takes any NumPy numbers (floats, negative values, fractional bounds — `test_array.py` uses a
grid `[0.0, 1.1, 2.2, …]`).  Only the ORDER of times and bounds enters the selection (`searchsorted`), so a strictly
increasing `f` changes nothing (`selection_order_invariant`): every finite set of rational times and bounds is the
image of integers under such a map (multiply by a common denominator), which is how the correspondence run feeds
fractional / negative times to the real code while the model keeps integers.  (NaN times have no place in any order:
outside.) -/
def Inp.mapTimes (f : Int → Int) (x : Inp) : Inp := { x with times := x.times.map f, bounds := x.bounds.map f }

/-- the inputs the real selector accepts: a grid of ≥ 2 strictly increasing bounds, at least one chunk to keep
(`n_chunks_kept = 0` makes the constructor raise ZeroDivisionError), one time per spike (a spike without a
time makes `spike_times[spike_ids]` raise IndexError) -/
structure Dom (x : Inp) : Prop where
  grid : GridOK x.bounds
  kept : 1 ≤ x.nKept
  times : x.times.length = x.clusters.length

/-- `n_spk_clu` without effect: `None`, `0` or a negative number (`if n_spk_clu is not None and n_spk_clu > 0`) -/
def NoCount (x : Inp) : Prop := match x.count with | none => True | some n => n ≤ 0

/-- every spike a selection may return, stated in one filter over the spike ids: its cluster is requested, its time lies
in a kept chunk when chunk restriction is on, it is listed in the subset when one is given -/
def allEligible (x : Inp) : List Nat :=
  (List.range x.clusters.length).filter fun i =>
    x.req.contains (x.clusters.getD i 0) &&
    (!x.subsetChunks || inKept x.bounds x.nKept (x.times.getD i 0)) &&
    (match x.subset with | none => true | some s => s.contains i)

end PhyVerif.C17
