import PhyVerif.Model.C09
/-! Direct formulas of C09. -/
namespace PhyVerif.C09
open PhyVerif

/-- member spikes of id `t` -/
def membersOf (spikes : List Nat) (t : Nat) : List Nat :=
  (List.range spikes.length).filter fun i => spikes.getD i 0 == t

/-- mean of `w` over the member spikes of `t`; `none` (NaN) when `t` has no spike -/
def meanOver (spikes : List Nat) (w : List Rat) (t : Nat) : Option Rat :=
  let m := membersOf spikes t
  if m.length = 0 then none else some ((m.map fun i => w.getD i 0).sum / (m.length : Nat))

/-- `i` is a first position of the maximum of `l` -/
def IsFirstMax (l : List Rat) (i : Nat) : Prop :=
  i < l.length ∧ (∀ j, j < l.length → l.getD j 0 ≤ l.getD i 0) ∧ ∀ j, j < i → l.getD j 0 < l.getD i 0

def IsFirstMin (l : List Rat) (i : Nat) : Prop :=
  i < l.length ∧ (∀ j, j < l.length → l.getD i 0 ≤ l.getD j 0) ∧ ∀ j, j < i → l.getD i 0 < l.getD j 0

end PhyVerif.C09
