import PhyVerif.Model.C10
/-! Abstract "last write wins" state of C10. -/
namespace PhyVerif.C10
open PhyVerif.C18 (Cell)

/-- abstract state: last saved assignments, last saved mapping per metadata field -/
structure Abs where
  clusters : List Nat
  fields : List (String × List (Nat × Cell))
deriving Repr, DecidableEq

def absStep (a : Abs) : Op → Abs
  | .saveClusters sc => { a with clusters := sc }
  | .saveMeta field m => { a with fields := (a.fields.filter fun p => p.1 != field) ++ [(field, cleanMeta m)] }
  | _ => a

def absRun (a : Abs) (ops : List Op) : Abs := ops.foldl absStep a

/-- histories in scope for the refinement theorem: only the model's own saves touch metadata
(foreign files are covered separately), and field names are plain (not `cluster_id`) -/
def OwnOps (ops : List Op) : Prop :=
  ∀ op ∈ ops, match op with
    | .writeFile _ _ => False
    | .saveMeta field _ => field ≠ "cluster_id"
    | _ => True

/-- the metadata a reload shows for one field, as (id, value) pairs -/
def fieldView (parse : String → Cell) (d : Disk) (field : String) : Option (List (Cell × Cell)) :=
  (metadataView parse d.files).lookup field

end PhyVerif.C10
