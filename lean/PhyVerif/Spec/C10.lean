import PhyVerif.Model.C10
import PhyVerif.Spec.C03
/-! Abstract "last write wins" state of C10. -/
namespace PhyVerif.C10
open PhyVerif.C18 (Cell)

/-- abstract state: last saved assignments, last saved mapping per metadata field -/
structure Abs where
  clusters : List Nat
  fields : List (String × List (Nat × Cell))
deriving Repr, DecidableEq

def absStep (a : Abs) : Op → Abs
  | .saveClusters sc => { a with clusters := sc }
  | .saveMeta field m => { a with fields := (a.fields.filter fun p => p.1 != field) ++ [(field, cleanMeta m)] }
  | _ => a

def absRun (a : Abs) (ops : List Op) : Abs := ops.foldl absStep a

/-- an assignment array a load accepts: one cluster id per spike (`assert self.spike_clusters.shape == (ns,)`,
model.py l. 374 — a file of any other length makes `load_model` raise AssertionError), at least one spike (`np.max(uc)` of
an empty array raises ValueError, l. 630), and ids that `astype(np.int32)` (l. 628) keeps (an id ≥ 2^31 wraps to a
negative number: the load shows another id than the one saved) -/
def AssignOK (ns : Nat) (sc : List Nat) : Prop :=
  sc.length = ns ∧ sc ≠ [] ∧ ∀ c ∈ sc, c < 2 ^ 31

/-- every `save_spike_clusters(sc)` of the history is given an array a later load accepts (`AssignOK`): what the
supervisor passes — `save_spike_clusters` itself checks nothing and `np.save`s whatever it is given -/
def SavesOK (ns : Nat) (ops : List Op) : Prop :=
  ∀ op ∈ ops, match op with
    | .saveClusters sc => AssignOK ns sc
    | _ => True

/-- histories in scope for the refinement theorem: only the model's own saves touch metadata
(foreign files are covered separately), and field names are plain (not `cluster_id`) -/
def OwnOps (ops : List Op) : Prop :=
  ∀ op ∈ ops, match op with
    | .writeFile _ _ => False
    | .saveMeta field _ => field ≠ "cluster_id"
    | _ => True

variable {α : Type} [Zero α]

/-- the metadata a reload shows for one field, as (id, value) pairs -/
def fieldView (parse : String → Cell) (fnum : Nat → Option Int) (d : Disk α) (field : String) :
    Option (List (Cell × Cell)) :=
  (metadataView parse fnum d.files).lookup field

/-- what ONE file says about a field: nothing (`none`) when the file is `cluster_info.*`, is unreadable, or has
no row giving the field a value next to a `cluster_id` -/
def fileField (parse : String → Cell) (fnum : Nat → Option Int) (field : String) (p : FName × File) :
    Option (List (Cell × Cell)) :=
  if p.1.1 == "cluster_info" then none else
  (loadMetadata parse fnum p.2).bind fun fields => fields.reverse.lookup field

/-- after a `save_metadata(field, …)` the rest of the history leaves that file alone: no later save of the same
field (that would be the LAST save) and no foreign write to `cluster_<field>.tsv` itself (the property speaks of
metadata in OTHER files). Everything else — saves of other fields, foreign files of any name and content, exports,
close, reload — is allowed. -/
def KeepsSaved (field : String) (post : List Op) : Prop :=
  ∀ op ∈ post, match op with
    | .saveMeta f _ => f ≠ field
    | .writeFile s _ => s ≠ ("cluster_" ++ field, true)
    | _ => True

/-- the fixed part of a dataset in scope of the subset-store theorems: what `load_model` requires of the files a
history never writes, and a raw recording (without one nothing is exported, `export_needs_raw`) -/
structure FixedOK (nch : Nat) (fx : Fixed α) : Prop where
  raw : fx.hasRaw = true
  rect : C03.Rect fx.raw nch
  tile : PhyVerif.C16.intervalsTile fx.raw.length fx.chunks = true      -- C16 theorems
  sorted : fx.spikeSamples.Pairwise (· ≤ ·)                             -- the loader rejects non-monotone times (C04)
  inrange : ∀ s ∈ fx.spikeSamples, 0 ≤ s ∧ s < fx.raw.length
  tlen : fx.spikeTemplates.length = fx.spikeSamples.length
  tbound : ∀ t ∈ fx.spikeTemplates, t < fx.orders.length
  ord : ∀ o ∈ fx.orders, C03.ChOK nch o
  nsw : 0 < fx.nsw
  closest : 0 < fx.nClosest

/-- the selections in scope: what `SpikeSelector` returns — increasing distinct ids of existing spikes -/
def SelOK (fx : Fixed α) (ops : List Op) : Prop :=
  ∀ op ∈ ops, match op with
    | .saveSubset sel _ => sel.Pairwise (· < ·) ∧ ∀ i ∈ sel, i < fx.spikeSamples.length
    | _ => True

/-- the subset files a history may START with: none, or what an in-scope export of an earlier session on the same
dataset wrote (every session of phy after the first finds such files) -/
def SubsetFromExport (scale : α → α) (fx : Fixed α) (sub : Option (C03.SubsetFiles α)) : Prop :=
  sub = none ∨ ∃ sel maxN, sel.Pairwise (· < ·) ∧ (∀ i ∈ sel, i < fx.spikeSamples.length) ∧
    sub = some (C03.saveSubset scale fx.raw fx.chunks fx.spikeSamples fx.spikeTemplates fx.orders sel
      fx.nsw (C03.subsetWidth maxN fx.nClosest))

end PhyVerif.C10
