import PhyVerif.Model.C09c
import PhyVerif.Spec.C09b
/-!
Specification side of `Model/C09c.lean`: which id space a summary is indexed by, and what "unwhitened" means.
-/
namespace PhyVerif.C09
open PhyVerif

/-- the assignment that indexes the summaries of the id space selected by `use`:
`spike_clusters` for the per-cluster ones, `spike_templates` for the per-template ones -/
def assignment (s : Stored) (clusters : Bool) : List Nat := if clusters then s.sc else s.st

/-- number of ids of the selected id space: one per template for the per-template summaries and for clusters that
were never curated; one per id from 0 to the highest cluster id after any curation -/
def idCount (s : Stored) (clusters : Bool) : Nat :=
  if clusters = true ∧ s.sc ≠ s.st then s.sc.foldl max 0 + 1 else s.templates.length

/-- `wm · wmi = 1` on entries, both `nc × nc`: `wmi` undoes the whitening `U ↦ U · wm` -/
def Unwhitens (wm wmi : Mat) (nc : Nat) : Prop :=
  Rect wm nc nc ∧ Rect wmi nc nc ∧
    ∀ i, i < nc → ∀ j, j < nc → (sumTo nc fun k => entry wm i k * entry wmi k j) = if i = j then 1 else 0

instance (wm wmi : Mat) (nc : Nat) : Decidable (Unwhitens wm wmi nc) := by unfold Unwhitens; infer_instance

end PhyVerif.C09
