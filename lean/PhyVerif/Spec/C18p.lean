import PhyVerif.Model.C18p
import PhyVerif.Spec.C18c
/-! Value domain of the parameter files of C18. -/
namespace PhyVerif.C18

/-- characters that can stand inside a name / number token -/
def AtomChars (a : Str) : Prop := ∀ c ∈ a, isSpace c = false ∧ isPunct c = false ∧ isQuote c = false

instance (a : Str) : Decidable (AtomChars a) := by unfold AtomChars; infer_instance

/-- no control character other than tab / newline / carriage return (`repr` writes those others as
`\xhh`, which the model does not cover).  Not used by the proofs: it delimits where `escapeBody` is
what `repr` does. -/
def NoOtherCtl (s : Str) : Prop := ∀ c ∈ s, (32 ≤ c.toNat ∧ c.toNat ≠ 127) ∨ c = '\t' ∨ c = '\n' ∨ c = '\r'

/-- elements of lists / tuples in scope: None, booleans, integers, strings; a float is given by its
`repr` text, which must be one token that the literal reader takes for a float (`'30000.0'`,
`'1e-05'`, `'-2.5'`; not `inf`/`nan`: `exec` raises NameError on those) -/
def PScalarOK : PScalar → Prop
  | .float lit => lit.toList ≠ [] ∧ AtomChars lit.toList ∧ NoBreak lit.toList ∧
      parseAtom lit.toList = some (.float lit)
  | .str s => NoOtherCtl s.toList
  | _ => True

/-- a top-level string is written between double quotes as it is (`'"%s"' % v`): it must not contain a
double quote, a backslash or a line break (real code: SyntaxError or another string) -/
def TopStrOK (s : String) : Prop :=
  (∀ c ∈ s.toList, c ≠ '"' ∧ c ≠ '\\') ∧ NoBreak s.toList ∧ NoOtherCtl s.toList

def PValOK : PVal → Prop
  | .scalar (.str s) => TopStrOK s
  | .scalar a => PScalarOK a
  | .list l => ∀ a ∈ l, PScalarOK a
  | .tuple l => ∀ a ∈ l, PScalarOK a

/-- variable names in scope: ASCII identifiers that are not keywords -/
def ParamKeyOK (k : String) : Prop := isIdent k.toList = true

instance (k : String) : Decidable (ParamKeyOK k) := by unfold ParamKeyOK; infer_instance

end PhyVerif.C18
