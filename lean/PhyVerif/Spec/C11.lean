import PhyVerif.Model.C11
/-! Specification of C11: a merged spike is identified by (probe, index in probe). -/
namespace PhyVerif.C11
open PhyVerif

/-- (probe, index in probe) of every input spike, in concatenation order -/
def origins {α : Type} (arrays : List (List α)) : List (Nat × Nat) :=
  (arrays.zipIdx.map fun p => (List.range p.1.length).map fun i => (p.2, i)).flatten

/-- origin of each merged spike -/
def mergedOrigins (times : List (List Int)) : List (Nat × Nat) :=
  (spikeOrder times).filterMap ((origins times)[·]?)

/-- lexicographic order on origins: probe first, then index -/
def originLt (a b : Nat × Nat) : Prop := a.1 < b.1 ∨ (a.1 = b.1 ∧ a.2 < b.2)

/-- time of the spike with a given origin -/
def timeOf (times : List (List Int)) (o : Nat × Nat) : Int := (times.getD o.1 []).getD o.2 0

/-- every probe has at least one spike (needed for `np.max`) -/
def NonEmpty {α : Type} (arrays : List (List α)) : Prop := ∀ a ∈ arrays, a ≠ []

/-- two families of arrays have the same shape -/
def SameShape {α β : Type} (a : List (List α)) (b : List (List β)) : Prop :=
  a.length = b.length ∧ ∀ k, (a.getD k []).length = (b.getD k []).length

end PhyVerif.C11
