import PhyVerif.Model.C07
/-! Set-theoretic definitions the C07 helpers must agree with. -/
namespace PhyVerif.C07
open PhyVerif

/-- increasing positions (or supplied spike ids at those positions) carrying cluster `c` -/
def members (sc : List Nat) (ids : Option (List Nat)) (c : Nat) : List Nat :=
  ((List.range sc.length).filter fun i => sc.getD i 0 == c).map fun i =>
    (ids.getD (List.range sc.length)).getD i 0

/-- sorted distinct values -/
def distinctSorted (l : List Nat) : List Nat := Np.unique (l.map Int.ofNat)

/-- the grouping the property describes: one entry per cluster present, in increasing id
order, holding exactly its members -/
def specGroups (sc : List Nat) (ids : Option (List Nat)) : List (Nat × List Nat) :=
  (distinctSorted sc).map fun c => (c, members sc ids c)

/-- per sorted distinct cluster: (sum of arr over its members, number of members) -/
def groupedSums (arr : List Int) (sc : List Nat) : List (Int × Nat) :=
  (distinctSorted sc).map fun c =>
    let sel := (List.range sc.length).filter fun i => sc.getD i 0 == c
    ((sel.map fun i => arr.getD i 0).sum, sel.length)

/-- `_index_of`'s set-theoretic definition: for every element of `arr` its position in `lookup` (first
occurrence; `lookup.length` for an element that is absent).  Independent of the magnitude of the ids —
the table model `Np.indexTable` is a list as long as the largest id, so the correspondence compares the real
code with this definition where that list would have millions of cells (`indexOf_spec` proves that the
two agree on duplicate-free lookups holding every element of `arr`). -/
def positionsIn (arr : List Int) (lookup : List Nat) : List Int :=
  arr.map fun a => Int.ofNat (lookup.idxOf a.toNat)

/-- ids fit the dtype (so that the dtype holds them at all) -/
def FitsDtype (w : Nat) (signed : Bool) (sc : List Nat) : Prop :=
  ∀ c ∈ sc, (c : Int) < (if signed then 2 ^ (w - 1) else 2 ^ w)

/-- strictly increasing with exactly the given membership -/
def IsSortedSetOf (out : List Nat) (p : Nat → Prop) : Prop :=
  out.Pairwise (· < ·) ∧ ∀ v, v ∈ out ↔ p v

end PhyVerif.C07
