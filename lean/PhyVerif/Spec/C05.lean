import PhyVerif.Model.C05
/-! Specification of C05 as decidable predicates on a returned record (accepting any tie order). -/
namespace PhyVerif.C05
open PhyVerif PhyVerif.C09

def nonIncreasing : List Rat → Bool
  | [] => true
  | [_] => true
  | a :: b :: t => decide (b ≤ a) && nonIncreasing (b :: t)

/-- alignment: column j of the record is the full waveform `T` on listed channel j and amplitude j
is that column's peak-to-peak -/
def alignedOK (T : Mat) (r : Record) : Bool :=
  (r.template == T.map fun row => r.channels.map fun c => row.getD c 0) &&
  (r.amplitude == r.channels.map fun c => ptp (col T c)) &&
  (r.amplitude.length == r.channels.length)

/-- `c` is among the `n` nearest channels of `b`, unambiguously (strictly closer than the n-th
nearest) / unambiguously not (strictly farther than the n-th nearest) -/
def nearInfo (g : Geometry) (b c : Nat) : Bool × Bool :=
  let nc := g.positions.length
  let ds := (List.range nc).map (dist2 g.positions b)
  let sorted := Np.isort (fun (a b : Rat) => decide (a ≤ b)) ds
  if g.nClosest = 0 || g.nClosest ≥ nc then (true, false)
  else
    let cut := sorted.getD (g.nClosest - 1) 0          -- n-th smallest distance
    let nxt := sorted.getD g.nClosest 0                -- (n+1)-th smallest
    let d := ds.getD c 0
    if cut < nxt then (decide (d ≤ cut), decide (d > cut))      -- no tie at the cut
    else (decide (d < cut), decide (d > cut))                    -- tie: only strict cases are determined

/-- the set of the `n` nearest channels of `b` is unambiguous (no distance tie exactly at the cut) -/
def nearDetermined (g : Geometry) (b : Nat) : Bool :=
  let nc := g.positions.length
  let ds := (List.range nc).map (dist2 g.positions b)
  let sorted := Np.isort (fun (a b : Rat) => decide (a ≤ b)) ds
  g.nClosest = 0 || g.nClosest ≥ nc || decide (sorted.getD (g.nClosest - 1) 0 < sorted.getD g.nClosest 0)

/-- dense record with automatic channel selection, everything but the cardinality of the neighbourhood at a distance
tie (`nearCountOK` below) -/
def denseBaseOK (g : Geometry) (T : Mat) (thr : Rat) (r : Record) : Bool :=
  let nc := ncols T
  let amp := chAmps T
  let mx := listMax amp
  alignedOK T r &&
  (r.channels.eraseDups == r.channels) && r.channels.all (· < nc) &&
  nonIncreasing r.amplitude &&
  decide (r.best < nc) && (amp.getD r.best 0 == mx) &&
  (match r.channels with | [] => false | c0 :: _ => amp.getD c0 0 == mx) &&
  (List.range nc).all (fun c =>
    let cond := decide (amp.getD c 0 ≥ thr * mx) &&
      (match g.shanks with | some sh => sh.getD c 0 == sh.getD r.best 0 | none => true)
    let (must, mustNot) := nearInfo g r.best c
    let inS := r.channels.contains c
    (!(must && cond) || inS) && (!(mustNot || !cond) || !inS))

/-- channel `c` reaches the threshold fraction of the peak and lies on the shank of channel `best` -/
def eligible (g : Geometry) (T : Mat) (thr : Rat) (best c : Nat) : Bool :=
  decide ((chAmps T).getD c 0 ≥ thr * listMax (chAmps T)) &&
    (match g.shanks with | some sh => sh.getD c 0 == sh.getD best 0 | none => true)

/-- "Exactly those among the nearest channels", cardinality at a distance tie.  With `0 < n < nc` let `cut` be the
`n`-th smallest distance to `b` and `s` the number of channels strictly closer than `cut`: EVERY set of `n` nearest
channels consists of those `s` channels and of exactly `n − s` of the channels AT distance `cut`.  The listed
channels are (eligible ∩ N) for SOME such set `N` iff, among the channels at distance `cut`, at most `n − s` are
listed (`s + a ≤ n`) and the eligible ones that are NOT listed leave room for `n − s` chosen ones
(`n + b ≤ s + #tie`).  (Without a tie at the cut this says: every eligible channel at distance `cut` is listed.) -/
def nearCountOK (g : Geometry) (b : Nat) (elig : Nat → Bool) (listed : List Nat) : Bool :=
  let nc := g.positions.length
  let ds := (List.range nc).map (dist2 g.positions b)
  let sorted := Np.isort (fun (a b : Rat) => decide (a ≤ b)) ds
  if g.nClosest = 0 || g.nClosest ≥ nc then true
  else
    let cut := sorted.getD (g.nClosest - 1) 0
    let s := ((List.range nc).filter fun c => decide (ds.getD c 0 < cut)).length
    let tie := (List.range nc).filter fun c => decide (ds.getD c 0 = cut)
    let a := (tie.filter fun c => listed.contains c).length
    let bb := (tie.filter fun c => elig c && !listed.contains c).length
    decide (s + a ≤ g.nClosest) && decide (g.nClosest + bb ≤ s + tie.length)

/-- dense record with automatic channel selection -/
def denseOK (g : Geometry) (T : Mat) (thr : Rat) (r : Record) : Bool :=
  denseBaseOK g T thr r && nearCountOK g r.best (eligible g T thr r.best) r.channels

/-- dense record with the caller's explicit channel list -/
def denseExplicitOK (T : Mat) (l : List Nat) (r : Record) : Bool :=
  alignedOK T r && (r.channels == l) && (chAmps T).getD r.best 0 == listMax (chAmps T)

/-- sparse record: `Tfull` is the (unwhitened) template on the kept stored channels `ch` (in
storage order); listed channels = stored minus unused (−1) and signal-free ones -/
def sparseOK (ch : List Nat) (Tkept : Mat) (r : Record) : Bool :=
  let amp := (List.range ch.length).map fun j => ptp (col Tkept j)
  (r.channels.eraseDups == r.channels || !(ch.eraseDups == ch)) &&
  nonIncreasing r.amplitude &&
  (r.amplitude.length == r.channels.length) && (r.channels.length == ch.length) &&
  r.channels.all (ch.contains ·) && ch.all (r.channels.contains ·) &&
  -- alignment through the storage position of each listed channel
  (List.range r.channels.length).all (fun j =>
    let k := ch.idxOf (r.channels.getD j 0)
    (r.template.map fun row => row.getD j 0) == col Tkept k && r.amplitude.getD j 0 == amp.getD k 0) &&
  (match r.channels with | [] => true | c0 :: _ => amp.getD (ch.idxOf c0) 0 == listMax amp) &&
  (ch.isEmpty || amp.getD (ch.idxOf r.best) 0 == listMax amp)

/-- well-formed dense input: a rectangular `(ns ≥ 1, nc ≥ 1)` waveform, one position (and shank)
per channel, positions pairwise distinct (the loader replaces non-distinct positions by a linear
layout, and `get_closest_channels` asserts that the nearest channel is the channel itself) -/
def DenseWF (g : Geometry) (T : Mat) : Prop :=
  T ≠ [] ∧ 0 < ncols T ∧ (∀ row ∈ T, row.length = ncols T) ∧ g.positions.length = ncols T ∧
  (∀ sh, g.shanks = some sh → sh.length = ncols T) ∧ g.positions.Nodup

end PhyVerif.C05
