import PhyVerif.Model.C06
/-! What densification must return, stated entry by entry. -/
namespace PhyVerif.C06
open PhyVerif

variable {β : Type}

/-- the dense value at (row, requested channel `c`): the stored value whose column index names
`c`, zero where `c` is not stored -/
def denseEntry (zero : β) (data : List β) (cols : List Int) (c : Nat) : β :=
  match cols.idxOf? (Int.ofNat c) with
  | some k => data.getD k zero
  | none => zero

/-- column rows in scope: the real (non-negative) entries of a row are distinct; −1 may repeat -/
def ColsOK (cols : List (List Int)) : Prop := ∀ row ∈ cols, (row.filter (0 ≤ ·)).Nodup

/-- the stored row of spike `q` -/
def storedRow (sf : Sparse β) (q : Nat) : Option (List β) :=
  match sf.rows with
  | some rows => if rows.contains q then sf.data[rows.idxOf q]? else none
  | none => sf.data[q]?

/-- the column table row that applies to spike `q` -/
def colsRow (sf : Sparse β) (nloc : Nat) (spikeTemplates : List Nat) (q : Nat) : List Int :=
  match sf.cols with
  | some cols => cols.getD (spikeTemplates.getD q 0) []
  | none => (List.range nloc).map Int.ofNat

/-- well-formed store: rectangular data of width nloc, column table rows of width nloc, distinct
row-table ids, one data row per row-table id (or per spike when there is no row table) -/
def StoreOK (sf : Sparse β) (nloc nSpikes nTemplates : Nat) (spikeTemplates : List Nat) : Prop :=
  (∀ r ∈ sf.data, r.length = nloc) ∧
  (∀ cols, sf.cols = some cols → cols.length = nTemplates ∧ (∀ r ∈ cols, r.length = nloc) ∧ ColsOK cols) ∧
  (∀ rows, sf.rows = some rows → rows.Nodup ∧ rows.length = sf.data.length) ∧
  (sf.rows = none → sf.data.length = nSpikes) ∧
  spikeTemplates.length = nSpikes ∧ (∀ t ∈ spikeTemplates, t < nTemplates)

end PhyVerif.C06
