import PhyVerif.Model.C01b
import PhyVerif.Spec.C01
/-! The concatenated recording a `Source` stands for, and what it means that the source is a well-formed
recording (the layouts C01 quantifies over). -/
namespace PhyVerif.C01
open PhyVerif

/-- the single array obtained by concatenating the files in order -/
def Source.concat {α : Type} : Source α → List α
  | .flat files _ _ _ _ _ => (files.map (·.rows)).flatten
  | .array a _ => a.rows
  | .npy paths _ => (paths.map (·.rows)).flatten
  | .cbin readers => (readers.map (·.2)).flatten

/-- its number of columns, sample type and sample rate (for several npy / compressed files: of the first) -/
def Source.width {α : Type} : Source α → Nat
  | .flat _ _ _ nch _ _ => nch
  | .array a _ => a.ncols
  | .npy paths _ => (paths.head?.map (·.ncols)).getD 0
  | .cbin readers => (readers.head?.map (·.1.nChannels)).getD 0

def Source.dtype {α : Type} : Source α → String
  | .flat _ _ _ _ dtype _ => dtype
  | .array a _ => a.dtype
  | .npy paths _ => (paths.head?.map (·.dtype)).getD ""
  | .cbin readers => (readers.head?.map (·.1.dtype)).getD ""

def Source.rate {α : Type} : Source α → Rat
  | .flat _ _ _ _ _ rate => rate
  | .array _ rate => rate
  | .npy _ rate => rate
  | .cbin readers => (readers.head?.map (·.1.rate)).getD 0

def Source.backend {α : Type} : Source α → Backend
  | .flat .. => .flat
  | .array .. => .array
  | .npy .. => .npy
  | .cbin .. => .cbin

/-- The sample rates C01 quantifies over for flat / in-memory / npy readers: those the constructor accepts.
`chunk_size = int(round(600.0 * sample_rate))` is computed with the FLOAT product (`C16.chunkSizeFl`), and
`_get_chunk_bounds` asserts `chunk_size > 0` (traces.py:144): by `C16.chunkSizeFl_pos_iff` that is
`1/2 + 2^-54 < 600·rate` for the exact value `rate` of the double (NOT `1/1200 < rate`: the double nearest to
1/1200 is `7686143364045647/2^63 > 1/1200`, its float product is the tie 0.5, `round(0.5) = 0`, and the real
constructor raises AssertionError — ran it; the next double above is accepted with chunk length 1).  The upper
bound is the range on which `Fl.roundDouble` is the binary64 product (`Fl.InRange`): from `600·rate ≥ 2^1024 - 2^970`
on (rates of about 3e305 Hz and more) the float product is `inf` and `round` raises OverflowError — ran it:
`sample_rate=2.9e305` builds, `3e305` raises. -/
def RateOK (rate : Rat) : Prop :=
  1/2 + 1/18014398509481984 < 600 * rate ∧ 600 * rate < Fl.pow2 1024 - Fl.pow2 970

instance (rate : Rat) : Decidable (RateOK rate) := by unfold RateOK; infer_instance

/-- The layouts of C01.
* flat: at least one file; positive item size and channel count; every file is exactly the header followed
  by its rows (`offset + rows·nch·itemsize` bytes); a rate the constructor accepts (`RateOK`; at and below
  the lower bound the real constructor raises `AssertionError`, from the upper bound on `OverflowError`).
* array: the same condition on the rate.
* npy: exactly one path (the constructor raises `ValueError` for any other number); the same condition on the rate.
* cbin: exactly one compressed file (for several the constructor silently keeps the first — the open known
  finding of C01); the decoder contract: the last entry of the chunk table is the number of rows of the
  decoded recording (mtscomp asserts it when writing); a non-zero rate (the `duration` property divides by it;
  no chunk length is computed from it: the table stored in the `.ch` file is taken as it is). -/
def SrcOK {α : Type} : Source α → Prop
  | .flat files off isz nch _ rate =>
    files ≠ [] ∧ 0 < isz ∧ 0 < nch ∧ (∀ f ∈ files, f.fsize = off + f.rows.length * nch * isz) ∧
      RateOK rate
  | .array _ rate => RateOK rate
  | .npy paths rate => paths.length = 1 ∧ RateOK rate
  | .cbin readers =>
    readers.length = 1 ∧ ∀ md ∈ readers, md.1.chunkBounds.getLast? = some md.2.length ∧ md.1.rate ≠ 0

/-- the rate condition of `SrcOK`, decided (for the correspondence run: which generated rates are in the domain) -/
def Source.rateOK {α : Type} : Source α → Bool
  | .flat _ _ _ _ _ rate => decide (RateOK rate)
  | .array _ rate => decide (RateOK rate)
  | .npy _ rate => decide (RateOK rate)
  | .cbin readers => readers.all fun md => decide (md.1.rate ≠ 0)

/-- is the index expression a list/array of sample indices? -/
def Item.isList : Item → Bool
  | .list _ => true
  | _ => false

/-! concrete recordings used by the non-vacuity examples of `Props/C01.lean` -/
/-- two flat files (header 5 bytes, int16, 2 channels, 2 + 1 rows) at 1/400 Hz; one compressed file; an in-memory
array of 3 rows at a given rate; the double nearest to 1/1200 and the next double above it -/
def exFlat : Source (List Nat) :=
  .flat [⟨13, [[1, 2], [3, 4]]⟩, ⟨9, [[5, 6]]⟩] 5 2 2 "int16" (1/400)
def exCbin : Source (List Nat) :=
  .cbin [(⟨2, "int16", 10, [0, 2, 3]⟩, [[1, 2], [3, 4], [5, 6]])]

def exArr (rate : Rat) : Source (List Nat) := .array ⟨[[1, 2], [3, 4], [5, 6]], 2, "int16"⟩ rate
def rate1200 : Rat := 7686143364045647 / 9223372036854775808
def rate1200up : Rat := 7686143364045648 / 9223372036854775808

end PhyVerif.C01
