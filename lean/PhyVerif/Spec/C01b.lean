import PhyVerif.Model.C01b
import PhyVerif.Spec.C01
/-! The concatenated recording a `Source` stands for, and what it means that the source is a well-formed
recording (the layouts C01 quantifies over). -/
namespace PhyVerif.C01
open PhyVerif

/-- the single array obtained by concatenating the files in order -/
def Source.concat {α : Type} : Source α → List α
  | .flat files _ _ _ _ _ => (files.map (·.rows)).flatten
  | .array a _ => a.rows
  | .npy paths _ => (paths.map (·.rows)).flatten
  | .cbin readers => (readers.map (·.2)).flatten

/-- its number of columns, sample type and sample rate (for several npy / compressed files: of the first) -/
def Source.width {α : Type} : Source α → Nat
  | .flat _ _ _ nch _ _ => nch
  | .array a _ => a.ncols
  | .npy paths _ => (paths.head?.map (·.ncols)).getD 0
  | .cbin readers => (readers.head?.map (·.1.nChannels)).getD 0

def Source.dtype {α : Type} : Source α → String
  | .flat _ _ _ _ dtype _ => dtype
  | .array a _ => a.dtype
  | .npy paths _ => (paths.head?.map (·.dtype)).getD ""
  | .cbin readers => (readers.head?.map (·.1.dtype)).getD ""

def Source.rate {α : Type} : Source α → Rat
  | .flat _ _ _ _ _ rate => rate
  | .array _ rate => rate
  | .npy _ rate => rate
  | .cbin readers => (readers.head?.map (·.1.rate)).getD 0

def Source.backend {α : Type} : Source α → Backend
  | .flat .. => .flat
  | .array .. => .array
  | .npy .. => .npy
  | .cbin .. => .cbin

/-- The layouts of C01.
* flat: at least one file; positive item size and channel count; every file is exactly the header followed
  by its rows (`offset + rows·nch·itemsize` bytes); the rate passes the constructor's `assert chunk_size > 0`
  (`rate > 1/1200`, `Lemmas.chunkSize_pos_iff`; the real constructor raises `AssertionError` at and below it).
* array: the same condition on the rate.
* npy: exactly one path (the constructor raises `ValueError` for any other number).
* cbin: exactly one compressed file (for several the constructor silently keeps the first — the open known
  finding of C01); the decoder contract: the last entry of the chunk table is the number of rows of the
  decoded recording (mtscomp asserts it when writing); a non-zero rate (the `duration` property divides by it). -/
def SrcOK {α : Type} : Source α → Prop
  | .flat files off isz nch _ rate =>
    files ≠ [] ∧ 0 < isz ∧ 0 < nch ∧ (∀ f ∈ files, f.fsize = off + f.rows.length * nch * isz) ∧
      1/1200 < rate
  | .array _ rate => 1/1200 < rate
  | .npy paths rate => paths.length = 1 ∧ 1/1200 < rate
  | .cbin readers =>
    readers.length = 1 ∧ ∀ md ∈ readers, md.1.chunkBounds.getLast? = some md.2.length ∧ md.1.rate ≠ 0

/-- is the index expression a list/array of sample indices? -/
def Item.isList : Item → Bool
  | .list _ => true
  | _ => false

/-! concrete recordings used by the non-vacuity examples of `Props/C01.lean` -/
/-- two flat files (header 5 bytes, int16, 2 channels, 2 + 1 rows) at 1/400 Hz; one compressed file -/
def exFlat : Source (List Nat) :=
  .flat [⟨13, [[1, 2], [3, 4]]⟩, ⟨9, [[5, 6]]⟩] 5 2 2 "int16" (1/400)
def exCbin : Source (List Nat) :=
  .cbin [(⟨2, "int16", 10, [0, 2, 3]⟩, [[1, 2], [3, 4], [5, 6]])]

end PhyVerif.C01
