import PhyVerif.Model.C16
