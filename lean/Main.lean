import PhyVerif.Driver.Json
import PhyVerif.Driver.C16
import PhyVerif.Driver.C15
import PhyVerif.Driver.C07
import PhyVerif.Driver.C01
import PhyVerif.Driver.C19
import PhyVerif.Driver.C20
import PhyVerif.Driver.C17
import PhyVerif.Driver.C02
import PhyVerif.Driver.C03
import PhyVerif.Driver.C06
import PhyVerif.Driver.C11
import PhyVerif.Driver.C09
import PhyVerif.Driver.C08
import PhyVerif.Driver.C05
import PhyVerif.Driver.C18
import PhyVerif.Driver.C10
import PhyVerif.Driver.C14
import PhyVerif.Driver.C13
import PhyVerif.Driver.C04
open Lean PhyVerif.Driver

partial def dispatch (j : Json) : R Json := do
  let p ← getStr j "p"
  let op ← getStr j "op"
  if op == "multi" && p != "C09" then
    let qs ← fld j "qs" >>= asArr
    let res ← qs.mapM fun q =>
      match q.getObjVal? "p" with
      | .ok _ => dispatch q
      | .error _ => dispatch (q.setObjVal! "p" (Json.str p))
    return Json.mkObj [("res", Json.arr res.toArray)]
  match p with
  | "C16" => runC16 op j
  | "C15" => runC15 op j
  | "C07" => runC07 op j
  | "C01" => runC01 op j
  | "C19" => runC19 op j
  | "C20" => runC20 op j
  | "C17" => runC17 op j
  | "C02" => runC02 op j
  | "C03" => runC03 op j
  | "C06" => runC06 op j
  | "C11" => runC11 op j
  | "C12" => runC12 op j
  | "C09" => runC09 op j
  | "C08" => runC08 op j
  | "C05" => runC05 op j
  | "C18" => runC18 op j
  | "C10" => runC10 op j
  | "C14" => runC14 op j
  | "C13" => runC13 op j
  | "C04" => runC04 op j
  | _ => .error s!"unknown property {p}"

def handle (line : String) : String :=
  match Json.parse line with
  | .error e => (Json.mkObj [("err", Json.str s!"parse: {e}")]).compress
  | .ok j =>
    match dispatch j with
    | .ok r => (Json.mkObj [("ok", r)]).compress
    | .error e => (Json.mkObj [("err", Json.str e)]).compress

partial def loop (hin hout : IO.FS.Stream) : IO Unit := do
  let line ← hin.getLine
  if line.isEmpty then return ()
  let t := line.trimAscii.toString
  if t.isEmpty then
    loop hin hout
  else
    hout.putStrLn (handle t)
    hout.flush
    loop hin hout

def main : IO Unit := do
  loop (← IO.getStdin) (← IO.getStdout)
