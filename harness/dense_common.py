"""Dense-template datasets with exactly representable values, shared by C05/C08/C09/C13/C14."""
from fractions import Fraction
import numpy as np
from . import dataset as D


def frac(x):
    """float/int -> JSON exact rational (int or [num, den])"""
    f = Fraction(x)
    return f.numerator if f.denominator == 1 else [f.numerator, f.denominator]


def fracs(a):
    a = np.asarray(a, dtype=np.float64)
    if a.ndim == 0:
        return frac(float(a))
    return [fracs(x) for x in a]


def to_float(q):
    """JSON rational -> correctly rounded float; None stays None"""
    if q is None:
        return None
    if isinstance(q, list):
        return float(Fraction(q[0], q[1]))
    return float(q)


def to_fraction(q):
    if q is None:
        return None
    return Fraction(q[0], q[1]) if isinstance(q, list) else Fraction(q)


def curate(rng, st, nt):
    """spike_clusters from spike_templates by random merges / splits / reassignments"""
    sc = list(st)
    nxt = nt
    if rng.random() < .25:
        # curation that only moves spikes between EXISTING ids: the set of ids stays the set of template ids
        ids = sorted(set(sc))
        if len(ids) >= 2:
            for _ in range(rng.randrange(1, 4)):
                a, b = rng.sample(ids, 2)
                ia = [i for i, c in enumerate(sc) if c == a]
                ib = [i for i, c in enumerate(sc) if c == b]
                if len(ia) >= 2:
                    sc[rng.pick(ia)] = b
                if len(ib) >= 2:
                    sc[rng.pick(ib)] = a
            return sc
    for _ in range(rng.randrange(1, 4)):
        op = rng.randrange(3)
        ids = sorted(set(sc))
        if op == 0 and len(ids) >= 2:            # merge two clusters into a new id
            a, b = rng.sample(ids, 2)
            sc = [nxt if c in (a, b) else c for c in sc]
            nxt += 1 + (rng.random() < .3)        # sometimes leave a gap
        elif op == 1:                             # split: move part of a cluster to a new id
            a = rng.pick(ids)
            idx = [i for i, c in enumerate(sc) if c == a]
            for i in rng.sample(idx, rng.randrange(1, len(idx) + 1)):
                sc[i] = nxt
            nxt += 1
        else:                                     # reassign one spike
            sc[rng.randrange(len(sc))] = rng.pick(ids)
    return sc


def dense_spec(rng, nt=None, nc=None, ns=None, nsw=None, curated=None, whiten=None, feats=True, raw=False,
               empty='random', shanks=None, probes=False, amp_nonneg=True, cmap='identity'):
    nc = nc or rng.randrange(2, 8)
    nt = nt or rng.randrange(2, 6)
    ns = ns or rng.randrange(3, 16)
    nsw = nsw or rng.randrange(2, 7)
    # templates without spikes at chosen positions
    used = list(range(nt))
    if empty == 'random':
        empty = rng.pick(['none', 'none', 'first', 'middle', 'last'])
    if empty == 'first' and nt > 2:
        used.remove(0)
    elif empty == 'middle' and nt > 2:
        used.remove(nt // 2)
    elif empty == 'last' and nt > 2:
        used.remove(nt - 1)
    st = [rng.pick(used) for _ in range(ns)]
    for i, t in enumerate(used[:ns]):
        st[i] = t
    rng.shuffle(st)
    n_raw = ns + rng.randrange(6, 40)
    spec = dict(
        n_channels=nc, n_channels_dat=nc, sample_rate=rng.pick([1000., 2000., 25000., 2500., 12500., 24414.0625, 500., 30000.]), dtype='int16', offset=0,
        spike_samples=sorted(rng.randrange(0, n_raw) for _ in range(ns)), spike_templates=st,
        amplitudes=[(rng.randrange(0, 17) if amp_nonneg else rng.randrange(-8, 17)) / 4. for _ in range(ns)],
        channel_map=list(range(nc)),        # replaced below when cmap='random'
        channel_positions=D._positions(rng, nc),
        templates=[[[float(rng.randrange(-8, 9)) for _ in range(nc)] for _ in range(nsw)] for _ in range(nt)],
    )
    if rng.random() < .3:
        # localised templates: exactly zero on some channels (as KiloSort's dense templates are away from the unit)
        for t in spec['templates']:
            for c in rng.sample(range(nc), rng.randrange(0, nc)):
                for row in t:
                    row[c] = 0.
    # make sure no template is flat everywhere
    for t in spec['templates']:
        if all(len({row[c] for row in t}) == 1 for c in range(nc)):
            t[0][rng.randrange(nc)] += 3.
    if curated if curated is not None else rng.random() < .5:
        spec['spike_clusters'] = curate(rng, st, nt)
    if shanks if shanks is not None else rng.random() < .3:
        spec['channel_shanks'] = [rng.randrange(2) for _ in range(nc)]
    if probes:
        spec['channel_probes'] = sorted(rng.randrange(rng.pick([2, 2, 3, 4])) for _ in range(nc))       # 1..4 probes, in blocks
    w = whiten if whiten is not None else rng.pick(['none', 'diag', 'diag+inv', 'tri', 'tri+inv', 'tri-invonly', 'diag-invonly'])
    if w.startswith('tri'):
        # non-symmetric whitening with an exactly representable inverse: unit upper-triangular, small integers
        wm = np.eye(nc)
        for i in range(nc):
            for j in range(i + 1, nc):
                if rng.random() < .5:
                    wm[i, j] = rng.randrange(-2, 3)
        inv = np.round(np.linalg.inv(wm))
        assert np.array_equal(wm @ inv, np.eye(nc))
        spec['whitening'] = wm.tolist()
        if w in ('tri+inv', 'tri-invonly'):
            spec['whitening_inv'] = inv.tolist()
        if w == 'tri-invonly':
            # only the inverse is stored (whitening_mat.npy absent): the whitening matrix defaults to the identity
            # while unwhitening uses the stored inverse
            del spec['whitening']
    elif w != 'none':
        diag = [rng.pick([.5, 1., 2., 4.]) for _ in range(nc)]
        spec['whitening'] = [[diag[i] if i == j else 0. for j in range(nc)] for i in range(nc)]
        if w in ('diag+inv', 'diag-invonly'):
            spec['whitening_inv'] = [[1. / diag[i] if i == j else 0. for j in range(nc)] for i in range(nc)]
        if w == 'diag-invonly':
            del spec['whitening']
    if feats:
        nloc = rng.randrange(2, nc + 1)
        spec['pc_features'] = [[[float(rng.randrange(-4, 9)) for _ in range(nloc)] for _ in range(2)] for _ in range(ns)]
        if rng.random() < .15:      # a spike whose positive part vanishes
            spec['pc_features'][rng.randrange(ns)][0] = [float(-rng.randrange(0, 3)) for _ in range(nloc)]
        spec['pc_feature_ind'] = [rng.sample(range(nc), nloc) for _ in range(nt)]
    ncd = nc
    if cmap == 'random':
        # a permuted channel map, possibly with dead raw channels (not necessarily containing raw channel 0)
        ncd = nc + rng.randrange(0, 4)
        spec['n_channels_dat'] = ncd
        spec['channel_map'] = rng.sample(range(ncd), nc)
    if raw:
        spec['raw'] = [[[((r * 7 + c * 3) % 41) - 20 for c in range(ncd)] for r in range(n_raw)]]
    if rng.random() < .3:
        # non-default channel neighbourhood / amplitude threshold configured in params.py: in force when the
        # model computes its cluster waveforms at load time
        spec['params_extra'] = dict(n_closest_channels=rng.pick([1, 2, 3]))
        if rng.random() < .4:
            spec['params_extra']['amplitude_threshold'] = rng.pick([0.25, 0.5])
    if rng.random() < .3:
        # files a sorter leaves next to the dataset whose names come close to the ones the loader reads
        # (KiloSort2 writes templates_ind.npy next to dense templates; backups; unwhitened copies): not part of the
        # dataset, the loaded model is the same with and without them
        near = dict([('templates_ind.npy', ('int32', [list(range(nc)) for _ in range(nt)])),
                     ('templates_unw.npy', ('float32', [[[0.] * nc] * nsw] * nt)),
                     ('channel_map_orig.npy', ('int32', list(range(nc))[::-1])),
                     ('whitening_mat_dat.npy', ('float64', [[2. if i == j else 0. for j in range(nc)] for i in range(nc)])),
                     ('amplitudes_raw.npy', ('float64', [3.] * ns))])
        spec['extra_npy'] = {k: near[k] for k in rng.sample(sorted(near), rng.randrange(1, 3))}
    if rng.random() < .35:
        # non-default scaling of unwhitened templates (params.py entry), a power of two or a small integer
        spec['template_scaling'] = rng.pick([2.0, 0.5, 20.0, 4.0])
    return spec


INT_POSITION_DTYPES = ('int8', 'uint8', 'int16', 'uint16', 'int32', 'uint32', 'int64', 'uint64')


def probe_positions(rng, nc, dtype='float64'):
    """A probe-like site layout with coordinates in micrometres that `dtype` can hold: 1, 2 or 4 columns of sites
    (even rows of a 2-column layout optionally staggered), rows `pitch` apart (20 .. 100 um where the dtype has
    room, less for the 8-bit types).  Over >= 16 sites the squared distances exceed the range of the 8- and 16-bit
    integer types, so distances computed in the dtype of the file would wrap around.  Sites are pairwise distinct;
    returned in a random site order half of the time (channel k need not be the k-th site)."""
    ncol = rng.pick([1, 1, 2, 2, 4])
    nrow = -(-nc // ncol)
    hi = int(np.iinfo(dtype).max) if np.dtype(dtype).kind in 'iu' else 10 ** 6
    xs = {1: [0], 2: [0, 32], 4: [11, 27, 43, 59]}[ncol]
    stagger = 16 if (ncol == 2 and rng.random() < .5) else 0
    room = (hi - 16) // max(1, nrow - 1) if nrow > 1 else 100
    pitches = [p for p in (100, 40, 25, 20, 15, 10, 5, 3) if p <= room]
    pitch = rng.pick(pitches[:3])
    y0 = rng.pick([0, 0, 20]) if hi > 1000 else 0
    sites = [[float(xs[i % ncol] + stagger * ((i // ncol) % 2)), float(y0 + (i // ncol) * pitch)] for i in range(nc)]
    assert len({tuple(s) for s in sites}) == nc and max(max(s) for s in sites) <= hi
    if rng.random() < .5:
        rng.shuffle(sites)
    return sites


def check_wmi(spec, wmi):
    """The inverse whitening matrix a model shows is the stored inverse when the dataset has one, an
    inverse of the stored whitening matrix otherwise (identity without whitening). Returns a message
    or None."""
    wmi = np.asarray(wmi, dtype=np.float64)
    nc = spec['n_channels']
    if spec.get('whitening_inv') is not None:
        if not np.array_equal(wmi, np.asarray(spec['whitening_inv'], dtype=np.float64)):
            return 'the inverse whitening matrix of the model is not the stored whitening_mat_inv.npy'
        return None
    wm = np.asarray(spec['whitening'], dtype=np.float64) if spec.get('whitening') is not None else np.eye(nc)
    if wmi.shape != wm.shape or not np.allclose(wm @ wmi, np.eye(nc), rtol=0, atol=1e-9):
        return 'the inverse whitening matrix of the model is not an inverse of the whitening matrix'
    return None


def wmi_of(spec):
    nc = spec['n_channels']
    if spec.get('whitening_inv') is not None:
        return spec['whitening_inv']
    if spec.get('whitening') is not None:
        return np.round(np.linalg.inv(np.array(spec['whitening'])) * 4).__truediv__(4).tolist()
    return [[1. if i == j else 0. for j in range(nc)] for i in range(nc)]


# gains of a whitening matrix whose inverse is NOT exactly representable / makes the unwhitened product inexact
INEXACT_GAINS = (0.7, 1.3, 3.0, 0.9, 1.1, 2.5, 0.35, 6.0, 1.7)


def fine_band_templates(rng, nt, nsw, nc):
    """Double precision templates a single precision array cannot hold: on each channel a baseline of 64..127 (either
    sign) plus a ripple of m * 2^-28, |m| < 2^20 (35 significant bits); some channels exactly zero.  All samples of a
    channel have the same sign and lie within a factor 2 of each other, so `max - min` is exact (Sterbenz) in double
    precision and stays exact after any rounding of the samples to single precision."""
    out = []
    for _ in range(nt):
        base = [0 if rng.random() < .2 else rng.pick([-1, 1]) * rng.randrange(64, 127) for _ in range(nc)]
        if not any(base):
            base[rng.randrange(nc)] = 100
        out.append([[0. if b == 0 else float(b) + rng.randrange(-2 ** 20 + 1, 2 ** 20) * 2.0 ** -28 for b in base]
                    for _ in range(nsw)])
    return out


def one_sided_templates(rng, nt, nsw, nc):
    """Single precision templates with full 24-bit significands (k / 2^21, k < 2^24) whose channels are zero, or
    one-sided with an exact zero sample (peak-to-peak = the extreme sample), or of one sign within [4, 8): `max - min`
    is exact in single precision on these columns and on any monotone rounding of a positive multiple of them.  Some
    channels are copies of another one, one or two units in the last place away (almost-ties of the amplitudes)."""
    out = []
    for _ in range(nt):
        cols = []
        for c in range(nc):
            kind = rng.pick(['zero', 'pos0', 'pos0', 'neg0', 'band', 'band'])
            if c and rng.random() < .25 and any(any(x != 0 for x in col) for col in cols):
                src = rng.pick([col for col in cols if any(x != 0 for x in col)])
                d = rng.pick([-2, -1, 1, 2])
                col = [0. if x == 0 else (round(x * 2 ** 21) + d) / 2.0 ** 21 for x in src]
            elif kind == 'zero':
                col = [0.] * nsw
            elif kind == 'band':
                sg = rng.pick([-1, 1])
                col = [sg * rng.randrange(2 ** 23 + 4, 2 ** 24 - 4) / 2.0 ** 21 for _ in range(nsw)]
            else:
                sg = 1 if kind == 'pos0' else -1
                col = [sg * rng.randrange(4, 2 ** 24 - 4) / 2.0 ** 21 if rng.random() < .7 else 0. for _ in range(nsw)]
                col[rng.randrange(nsw)] = 0.
            cols.append(col)
        if not any(any(x != 0 for x in col) for col in cols):
            cols[rng.randrange(nc)] = [4.5] + [0.] * (nsw - 1)
        out.append([[cols[c][s_] for c in range(nc)] for s_ in range(nsw)])
    assert all(float(np.float32(x)) == x for t in out for row in t for x in row)
    return out


def inexact_float_spec(rng, spec, store64=None, whiten=None):
    """Turn a dense spec (made with whiten='none') into one on which the floating-point steps of template access are
    NOT exact: templates.npy in double precision holding values single precision cannot hold (`fine_band_templates`)
    and / or a diagonal whitening matrix with non-dyadic gains (inverse stored, computed by the loader, or stored
    alone).  Returns the spec; `spec['_float_store']` = significand bits of templates.npy (24 / 53)."""
    nc = spec['n_channels']
    nt = len(spec['templates'])
    nsw = len(spec['templates'][0])
    store64 = (rng.random() < .4) if store64 is None else store64
    if store64:
        spec['templates'] = fine_band_templates(rng, nt, nsw, nc)
        spec['dtypes'] = dict(spec.get('dtypes') or {}, templates='float64')
    else:
        spec['templates'] = one_sided_templates(rng, nt, nsw, nc)
    spec['_float_store'] = 53 if store64 else 24
    w = whiten if whiten is not None else rng.pick(['inv-stored', 'inv-only', 'computed', 'computed'] + (['none'] if store64 else []))
    spec['_float_whitening'] = w
    for k in ('whitening', 'whitening_inv'):
        spec.pop(k, None)
    if w != 'none':
        same = rng.random() < .5
        g0 = rng.pick(INEXACT_GAINS)
        gains = [g0 if same else rng.pick(INEXACT_GAINS) for _ in range(nc)]
        if w in ('inv-stored', 'computed'):
            spec['whitening'] = [[gains[i] if i == j else 0. for j in range(nc)] for i in range(nc)]
        if w in ('inv-stored', 'inv-only'):
            spec['whitening_inv'] = [[1. / gains[i] if i == j else 0. for j in range(nc)] for i in range(nc)]
    return spec
