"""C07 — spike-cluster index utilities partition the spikes (DESIGN.md §5 C07)."""
import itertools
import numpy as np
from . import common as C
from . import dataset as D
from . import dense_common as DC

PID = 'C07'
PARALLEL = False
BATCH = 3000
BUDGET_S = {'quick': 70, 'thorough': 900}
DT = {'int32': (32, True), 'int64': (64, True), 'uint16': (16, False), 'uint32': (32, False)}
RULE = ('exhaustive: all assignment vectors of length <= L over the id alphabet {0,2,3,7} x dtypes '
        'int32/int64/uint16/uint32 x with/without spike-id vector (increasing, and unsorted / repeated ids); requested cluster lists unsorted '
        'and partly absent; unsorted lookups; then random long vectors; TemplateModel queries on '
        'generated datasets. Lookups, requested lists and assignments with large sparse ids: every order of 3 ids out of '
        '{0, 3, 70, B-1, B} for B on a ladder of magnitudes from 255 to 2^24+5 (powers of two and of ten, +-1), random ids up to '
        '2*10^7 (the real code is compared with the Lean definition positionsIn where the table model would need millions of '
        'cells). Sequences: the grouping returned by _spikes_per_cluster is handed to the library\'s own consumers (SpikeSelector '
        'through spc.get with counts below / above the group sizes, with and without chunk / subset restriction; '
        '_flatten_per_cluster), then READ AGAIN and recomputed from the same arrays: it must still be the grouping of the '
        'unchanged assignment vector. Ids over the FULL range of every dtype for the helpers without a lookup table '
        '(_spikes_per_cluster, _spikes_in_clusters, _flatten_per_cluster): exhaustive short vectors over alphabets spanning the '
        'dtype (0, middle, sign-bit neighbours, maximum; uint32 >= 2^31, int64 >= 2^32, gaps >= 2^31 / multiples of 2^32), random '
        'ids anywhere in the dtype; supplied spike ids of dtype int32/int64/uint16/uint32 up to their maximum; requested clusters '
        'given as list / tuple / ndarray of every dtype holding them (_unique, _index_of, grouped_mean allocate max(id)+1 cells and '
        'keep ids <= 2*10^7). non-trivial = at least two spikes and two distinct ids')
ASSUMPTIONS = ['grouped_mean: integer-valued data so that the sum is exact; the single float division '
               'is compared with the correctly rounded exact quotient (fractions.Fraction)']
ALPHA = [0, 2, 3, 7]
DMAX = {'int32': 2 ** 31 - 1, 'int64': 2 ** 63 - 1, 'uint16': 2 ** 16 - 1, 'uint32': 2 ** 32 - 1}


def wide_ids(dt):
    """Landmarks over the FULL range of an assignment dtype: the powers of two where a narrower (or signed) type ends,
    their neighbours, the middle of the range and the dtype's maximum."""
    mx = DMAX[dt]
    pts = {0, 1, 5, 2 ** 15 - 1, 2 ** 15, 2 ** 16 - 1, 2 ** 16, 10 ** 6, 2 ** 31 - 1, 2 ** 31, 2 ** 31 + 5, 2 ** 32 - 1, 2 ** 32,
           2 ** 32 + 2 ** 31, 2 ** 62, mx // 2, mx // 2 + 1, mx // 2 + 2, mx - 1, mx}
    return sorted(x for x in pts if x <= mx)


def wide_alphabets(dt):
    """Small id alphabets spanning the dtype: gaps of half the range and more (where an unsigned first difference taken
    in a narrower or signed type wraps), neighbours across the sign bit, ids above 2^31 / 2^32 where the dtype has them."""
    mx = DMAX[dt]
    c = [v for v in (5, 2 ** 31 + 5, 2 ** 32 + 2 ** 31, 2 ** 62, 2 ** 15, 2 ** 16 - 1) if v <= mx][:4]
    return [[0, mx // 2 + 1, mx - 1, mx], [1, mx // 2, mx // 2 + 1, mx // 2 + 2], sorted(c)]


def container_kinds(vals):
    """The forms in which a caller can hand over a list of integers: list, tuple, ndarray of every quantified dtype that
    holds them."""
    kinds = ['list', 'tuple']
    for dt, (w, signed) in DT.items():
        lo = -(2 ** (w - 1)) if signed else 0
        if all(lo <= v <= DMAX[dt] for v in vals):
            kinds.append('array:' + dt)
    return kinds


def as_container(vals, kind):
    if kind == 'tuple':
        return tuple(vals)
    if kind.startswith('array:'):
        return np.array(vals, dtype=kind[6:])
    return list(vals)


def impl(case):
    from phylib.io import array as A
    op = case['op']
    if op == 'spc':
        sc = np.array(case['sc'], dtype=case['dtype'])
        ids = np.array(case['ids'], dtype=case.get('idtype', 'int64')) if case.get('ids') is not None else None
        d = A._spikes_per_cluster(sc, ids)
        first = [[int(k), [int(x) for x in v]] for k, v in d.items()]
        if not case.get('then'):
            return first
        # the grouping is used by the library's own consumers (as TemplateModel.save_spikes_subset_waveforms and
        # EphysAlfCreator do: a SpikeSelector reading it through `spc.get`, _flatten_per_cluster), then read again
        n_ids = max(len(sc), (int(ids.max()) + 1) if ids is not None and len(ids) else 0)
        np.random.seed(case.get('rs', 0))
        sel = A.SpikeSelector(get_spikes_per_cluster=lambda cl: d.get(cl, np.array([], dtype=np.int64)),
                              spike_times=np.arange(n_ids, dtype=np.float64),
                              chunk_bounds=np.linspace(0., float(max(n_ids, 1)), 5), n_chunks_kept=2)
        for stp in case['then']:
            if stp['k'] == 'select':
                sub = None if stp.get('subset') is None else np.array(stp['subset'], dtype=np.int64)
                sel(stp['n'], list(stp['req']), subset_chunks=bool(stp.get('chunks')), subset_spikes=sub)
            elif stp['k'] == 'flatten':
                A._flatten_per_cluster(d)
            else:
                raise ValueError(stp['k'])
        after = [[int(k), [int(x) for x in v]] for k, v in d.items()]
        again = [[int(k), [int(x) for x in v]] for k, v in A._spikes_per_cluster(sc, ids).items()]
        return dict(first=first, after=after, again=again)
    if op == 'sic':
        return [int(x) for x in A._spikes_in_clusters(np.array(case['sc'], dtype=case['dtype']),
                                                      as_container(case['cl'], case.get('clkind', 'list')))]
    if op == 'unique':
        return [int(x) for x in A._unique(np.array(case['l'], dtype=case['dtype']))]
    if op == 'index_of':
        dt = case.get('dtype', 'int64')
        lookup = case['lookup'] if case.get('lkind', 'list') == 'list' else np.array(case['lookup'], dtype=dt)
        return [int(x) for x in A._index_of(np.array(case['arr'], dtype=dt), lookup)]
    if op == 'flatten':
        d = {i: np.array(v, dtype=case.get('dtype', 'int64')) for i, v in enumerate(case['d'])}
        return [int(x) for x in A._flatten_per_cluster(d)]
    if op == 'gmean':
        adt = case.get('adtype', 'float64')
        arr = list(case['arr']) if adt == 'list' else np.array(case['arr'], dtype=adt)
        sc = np.array(case['sc'], dtype=case['dtype'])
        if case.get('pre_sc') is not None:
            # an earlier call with the SAME assignment array object holding another clustering, edited in place since
            want = sc.copy()
            sc[:] = np.array(case['pre_sc'], dtype=case['dtype'])
            A.grouped_mean(arr, sc)
            sc[:] = want
        out = A.grouped_mean(arr, sc)
        return [float(x) for x in out]
    if op == 'tcounts':
        with C.scratch_dir() as d:
            m = D.load(D.write_dataset(d, case['spec']))
            try:
                out = []
                for c in case['cs']:
                    out.append(dict(counts=[int(x) for x in m.get_template_counts(c)],
                                    cluster_spikes=[int(x) for x in m.get_cluster_spikes(c)],
                                    template_spikes=[int(x) for x in m.get_template_spikes(c)]))
                nt = int(m.n_templates)
                # the same queries after the assignments were changed in memory (no save): they
                # must follow the array helpers on the CURRENT assignments
                # (compared with the Lean model on the reversed assignment vector, second query)
                new_sc = np.asarray(m.spike_clusters).copy()[::-1].copy()
                m.spike_clusters = new_sc
                out2 = []
                for c in case['cs']:
                    out2.append(dict(counts=[int(x) for x in m.get_template_counts(c)],
                                     cluster_spikes=[int(x) for x in m.get_cluster_spikes(c)],
                                     template_spikes=[int(x) for x in m.get_template_spikes(c)]))
                inplace_ok = True
                # ... and after the assignment vector of the model was edited IN PLACE (merge: every spike of the
                # highest cluster goes to cluster 0): the per-template queries still follow the stored templates,
                # the per-cluster queries the edited vector
                st_file = np.array(case['st'], dtype=np.int64)
                (d / 'second').mkdir()
                m2 = D.load(D.write_dataset(d / 'second', case['spec']))     # a first load of a fresh copy
                try:
                    cur = m2.spike_clusters
                    hi = int(np.max(cur))
                    cur[cur == hi] = 0
                    for c in sorted(set(case['cs']) | set(range(nt))):
                        if not np.array_equal(m2.get_cluster_spikes(c), A._spikes_in_clusters(cur, [c])):
                            inplace_ok = False
                    for t in range(nt):
                        exp_t = np.nonzero(st_file == t)[0]
                        if not np.array_equal(m2.get_template_spikes(t), exp_t):
                            inplace_ok = False
                    for c in case['cs']:
                        exp = np.nonzero(np.asarray(cur) == c)[0]
                        if not np.array_equal(m2.get_template_counts(c), np.bincount(st_file[exp], minlength=nt)):
                            inplace_ok = False
                finally:
                    m2.close()
            finally:
                m.close()
        return dict(res=out, nt=nt, res_inmem=out2, inplace_ok=inplace_ok)
    raise ValueError(op)


def model_query(case, impl_res):
    q = {k: v for k, v in case.items() if not k.startswith('_') and k not in ('dtype', 'spec')}
    if case['op'] == 'spc':
        q['w'], q['signed'] = DT[case['dtype']]
    q.pop('pre_sc', None)
    for key in ('then', 'rs', 'idtype', 'clkind'):
        q.pop(key, None)
    if case['op'] == 'sic':
        # requested ids below zero are absent from every (non-negative) assignment vector: they select nothing
        q['cl'] = [c for c in case['cl'] if c >= 0]
    if case['op'] == 'tcounts':
        q['_second'] = dict(q, sc=case['sc'][::-1])
    return q


def judge(case, impl_res, ans):
    if 'err' in ans:
        return 'MACHINERY: driver error %s' % ans['err']
    m = ans['ok'].get('model')
    if case['op'] == 'index_of':
        return judge_index_of(case, impl_res, ans['ok'])
    if case['op'] == 'flatten' and not case['d']:
        # the empty dictionary: the real helper raises ValueError (nothing to concatenate); the model's []
        # is outside the theorem's domain (hypothesis d ≠ [])
        if impl_res.get('raised') not in (None, 'ValueError') or impl_res.get('ok') not in (None, []):
            return 'SPEC: _flatten_per_cluster({}) neither raises ValueError nor returns an empty array'
        return None
    if 'raised' in impl_res:
        return 'SPEC: real code raised %s (%s) at %s on an in-domain input' % (
            impl_res['raised'], impl_res['msg'], impl_res['where'])
    ok = impl_res['ok']
    op = case['op']
    if m is None:
        return 'MACHINERY: out-of-domain case generated'
    if op == 'spc':
        if ans['ok']['spec'] != m:
            return 'MACHINERY: model differs from its Lean spec (contradicts the theorem)'
        first = ok['first'] if isinstance(ok, dict) else ok
        if sorted(first) != m:      # dict: key order is not part of the property
            return 'SPEC: groups differ from {cluster: its spike indices, or the supplied ids of its spikes, in increasing position order}'
        if isinstance(ok, dict):
            # the assignment vector never changed: the grouping the caller holds, and a new grouping of the same
            # arrays, are still the model's groups after the library's consumers used the first one
            if sorted(ok['after']) != m:
                return ('SPEC: the grouping returned by _spikes_per_cluster no longer holds, for each cluster, the increasing '
                        'array of its spikes once the library\'s own consumers (%s) have used it; the assignment vector is '
                        'unchanged' % ', '.join(sorted({step_name(x) for x in case['then']})))
            if sorted(ok['again']) != m:
                return 'SPEC: grouping the same assignment / id arrays again after the consumers ran gives other groups'
        return None
    if op == 'gmean':
        # the quotients are computed by the Lean model (`groupedMeanQ`, exact); the real code performs one
        # float division per cluster, i.e. the correctly rounded exact quotient
        exp = [DC.to_float(x) for x in ans['ok']['mean']]
        if ok != exp:
            return 'SPEC: grouped mean differs from sum/count per sorted cluster'
        return None
    if op == 'tcounts':
        if ok['nt'] != case['nt']:
            return 'MACHINERY: n_templates of the generated dataset'
        for r in ok['res'] + ok['res_inmem']:
            # theorem templateCounts_sum, on the real answers alone: the histogram conserves the cluster's spikes
            if sum(r['counts']) != len(r['cluster_spikes']):
                return ('SPEC: the per-cluster template histogram does not sum to the number of spikes of the cluster '
                        '(%d vs %d)' % (sum(r['counts']), len(r['cluster_spikes'])))
        if ok['res'] != m:
            return 'SPEC: model query differs from the set-theoretic definition'
        if 'err' in ans.get('second', {}):
            return 'MACHINERY: driver error in the second query: %s' % ans['second']['err']
        if ok['res_inmem'] != ans['second']['ok']['model']:
            return 'SPEC: model queries do not follow the CURRENT assignments after they were changed in memory'
        if ok.get('inplace_ok') is False:
            return ('SPEC: after model.spike_clusters was edited in place (first load of the directory) the per-template '
                    'queries no longer follow the stored templates / the per-cluster queries the edited vector')
        return None
    if ok != m:
        return 'SPEC: helper output differs from its set-theoretic definition'
    return None


def step_name(stp):
    if stp['k'] == 'flatten':
        return '_flatten_per_cluster'
    return 'SpikeSelector(n=%s%s%s)' % (stp['n'], ', chunks' if stp.get('chunks') else '',
                                        ', subset' if stp.get('subset') is not None else '')


def judge_index_of(case, impl_res, a):
    """`_index_of` against the Lean table model `Np.indexOf` and the Lean definition `positionsIn` (theorem
    `indexOf_spec`: equal on duplicate-free lookups holding every element).  Lookups with ids in the millions are
    compared with `positionsIn` only (`spec_only`: the list model of the table is not built)."""
    arr, lookup = case['arr'], case['lookup']
    in_domain = len(set(lookup)) == len(lookup) and all(x >= 0 for x in lookup) and set(arr) <= set(lookup)
    if case.get('spec_only'):
        if not in_domain:
            return 'MACHINERY: out-of-domain case generated (spec_only needs the hypotheses of indexOf_spec)'
    else:
        if a.get('model') is None:
            return 'MACHINERY: out-of-domain case generated'
        if in_domain and a['model'] != a['spec']:
            return 'MACHINERY: model differs from its Lean spec (contradicts the theorem)'
    if 'raised' in impl_res:
        return 'SPEC: real code raised %s (%s) at %s on an in-domain input' % (
            impl_res['raised'], impl_res['msg'], impl_res['where'])
    if impl_res['ok'] != (a['spec'] if case.get('spec_only') else a['model']):
        return 'SPEC: _index_of differs from the position of each element in the lookup as given'
    return None


def nontrivial(case):
    v = case.get('sc') or case.get('l') or case.get('arr') or case.get('d') or []
    if case['op'] == 'flatten':
        return sum(len(x) for x in v) > 1
    return len(v) >= 2 and len(set(v)) >= 2


def tally(rep, case, impl_res, ans):
    rep.count('op:' + case['op'])
    if 'dtype' in case:
        rep.count('dtype:' + case['dtype'])
    if case['op'] == 'gmean':
        rep.count('values_dtype:' + case.get('adtype', 'float64'))
        if case.get('pre_sc') is not None:
            rep.count('gmean: assignment array edited in place after an earlier call')
    if case['op'] == 'sic' and any(c < 0 for c in case['cl']):
        rep.count('sic: negative (absent) requested id')
    if case['op'] == 'sic':
        rep.count('sic: requested clusters given as ' + case.get('clkind', 'list'))
    if case['op'] in ('spc', 'sic') and case['sc']:
        mx, d = max(case['sc']), sorted(set(case['sc']))
        gap = max([b - a for a, b in zip(d, d[1:])] or [0])
        top = DMAX[case['dtype']]
        rep.count('%s: largest id %s' % (case['op'], 'the dtype maximum' if mx == top else '>= 2^32' if mx >= 2 ** 32 else
                                        '>= 2^31' if mx >= 2 ** 31 else '>= 2^15' if mx >= 2 ** 15 else '< 2^15'))
        if gap >= 2 ** 15:
            rep.count('%s: %s ids with a gap %s between neighbouring distinct ids' % (
                case['op'], case['dtype'], '>= 2^63' if gap >= 2 ** 63 else '>= 2^32' if gap >= 2 ** 32 else
                '>= 2^31' if gap >= 2 ** 31 else '>= 2^15'))
    if case['op'] == 'index_of':
        lk = case['lookup']
        mx = max(lk) if lk else 0
        rep.count('index_of: largest lookup id %s' % ('< 2^16' if mx < 65536 else '< 10^6' if mx < 10 ** 6 else '>= 10^6'))
        if lk != sorted(lk):
            rep.count('index_of: unsorted lookup%s' % (' with an id >= 10^6' if mx >= 10 ** 6 else ''))
        if case.get('spec_only'):
            rep.count('index_of: compared with the Lean definition positionsIn (table model not built)')
    if case['op'] == 'spc' and case.get('then'):
        rep.count('spc: grouping read again after %d consumer call(s)' % len(case['then']))
        sizes = {}
        for c in case['sc']:
            sizes[c] = sizes.get(c, 0) + 1
        for stp in case['then']:
            rep.count('spc: consumer ' + (step_name(stp) if stp['k'] == 'flatten' or stp['n'] is None else
                                          step_name(dict(stp, n='k'))))
            if (stp['k'] == 'select' and stp['n'] and not stp.get('chunks') and stp.get('subset') is None
                    and any(sizes.get(c, 0) > stp['n'] for c in stp['req'])):
                rep.count('spc: a group larger than the requested count reaches the sub-selection unrestricted')
    if case['op'] == 'tcounts':
        rep.count('model: spike_clusters.npy %s, template ids stored as %s' % (
            'present' if case['spec'].get('spike_clusters') is not None else 'absent',
            (case['spec'].get('dtypes') or {}).get('spike_templates', 'uint32')))
    if case['op'] == 'spc':
        rep.count('len:%s' % (len(case['sc']) if len(case['sc']) < 8 else '8+'))
        ids = case.get('ids')
        rep.count('ids:%s' % ('none' if ids is None else 'given, increasing' if ids == sorted(set(ids)) else 'given, unsorted or repeated'))
        if ids is not None:
            rep.count('ids_dtype:%s%s' % (case.get('idtype', 'int64'), ' (ids >= 2^31)' if max(ids) >= 2 ** 31 else ''))


def classify(case, impl_res, ans, why):
    return dict(op=case['op'], kind=why.split(':')[0], dtype=case.get('dtype'),
                raised=impl_res.get('raised'), where=impl_res.get('where'))


def shrink(case):
    for i in range(len(case.get('then') or [])):
        c = dict(case); c['then'] = case['then'][:i] + case['then'][i + 1:]
        yield c
    for key in ('sc', 'l', 'arr'):
        if key in case and case['op'] != 'tcounts':
            v = case[key]
            for i in range(len(v)):
                c = dict(case); c[key] = v[:i] + v[i + 1:]
                if key == 'sc' and c.get('ids') is not None:
                    c['ids'] = case['ids'][:i] + case['ids'][i + 1:]
                if key == 'sc' and 'arr' in c and case['op'] == 'gmean':
                    c['arr'] = case['arr'][:i] + case['arr'][i + 1:]
                if key == 'arr' and case['op'] == 'gmean':
                    continue
                if case['op'] == 'spc' and not c['sc']:
                    continue
                if case['op'] == 'index_of' and key == 'arr':
                    yield c
                elif case['op'] != 'index_of':
                    yield c


# magnitudes of the largest id of a lookup: around the powers of two / ten where dtypes, NumPy and the helpers change
# representation or algorithm.  The list model of the lookup table (max(id)+2 cells, one copy per lookup entry, one
# traversal per element of arr) costs up to 1 s per case at 10^6: it is built for lookups below TABLE_MODEL_MAX; beyond,
# the real code is compared with the Lean definition `positionsIn` (equal to the model by theorem indexOf_spec, whose
# hypotheses the judge re-checks on the case)
LADDER = [255, 256, 65535, 65536, 10 ** 6 - 1, 10 ** 6, 10 ** 6 + 1, 2 ** 20, 2 ** 21, 2 ** 22 + 1, 10 ** 7, 2 ** 24 + 5]
TABLE_MODEL_MAX = 200000


def consumer_steps(k, present, pool):
    """A short history of library consumers of one grouping (rotating menu): SpikeSelector calls with counts below and
    above the group sizes, unrestricted / restricted to the kept chunks / to a subset, requested lists unsorted and
    partly absent; _flatten_per_cluster."""
    req = sorted(present, reverse=True) + [5]
    sel = lambda cnt, chunks=False, subset=None, r=req: dict(k='select', n=cnt, req=r, chunks=chunks, subset=subset)  # noqa
    menu = [
        [sel(1)],
        [sel(None), sel(2)],
        [dict(k='flatten'), sel(1, chunks=True)],
        [sel(2, subset=sorted(set(pool[::2])))],
        [sel(1, r=req[:1]), dict(k='flatten'), sel(100)],
        [sel(3, chunks=True, subset=sorted(set(pool))), sel(0)],
    ]
    return menu[k % len(menu)]


def gen(tier, rng):
    q = tier == 'quick'
    L = 6 if q else 8
    dts = list(DT)
    k = 0
    for n in range(1, L + 1):
        for sc in itertools.product(ALPHA, repeat=n):
            k += 1
            for dt in (dts if n <= 4 else [dts[k % 4]]):
                c = dict(p=PID, op='spc', sc=list(sc), dtype=dt)
                if k % 3 == 0:
                    c['ids'] = [100 + 3 * i for i in range(n)]
                elif k % 3 == 1 and n >= 2:
                    # supplied ids in arbitrary order, with repetitions: never sorted by the helper
                    c['ids'] = [(7 * i + k) % 11 for i in range(n)]
                if 'ids' in c:
                    c['idtype'] = ['int64', 'int32', 'uint32', 'uint16'][(k // 3) % 4]
                if n >= 2 and (k // 4) % 2 == 0:
                    # ... and the grouping is read again after the library's consumers used it
                    c['then'] = consumer_steps(k // 8, set(sc), c.get('ids') or list(range(n)))
                    c['rs'] = k
                yield c
            if n <= 5:
                cl = [[7], [3, 0], [5, 2, 7], [9], [2, 2, 0]][k % 5]
                kinds = container_kinds(cl)
                yield dict(p=PID, op='sic', sc=list(sc), cl=cl, dtype=dts[k % 4], clkind=kinds[(k // 5) % len(kinds)])
                yield dict(p=PID, op='unique', l=list(sc), dtype=dts[k % 4])
                yield dict(p=PID, op='gmean', sc=list(sc), arr=[((i * 5 + k) % 13) - 4 for i in range(n)],
                           dtype=dts[k % 4])
    # ids over the FULL range of every dtype (the first differences of the sorted ids are taken in the dtype): every
    # vector of length <= 3, every third of length 4, over alphabets spanning the dtype; the table helpers (_unique,
    # _index_of, grouped_mean allocate max(id)+1 cells) stay on small ids
    k = 0
    for dt in dts:
        for alpha in wide_alphabets(dt):
            for n in range(1, 5):
                for sc in itertools.product(alpha, repeat=n):
                    k += 1
                    if n == 4 and k % 3:
                        continue
                    c = dict(p=PID, op='spc', sc=list(sc), dtype=dt)
                    if k % 4 == 1:
                        idt = dts[(k // 4) % 4]
                        c['ids'], c['idtype'] = [DMAX[idt] - 3 * (n - i) - (k % 2) * (i % 2) * 7 for i in range(n)], idt
                    yield c
                    if n <= 3:
                        cl = [[alpha[-1]], [alpha[1], alpha[0]], [min(alpha[-1] + 1, DMAX['int64']), alpha[-2], 7],
                              [alpha[-1], alpha[-1], 2 ** 32 + alpha[0]], [DMAX['int64'], -1]][k % 5]
                        kinds = container_kinds(cl)
                        yield dict(p=PID, op='sic', sc=list(sc), cl=cl, dtype=dt, clkind=kinds[(k // 5) % len(kinds)])
            yield dict(p=PID, op='flatten', d=[[alpha[-1], alpha[0]], [alpha[1]], list(alpha[::-1])], dtype=dt)
    yield dict(p=PID, op='sic', sc=[0], cl=[-1], dtype='int64')
    yield dict(p=PID, op='sic', sc=[0, 3, 3], cl=[-1, 3, -4], dtype='int32')
    yield dict(p=PID, op='sic', sc=[], cl=[1], dtype='int64')
    yield dict(p=PID, op='sic', sc=[1, 2], cl=[], dtype='int64')
    yield dict(p=PID, op='unique', l=[], dtype='int64')
    yield dict(p=PID, op='flatten', d=[])
    for g in ([5, 1], [2, 2], [4, 1, 4], [9], [3, 2, 1, 0]):          # a dictionary with exactly ONE group
        yield dict(p=PID, op='flatten', d=[g])
    # requested ids outside the range of the assignment dtype: they match nothing (no wrap-around onto small ids)
    yield dict(p=PID, op='sic', sc=[0, 1, 0, 2], cl=[65536, 65537], dtype='uint16')
    yield dict(p=PID, op='sic', sc=[0, 1, 0, 2], cl=[2 ** 32, 1], dtype='int32')
    yield dict(p=PID, op='sic', sc=[0, 1, 0, 2], cl=[2 ** 32 + 2, 2 ** 16], dtype='uint32')
    for lookup in itertools.permutations([0, 2, 3, 7, 11], 3):
        for arr in itertools.product(lookup, repeat=3):
            yield dict(p=PID, op='index_of', arr=list(arr), lookup=list(lookup))
    # every order of three ids out of {0, 3, 70, B-1, B}, B on the ladder of magnitudes (sorted lookups are 1 in 6)
    k = 0
    for big in LADDER:
        for lookup in itertools.permutations([0, 3, 70, big - 1, big], 3):
            k += 1
            dt = [d for d in ('int32', 'int64', 'uint32', 'uint16') if d != 'uint16' or big < 65536][k % (4 if big < 65536 else 3)]
            c = dict(p=PID, op='index_of', arr=[lookup[(i * i + k) % 3] for i in range(5)], lookup=list(lookup),
                     dtype=dt, lkind=['list', 'array'][(k // 3) % 2])
            if max(lookup) >= TABLE_MODEL_MAX:
                c['spec_only'] = True
            yield c
    for lookup in ([5], [0], [4, 1, 9, 2]):
        yield dict(p=PID, op='index_of', arr=[lookup[0]] * 2, lookup=lookup)
        yield dict(p=PID, op='index_of', arr=[], lookup=lookup)
    for d in itertools.product([[], [3], [5, 1], [1, 8, 3], [2, 2]], repeat=3):
        if any(d):
            yield dict(p=PID, op='flatten', d=[list(x) for x in d], dtype=dts[sum(map(len, d)) % 4])
    # unsigned vectors with negative entries are impossible; signed -1 ("unclustered") for _unique
    yield dict(p=PID, op='unique', l=[3, -1, 0, 3, -1], dtype='int64')
    # TemplateModel queries on generated datasets
    for _ in range(25 if q else 300):
        spec = D.random_spec(rng, raw=False, feats=False, tfeats=False)
        sc = spec.get('spike_clusters') or spec['spike_templates']
        nt = len(spec['templates'])
        # stored template-id dtype (an int32 / float file is what the loader does not need to convert)
        spec['dtypes'] = dict(spec.get('dtypes') or {}, spike_templates=rng.pick(['uint32', 'int32', 'int64', 'uint16', 'float64']))
        yield dict(p=PID, op='tcounts', sc=sc, st=spec['spike_templates'], nt=nt,
                   cs=sorted(set(sc) | {max(sc) + 1, 0})[:6], spec=spec)
    # random long vectors
    for _ in range(300 if q else 6000):
        n = rng.randrange(2, 400)
        # id range: dense small alphabets, and sparse large ids (NumPy and the helpers switch
        # algorithms on the ratio of the id range to the number of items)
        R = rng.pick([60, 60, 5000, 60000, 1000000, 20000000])
        t = rng.randrange(4)
        if t == 2 and R > 1000000:
            R = rng.pick([60, 5000, 60000, 1000000])    # grouped_mean: the list model of _index_of's table has max(id)+2 cells
        ids = rng.sample(range(0, R), rng.randrange(1, 9))
        dt = rng.pick(dts if R <= 60000 else [d for d in dts if d != 'uint16'])
        if R > 60:
            n = rng.pick([n, rng.randrange(1, 8)])
        if t == 2 and R >= 1000000:
            n = min(n, 80)      # the list model walks the 10^6-cell table once per spike (0.6 s per case at 400 spikes)
        full = t in (0, 1) and rng.random() < .3
        if full:
            # ids anywhere in the range of the dtype: landmarks and uniformly drawn ones
            dt = rng.pick(dts)
            ids = list({rng.pick([rng.pick(wide_ids(dt)), rng.randrange(0, DMAX[dt] + 1)]) for _ in range(rng.randrange(1, 9))})
        sc = [rng.pick(ids) for _ in range(n)]
        if t == 0:
            c = dict(p=PID, op='spc', sc=sc, dtype=dt)
            if rng.random() < .5:
                c['ids'] = sorted(rng.sample(range(5000), n))
                if rng.random() < .4:
                    rng.shuffle(c['ids'])
                c['idtype'] = rng.pick(dts)
                if full and rng.random() < .5:
                    # spike ids near the top of their dtype (the grouping is not read by a selector below)
                    c['ids'] = [DMAX[c['idtype']] - 5000 + x for x in c['ids']]
            if rng.random() < .5 and max(c.get('ids') or [0]) < 10 ** 4:
                c['then'] = []
                for _ in range(rng.randrange(1, 4)):
                    if rng.random() < .2:
                        c['then'].append(dict(k='flatten'))
                        continue
                    req = rng.sample(ids, rng.randrange(1, len(ids) + 1)) + rng.sample(range(0, R), rng.randrange(0, 3))
                    rng.shuffle(req)
                    c['then'].append(dict(k='select', n=rng.pick([None, 0, 1, 2, 5, 40, 1000]), req=req,
                                          chunks=rng.random() < .4,
                                          subset=sorted(rng.sample(range(5000 if 'ids' in c else n), rng.randrange(0, n)))
                                          if rng.random() < .3 else None))
                c['rs'] = rng.randrange(10 ** 6)
            yield c
        elif t == 1:
            cl = rng.sample(range(0, R), rng.randrange(1, 8 if R == 60 else 70)) + rng.sample(ids, rng.randrange(0, len(ids) + 1))
            rng.shuffle(cl)
            if rng.random() < .3:
                cl = cl + [rng.pick([-1, -2, -R, -7])]       # partly absent requests: ids nobody carries, also negative ones
                rng.shuffle(cl)
            if full:
                cl = cl + [rng.pick(wide_ids(rng.pick(dts))) for _ in range(rng.randrange(0, 4))]
                rng.shuffle(cl)
            yield dict(p=PID, op='sic', sc=sc, cl=cl, dtype=dt, clkind=rng.pick(container_kinds(cl)))
        elif t == 2:
            adt = rng.pick(['float64', 'float64', 'int64', 'int8', 'int16', 'uint8', 'bool', 'list', 'float32'])
            lo, hi = {'uint8': (0, 256), 'bool': (0, 2), 'int8': (-128, 128)}.get(adt, (-50, 50))
            c = dict(p=PID, op='gmean', sc=sc, arr=[rng.randrange(lo, hi) for _ in range(n)], dtype=dt, adtype=adt)
            if rng.random() < .3:
                c['pre_sc'] = [rng.pick(sc) for _ in sc]
            yield c
        else:
            lookup = rng.sample(range(0, max(R, 200)), rng.randrange(1, 30))
            c = dict(p=PID, op='index_of', arr=[rng.pick(lookup) for _ in range(n)], lookup=lookup,
                     dtype=rng.pick([d for d in dts if d != 'uint16' or max(lookup) < 60000]), lkind=rng.pick(['list', 'array']))
            if max(lookup) >= TABLE_MODEL_MAX:
                c['spec_only'] = True
            yield c
