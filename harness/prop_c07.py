"""C07 — spike-cluster index utilities partition the spikes (DESIGN.md §5 C07)."""
import itertools
import numpy as np
from . import common as C
from . import dataset as D
from . import dense_common as DC

PID = 'C07'
PARALLEL = False
BATCH = 3000
BUDGET_S = {'quick': 70, 'thorough': 900}
DT = {'int32': (32, True), 'int64': (64, True), 'uint16': (16, False), 'uint32': (32, False)}
RULE = ('exhaustive: all assignment vectors of length <= L over the id alphabet {0,2,3,7} x dtypes '
        'int32/int64/uint16/uint32 x with/without spike-id vector (increasing, and unsorted / repeated ids); requested cluster lists unsorted '
        'and partly absent; unsorted lookups; then random long vectors; TemplateModel queries on '
        'generated datasets. Lookups, requested lists and assignments with large sparse ids: every order of 3 ids out of '
        '{0, 3, 70, B-1, B} for B on a ladder of magnitudes from 255 to 2^24+5 (powers of two and of ten, +-1), random ids up to '
        '2*10^7 (the real code is compared with the Lean definition positionsIn where the table model would need millions of '
        'cells). Sequences: the grouping returned by _spikes_per_cluster is handed to the library\'s own consumers (SpikeSelector '
        'through spc.get with counts below / above the group sizes, with and without chunk / subset restriction; '
        '_flatten_per_cluster), then READ AGAIN and recomputed from the same arrays: it must still be the grouping of the '
        'unchanged assignment vector. non-trivial = at least two spikes and two distinct ids')
ASSUMPTIONS = ['grouped_mean: integer-valued data so that the sum is exact; the single float division '
               'is compared with the correctly rounded exact quotient (fractions.Fraction)']
ALPHA = [0, 2, 3, 7]


def impl(case):
    from phylib.io import array as A
    op = case['op']
    if op == 'spc':
        sc = np.array(case['sc'], dtype=case['dtype'])
        ids = np.array(case['ids'], dtype=np.int64) if case.get('ids') is not None else None
        d = A._spikes_per_cluster(sc, ids)
        first = [[int(k), [int(x) for x in v]] for k, v in d.items()]
        if not case.get('then'):
            return first
        # the grouping is used by the library's own consumers (as TemplateModel.save_spikes_subset_waveforms and
        # EphysAlfCreator do: a SpikeSelector reading it through `spc.get`, _flatten_per_cluster), then read again
        n_ids = max(len(sc), (int(ids.max()) + 1) if ids is not None and len(ids) else 0)
        np.random.seed(case.get('rs', 0))
        sel = A.SpikeSelector(get_spikes_per_cluster=lambda cl: d.get(cl, np.array([], dtype=np.int64)),
                              spike_times=np.arange(n_ids, dtype=np.float64),
                              chunk_bounds=np.linspace(0., float(max(n_ids, 1)), 5), n_chunks_kept=2)
        for stp in case['then']:
            if stp['k'] == 'select':
                sub = None if stp.get('subset') is None else np.array(stp['subset'], dtype=np.int64)
                sel(stp['n'], list(stp['req']), subset_chunks=bool(stp.get('chunks')), subset_spikes=sub)
            elif stp['k'] == 'flatten':
                A._flatten_per_cluster(d)
            else:
                raise ValueError(stp['k'])
        after = [[int(k), [int(x) for x in v]] for k, v in d.items()]
        again = [[int(k), [int(x) for x in v]] for k, v in A._spikes_per_cluster(sc, ids).items()]
        return dict(first=first, after=after, again=again)
    if op == 'sic':
        return [int(x) for x in A._spikes_in_clusters(np.array(case['sc'], dtype=case['dtype']), case['cl'])]
    if op == 'unique':
        return [int(x) for x in A._unique(np.array(case['l'], dtype=case['dtype']))]
    if op == 'index_of':
        dt = case.get('dtype', 'int64')
        lookup = case['lookup'] if case.get('lkind', 'list') == 'list' else np.array(case['lookup'], dtype=dt)
        return [int(x) for x in A._index_of(np.array(case['arr'], dtype=dt), lookup)]
    if op == 'flatten':
        d = {i: np.array(v, dtype=case.get('dtype', 'int64')) for i, v in enumerate(case['d'])}
        return [int(x) for x in A._flatten_per_cluster(d)]
    if op == 'gmean':
        adt = case.get('adtype', 'float64')
        arr = list(case['arr']) if adt == 'list' else np.array(case['arr'], dtype=adt)
        sc = np.array(case['sc'], dtype=case['dtype'])
        if case.get('pre_sc') is not None:
            # an earlier call with the SAME assignment array object holding another clustering, edited in place since
            want = sc.copy()
            sc[:] = np.array(case['pre_sc'], dtype=case['dtype'])
            A.grouped_mean(arr, sc)
            sc[:] = want
        out = A.grouped_mean(arr, sc)
        return [float(x) for x in out]
    if op == 'tcounts':
        with C.scratch_dir() as d:
            m = D.load(D.write_dataset(d, case['spec']))
            try:
                out = []
                for c in case['cs']:
                    out.append(dict(counts=[int(x) for x in m.get_template_counts(c)],
                                    cluster_spikes=[int(x) for x in m.get_cluster_spikes(c)],
                                    template_spikes=[int(x) for x in m.get_template_spikes(c)]))
                nt = int(m.n_templates)
                # the same queries after the assignments were changed in memory (no save): they
                # must follow the array helpers on the CURRENT assignments
                # (compared with the Lean model on the reversed assignment vector, second query)
                new_sc = np.asarray(m.spike_clusters).copy()[::-1].copy()
                m.spike_clusters = new_sc
                out2 = []
                for c in case['cs']:
                    out2.append(dict(counts=[int(x) for x in m.get_template_counts(c)],
                                     cluster_spikes=[int(x) for x in m.get_cluster_spikes(c)],
                                     template_spikes=[int(x) for x in m.get_template_spikes(c)]))
                inplace_ok = True
                # ... and after the assignment vector of the model was edited IN PLACE (merge: every spike of the
                # highest cluster goes to cluster 0): the per-template queries still follow the stored templates,
                # the per-cluster queries the edited vector
                st_file = np.array(case['st'], dtype=np.int64)
                (d / 'second').mkdir()
                m2 = D.load(D.write_dataset(d / 'second', case['spec']))     # a first load of a fresh copy
                try:
                    cur = m2.spike_clusters
                    hi = int(np.max(cur))
                    cur[cur == hi] = 0
                    for c in sorted(set(case['cs']) | set(range(nt))):
                        if not np.array_equal(m2.get_cluster_spikes(c), A._spikes_in_clusters(cur, [c])):
                            inplace_ok = False
                    for t in range(nt):
                        exp_t = np.nonzero(st_file == t)[0]
                        if not np.array_equal(m2.get_template_spikes(t), exp_t):
                            inplace_ok = False
                    for c in case['cs']:
                        exp = np.nonzero(np.asarray(cur) == c)[0]
                        if not np.array_equal(m2.get_template_counts(c), np.bincount(st_file[exp], minlength=nt)):
                            inplace_ok = False
                finally:
                    m2.close()
            finally:
                m.close()
        return dict(res=out, nt=nt, res_inmem=out2, inplace_ok=inplace_ok)
    raise ValueError(op)


def model_query(case, impl_res):
    q = {k: v for k, v in case.items() if not k.startswith('_') and k not in ('dtype', 'spec')}
    if case['op'] == 'spc':
        q['w'], q['signed'] = DT[case['dtype']]
    q.pop('pre_sc', None)
    q.pop('then', None)
    q.pop('rs', None)
    if case['op'] == 'sic':
        # requested ids below zero are absent from every (non-negative) assignment vector: they select nothing
        q['cl'] = [c for c in case['cl'] if c >= 0]
    if case['op'] == 'tcounts':
        q['_second'] = dict(q, sc=case['sc'][::-1])
    return q


def judge(case, impl_res, ans):
    if 'err' in ans:
        return 'MACHINERY: driver error %s' % ans['err']
    m = ans['ok'].get('model')
    if case['op'] == 'index_of':
        return judge_index_of(case, impl_res, ans['ok'])
    if case['op'] == 'flatten' and not case['d']:
        # the empty dictionary: the real helper raises ValueError (nothing to concatenate); the model's []
        # is outside the theorem's domain (hypothesis d ≠ [])
        if impl_res.get('raised') not in (None, 'ValueError') or impl_res.get('ok') not in (None, []):
            return 'SPEC: _flatten_per_cluster({}) neither raises ValueError nor returns an empty array'
        return None
    if 'raised' in impl_res:
        return 'SPEC: real code raised %s (%s) at %s on an in-domain input' % (
            impl_res['raised'], impl_res['msg'], impl_res['where'])
    ok = impl_res['ok']
    op = case['op']
    if m is None:
        return 'MACHINERY: out-of-domain case generated'
    if op == 'spc':
        if ans['ok']['spec'] != m:
            return 'MACHINERY: model differs from its Lean spec (contradicts the theorem)'
        first = ok['first'] if isinstance(ok, dict) else ok
        if sorted(first) != m:      # dict: key order is not part of the property
            return 'SPEC: groups differ from {cluster: its spike indices, or the supplied ids of its spikes, in increasing position order}'
        if isinstance(ok, dict):
            # the assignment vector never changed: the grouping the caller holds, and a new grouping of the same
            # arrays, are still the model's groups after the library's consumers used the first one
            if sorted(ok['after']) != m:
                return ('SPEC: the grouping returned by _spikes_per_cluster no longer holds, for each cluster, the increasing '
                        'array of its spikes once the library\'s own consumers (%s) have used it; the assignment vector is '
                        'unchanged' % ', '.join(sorted({step_name(x) for x in case['then']})))
            if sorted(ok['again']) != m:
                return 'SPEC: grouping the same assignment / id arrays again after the consumers ran gives other groups'
        return None
    if op == 'gmean':
        # the quotients are computed by the Lean model (`groupedMeanQ`, exact); the real code performs one
        # float division per cluster, i.e. the correctly rounded exact quotient
        exp = [DC.to_float(x) for x in ans['ok']['mean']]
        if ok != exp:
            return 'SPEC: grouped mean differs from sum/count per sorted cluster'
        return None
    if op == 'tcounts':
        if ok['nt'] != case['nt']:
            return 'MACHINERY: n_templates of the generated dataset'
        if ok['res'] != m:
            return 'SPEC: model query differs from the set-theoretic definition'
        if 'err' in ans.get('second', {}):
            return 'MACHINERY: driver error in the second query: %s' % ans['second']['err']
        if ok['res_inmem'] != ans['second']['ok']['model']:
            return 'SPEC: model queries do not follow the CURRENT assignments after they were changed in memory'
        if ok.get('inplace_ok') is False:
            return ('SPEC: after model.spike_clusters was edited in place (first load of the directory) the per-template '
                    'queries no longer follow the stored templates / the per-cluster queries the edited vector')
        return None
    if ok != m:
        return 'SPEC: helper output differs from its set-theoretic definition'
    return None


def step_name(stp):
    if stp['k'] == 'flatten':
        return '_flatten_per_cluster'
    return 'SpikeSelector(n=%s%s%s)' % (stp['n'], ', chunks' if stp.get('chunks') else '',
                                        ', subset' if stp.get('subset') is not None else '')


def judge_index_of(case, impl_res, a):
    """`_index_of` against the Lean table model `Np.indexOf` and the Lean definition `positionsIn` (theorem
    `indexOf_spec`: equal on duplicate-free lookups holding every element).  Lookups with ids in the millions are
    compared with `positionsIn` only (`spec_only`: the list model of the table is not built)."""
    arr, lookup = case['arr'], case['lookup']
    in_domain = len(set(lookup)) == len(lookup) and all(x >= 0 for x in lookup) and set(arr) <= set(lookup)
    if case.get('spec_only'):
        if not in_domain:
            return 'MACHINERY: out-of-domain case generated (spec_only needs the hypotheses of indexOf_spec)'
    else:
        if a.get('model') is None:
            return 'MACHINERY: out-of-domain case generated'
        if in_domain and a['model'] != a['spec']:
            return 'MACHINERY: model differs from its Lean spec (contradicts the theorem)'
    if 'raised' in impl_res:
        return 'SPEC: real code raised %s (%s) at %s on an in-domain input' % (
            impl_res['raised'], impl_res['msg'], impl_res['where'])
    if impl_res['ok'] != (a['spec'] if case.get('spec_only') else a['model']):
        return 'SPEC: _index_of differs from the position of each element in the lookup as given'
    return None


def nontrivial(case):
    v = case.get('sc') or case.get('l') or case.get('arr') or case.get('d') or []
    if case['op'] == 'flatten':
        return sum(len(x) for x in v) > 1
    return len(v) >= 2 and len(set(v)) >= 2


def tally(rep, case, impl_res, ans):
    rep.count('op:' + case['op'])
    if 'dtype' in case:
        rep.count('dtype:' + case['dtype'])
    if case['op'] == 'gmean':
        rep.count('values_dtype:' + case.get('adtype', 'float64'))
        if case.get('pre_sc') is not None:
            rep.count('gmean: assignment array edited in place after an earlier call')
    if case['op'] == 'sic' and any(c < 0 for c in case['cl']):
        rep.count('sic: negative (absent) requested id')
    if case['op'] == 'index_of':
        lk = case['lookup']
        mx = max(lk) if lk else 0
        rep.count('index_of: largest lookup id %s' % ('< 2^16' if mx < 65536 else '< 10^6' if mx < 10 ** 6 else '>= 10^6'))
        if lk != sorted(lk):
            rep.count('index_of: unsorted lookup%s' % (' with an id >= 10^6' if mx >= 10 ** 6 else ''))
        if case.get('spec_only'):
            rep.count('index_of: compared with the Lean definition positionsIn (table model not built)')
    if case['op'] == 'spc' and case.get('then'):
        rep.count('spc: grouping read again after %d consumer call(s)' % len(case['then']))
        sizes = {}
        for c in case['sc']:
            sizes[c] = sizes.get(c, 0) + 1
        for stp in case['then']:
            rep.count('spc: consumer ' + (step_name(stp) if stp['k'] == 'flatten' or stp['n'] is None else
                                          step_name(dict(stp, n='k'))))
            if (stp['k'] == 'select' and stp['n'] and not stp.get('chunks') and stp.get('subset') is None
                    and any(sizes.get(c, 0) > stp['n'] for c in stp['req'])):
                rep.count('spc: a group larger than the requested count reaches the sub-selection unrestricted')
    if case['op'] == 'tcounts':
        rep.count('model: spike_clusters.npy %s, template ids stored as %s' % (
            'present' if case['spec'].get('spike_clusters') is not None else 'absent',
            (case['spec'].get('dtypes') or {}).get('spike_templates', 'uint32')))
    if case['op'] == 'spc':
        rep.count('len:%s' % (len(case['sc']) if len(case['sc']) < 8 else '8+'))
        ids = case.get('ids')
        rep.count('ids:%s' % ('none' if ids is None else 'given, increasing' if ids == sorted(set(ids)) else 'given, unsorted or repeated'))


def classify(case, impl_res, ans, why):
    return dict(op=case['op'], kind=why.split(':')[0], dtype=case.get('dtype'),
                raised=impl_res.get('raised'), where=impl_res.get('where'))


def shrink(case):
    for i in range(len(case.get('then') or [])):
        c = dict(case); c['then'] = case['then'][:i] + case['then'][i + 1:]
        yield c
    for key in ('sc', 'l', 'arr'):
        if key in case and case['op'] != 'tcounts':
            v = case[key]
            for i in range(len(v)):
                c = dict(case); c[key] = v[:i] + v[i + 1:]
                if key == 'sc' and c.get('ids') is not None:
                    c['ids'] = case['ids'][:i] + case['ids'][i + 1:]
                if key == 'sc' and 'arr' in c and case['op'] == 'gmean':
                    c['arr'] = case['arr'][:i] + case['arr'][i + 1:]
                if key == 'arr' and case['op'] == 'gmean':
                    continue
                if case['op'] == 'spc' and not c['sc']:
                    continue
                if case['op'] == 'index_of' and key == 'arr':
                    yield c
                elif case['op'] != 'index_of':
                    yield c


# magnitudes of the largest id of a lookup: around the powers of two / ten where dtypes, NumPy and the helpers change
# representation or algorithm.  The list model of the lookup table (max(id)+2 cells, one copy per lookup entry, one
# traversal per element of arr) costs up to 1 s per case at 10^6: it is built for lookups below TABLE_MODEL_MAX; beyond,
# the real code is compared with the Lean definition `positionsIn` (equal to the model by theorem indexOf_spec, whose
# hypotheses the judge re-checks on the case)
LADDER = [255, 256, 65535, 65536, 10 ** 6 - 1, 10 ** 6, 10 ** 6 + 1, 2 ** 20, 2 ** 21, 2 ** 22 + 1, 10 ** 7, 2 ** 24 + 5]
TABLE_MODEL_MAX = 200000


def consumer_steps(k, present, pool):
    """A short history of library consumers of one grouping (rotating menu): SpikeSelector calls with counts below and
    above the group sizes, unrestricted / restricted to the kept chunks / to a subset, requested lists unsorted and
    partly absent; _flatten_per_cluster."""
    req = sorted(present, reverse=True) + [5]
    sel = lambda cnt, chunks=False, subset=None, r=req: dict(k='select', n=cnt, req=r, chunks=chunks, subset=subset)  # noqa
    menu = [
        [sel(1)],
        [sel(None), sel(2)],
        [dict(k='flatten'), sel(1, chunks=True)],
        [sel(2, subset=sorted(set(pool[::2])))],
        [sel(1, r=req[:1]), dict(k='flatten'), sel(100)],
        [sel(3, chunks=True, subset=sorted(set(pool))), sel(0)],
    ]
    return menu[k % len(menu)]


def gen(tier, rng):
    q = tier == 'quick'
    L = 6 if q else 8
    dts = list(DT)
    k = 0
    for n in range(1, L + 1):
        for sc in itertools.product(ALPHA, repeat=n):
            k += 1
            for dt in (dts if n <= 4 else [dts[k % 4]]):
                c = dict(p=PID, op='spc', sc=list(sc), dtype=dt)
                if k % 3 == 0:
                    c['ids'] = [100 + 3 * i for i in range(n)]
                elif k % 3 == 1 and n >= 2:
                    # supplied ids in arbitrary order, with repetitions: never sorted by the helper
                    c['ids'] = [(7 * i + k) % 11 for i in range(n)]
                if n >= 2 and (k // 4) % 2 == 0:
                    # ... and the grouping is read again after the library's consumers used it
                    c['then'] = consumer_steps(k // 8, set(sc), c.get('ids') or list(range(n)))
                    c['rs'] = k
                yield c
            if n <= 5:
                cl = [[7], [3, 0], [5, 2, 7], [9], [2, 2, 0]][k % 5]
                yield dict(p=PID, op='sic', sc=list(sc), cl=cl, dtype=dts[k % 4])
                yield dict(p=PID, op='unique', l=list(sc), dtype=dts[k % 4])
                yield dict(p=PID, op='gmean', sc=list(sc), arr=[((i * 5 + k) % 13) - 4 for i in range(n)],
                           dtype=dts[k % 4])
    yield dict(p=PID, op='sic', sc=[0], cl=[-1], dtype='int64')
    yield dict(p=PID, op='sic', sc=[0, 3, 3], cl=[-1, 3, -4], dtype='int32')
    yield dict(p=PID, op='sic', sc=[], cl=[1], dtype='int64')
    yield dict(p=PID, op='sic', sc=[1, 2], cl=[], dtype='int64')
    yield dict(p=PID, op='unique', l=[], dtype='int64')
    yield dict(p=PID, op='flatten', d=[])
    for g in ([5, 1], [2, 2], [4, 1, 4], [9], [3, 2, 1, 0]):          # a dictionary with exactly ONE group
        yield dict(p=PID, op='flatten', d=[g])
    # requested ids outside the range of the assignment dtype: they match nothing (no wrap-around onto small ids)
    yield dict(p=PID, op='sic', sc=[0, 1, 0, 2], cl=[65536, 65537], dtype='uint16')
    yield dict(p=PID, op='sic', sc=[0, 1, 0, 2], cl=[2 ** 32, 1], dtype='int32')
    yield dict(p=PID, op='sic', sc=[0, 1, 0, 2], cl=[2 ** 32 + 2, 2 ** 16], dtype='uint32')
    for lookup in itertools.permutations([0, 2, 3, 7, 11], 3):
        for arr in itertools.product(lookup, repeat=3):
            yield dict(p=PID, op='index_of', arr=list(arr), lookup=list(lookup))
    # every order of three ids out of {0, 3, 70, B-1, B}, B on the ladder of magnitudes (sorted lookups are 1 in 6)
    k = 0
    for big in LADDER:
        for lookup in itertools.permutations([0, 3, 70, big - 1, big], 3):
            k += 1
            dt = [d for d in ('int32', 'int64', 'uint32', 'uint16') if d != 'uint16' or big < 65536][k % (4 if big < 65536 else 3)]
            c = dict(p=PID, op='index_of', arr=[lookup[(i * i + k) % 3] for i in range(5)], lookup=list(lookup),
                     dtype=dt, lkind=['list', 'array'][(k // 3) % 2])
            if max(lookup) >= TABLE_MODEL_MAX:
                c['spec_only'] = True
            yield c
    for lookup in ([5], [0], [4, 1, 9, 2]):
        yield dict(p=PID, op='index_of', arr=[lookup[0]] * 2, lookup=lookup)
        yield dict(p=PID, op='index_of', arr=[], lookup=lookup)
    for d in itertools.product([[], [3], [5, 1], [1, 8, 3], [2, 2]], repeat=3):
        if any(d):
            yield dict(p=PID, op='flatten', d=[list(x) for x in d], dtype=dts[sum(map(len, d)) % 4])
    # unsigned vectors with negative entries are impossible; signed -1 ("unclustered") for _unique
    yield dict(p=PID, op='unique', l=[3, -1, 0, 3, -1], dtype='int64')
    # TemplateModel queries on generated datasets
    for _ in range(25 if q else 300):
        spec = D.random_spec(rng, raw=False, feats=False, tfeats=False)
        sc = spec.get('spike_clusters') or spec['spike_templates']
        nt = len(spec['templates'])
        # stored template-id dtype (an int32 / float file is what the loader does not need to convert)
        spec['dtypes'] = dict(spec.get('dtypes') or {}, spike_templates=rng.pick(['uint32', 'int32', 'int64', 'uint16', 'float64']))
        yield dict(p=PID, op='tcounts', sc=sc, st=spec['spike_templates'], nt=nt,
                   cs=sorted(set(sc) | {max(sc) + 1, 0})[:6], spec=spec)
    # random long vectors
    for _ in range(300 if q else 6000):
        n = rng.randrange(2, 400)
        # id range: dense small alphabets, and sparse large ids (NumPy and the helpers switch
        # algorithms on the ratio of the id range to the number of items)
        R = rng.pick([60, 60, 5000, 60000, 1000000, 20000000])
        t = rng.randrange(4)
        if t == 2 and R > 1000000:
            R = rng.pick([60, 5000, 60000, 1000000])    # grouped_mean: the list model of _index_of's table has max(id)+2 cells
        ids = rng.sample(range(0, R), rng.randrange(1, 9))
        dt = rng.pick(dts if R <= 60000 else [d for d in dts if d != 'uint16'])
        if R > 60:
            n = rng.pick([n, rng.randrange(1, 8)])
        sc = [rng.pick(ids) for _ in range(n)]
        if t == 0:
            c = dict(p=PID, op='spc', sc=sc, dtype=dt)
            if rng.random() < .5:
                c['ids'] = sorted(rng.sample(range(5000), n))
                if rng.random() < .4:
                    rng.shuffle(c['ids'])
            if rng.random() < .5:
                c['then'] = []
                for _ in range(rng.randrange(1, 4)):
                    if rng.random() < .2:
                        c['then'].append(dict(k='flatten'))
                        continue
                    req = rng.sample(ids, rng.randrange(1, len(ids) + 1)) + rng.sample(range(0, R), rng.randrange(0, 3))
                    rng.shuffle(req)
                    c['then'].append(dict(k='select', n=rng.pick([None, 0, 1, 2, 5, 40, 1000]), req=req,
                                          chunks=rng.random() < .4,
                                          subset=sorted(rng.sample(range(5000 if 'ids' in c else n), rng.randrange(0, n)))
                                          if rng.random() < .3 else None))
                c['rs'] = rng.randrange(10 ** 6)
            yield c
        elif t == 1:
            cl = rng.sample(range(0, R), rng.randrange(1, 8 if R == 60 else 70)) + rng.sample(ids, rng.randrange(0, len(ids) + 1))
            rng.shuffle(cl)
            if rng.random() < .3:
                cl = cl + [rng.pick([-1, -2, -R, -7])]       # partly absent requests: ids nobody carries, also negative ones
                rng.shuffle(cl)
            yield dict(p=PID, op='sic', sc=sc, cl=cl, dtype=dt)
        elif t == 2:
            adt = rng.pick(['float64', 'float64', 'int64', 'int8', 'int16', 'uint8', 'bool', 'list', 'float32'])
            lo, hi = {'uint8': (0, 256), 'bool': (0, 2), 'int8': (-128, 128)}.get(adt, (-50, 50))
            c = dict(p=PID, op='gmean', sc=sc, arr=[rng.randrange(lo, hi) for _ in range(n)], dtype=dt, adtype=adt)
            if rng.random() < .3:
                c['pre_sc'] = [rng.pick(sc) for _ in sc]
            yield c
        else:
            lookup = rng.sample(range(0, max(R, 200)), rng.randrange(1, 30))
            c = dict(p=PID, op='index_of', arr=[rng.pick(lookup) for _ in range(n)], lookup=lookup,
                     dtype=rng.pick([d for d in dts if d != 'uint16' or max(lookup) < 60000]), lkind=rng.pick(['list', 'array']))
            if max(lookup) >= TABLE_MODEL_MAX:
                c['spec_only'] = True
            yield c
