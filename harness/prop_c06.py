"""C06 — sparse feature storage is densified exactly (DESIGN.md §5 C06)."""
import itertools
import os
import random
import numpy as np
from . import common as C
from . import dataset as D
from . import dense_common as DC

PID = 'C06'
PARALLEL = True
BATCH = 1500
BUDGET_S = {'quick': 80, 'thorough': 1200}
RULE = ('from_sparse: exhaustive (data, column table, requested channels) with <= 2/3 spikes, <= 3/4 local '
        'columns (distinct entries, repeated -1), all ordered requests of <= 3 channels out of 0..3 plus an '
        'unknown one, trailing dimensions 0..2, int32/int64/uint32 column tables, empty spike lists; '
        'probe-wide requests: column tables whose rows REPEAT (several spikes of one template, <= 12 rows x <= 12 local '
        'columns) on probes of 64..6000 channels with 1..64 requested channels (strided over the whole probe / a '
        'neighbourhood / random, sorted or shuffled, with and without the stored channels) so that the size relations '
        'between (number of cells, number of requested channels, spread of the channel ids) vary over orders of '
        'magnitude, at from_sparse level and through get_features on generated wide-probe datasets; '
        'get_features / get_template_features on generated TemplateModel datasets with and without a row '
        '(spike id) table and column table (row tables listing ONE spike up to all, increasing or not; 2..4 components per '
        'channel; -1 anywhere in a column-table row; requests naming channels the probe does not have), spike subsets in any '
        'order incl. unstored spikes (whose rows are NOT judged: values are claimed for stored spikes only), channel '
        'permutations; PCA route: stores as the real exporter writes them AND the same content re-laid-out (stored spikes in '
        'any order, channels of a row in any order, -1 in the middle of a row, requested spikes taken out of the store); final features against the Lean model (exact projections of the stored waveforms '
        'onto the components the real _compute_pcs returned) + numerical residual test of the components. '
        'non-trivial = at least one stored value lands in a requested column')
ASSUMPTIONS = ['PCA route (no feature file): np.cov / np.linalg.eigh are outside the model - the components are a parameter '
               'of the Lean model (theorem getFeaturesPca_spec) and the harness passes the components the real _compute_pcs '
               'returned; the real features (float32) are compared with the exact projections, tolerance '
               '2^-18 * max(1, n_samples * max|waveform|); that the components are the leading eigenvectors is a numerical '
               'residual test (eigen-equation, descending eigenvalues), a test, not a proof']
SCALE = 4


def _data(nr, nloc, trailing, dtype='float64'):
    ids = np.arange(nr * nloc).reshape((nr, nloc)) + 1
    if trailing == 0:
        return ids.astype(dtype)
    shp = (nr, nloc) + (2,) * trailing
    t = np.arange(2 ** trailing).reshape((2,) * trailing)
    return (ids.reshape((nr, nloc) + (1,) * trailing) * SCALE + t).astype(dtype)


def _decode(out, trailing):
    """-> id matrix (0 = zero, -1 = NaN, -2 = inconsistent)"""
    out = np.asarray(out, dtype=np.float64)
    if out.size == 0:
        return [[] for _ in range(out.shape[0])]
    if trailing == 0:
        res = np.where(np.isnan(out), -1, out)
        return res.astype(np.int64).tolist()
    flat = out.reshape(out.shape[:2] + (-1,))
    nanm = np.isnan(flat).all(axis=2)
    t = np.arange(flat.shape[2])
    ids = np.where(nanm, -1, flat[..., 0] // SCALE)
    good = nanm | (flat == 0).all(axis=2) | ((flat - t) == (flat[..., :1])).all(axis=2)
    ids = np.where(good, ids, -2)
    return ids.astype(np.int64).tolist()


FRAC = 2.0 ** -30     # exact in float64, lost in float32: stored values carry it when the store is float64


def _frac_ok(out, case):
    """with a float64 store every stored (non-zero, non-NaN) value comes back bit-exact"""
    if not case['spec'].get('feature_frac'):
        return True
    v = np.asarray(out, dtype=np.float64).ravel()
    v = v[np.isfinite(v) & (v != 0)]
    return bool(np.all(v - np.floor(v) == FRAC))


def _chans(case):
    """the requested channels as a list or as an array of the given integer dtype"""
    k = case.get('chkind', 'list')
    if k == 'list':
        return list(case['chans'])
    return np.array(case['chans'], dtype='int64' if k == 'array' else k)


def _edit_store(d, seed, drop=()):
    """rewrite the waveform store `_phy_spikes_subset.*.npy` in directory d (deterministic in `seed`); the rows of the
    spikes in `drop` are taken out of the store"""
    r = random.Random(seed)
    f = lambda n: os.path.join(d, '_phy_spikes_subset.%s.npy' % n)
    ids, ch, wv = np.load(f('spikes')), np.load(f('channels')), np.load(f('waveforms'))
    if ids.ndim != 1 or ch.ndim != 2 or wv.ndim != 3:
        return
    ids, ch, wv = ids.copy(), ch.copy(), wv.copy()
    if len(drop):
        k = ~np.isin(ids, np.array(list(drop), dtype=np.int64))
        ids, ch, wv = ids[k], ch[k], wv[k]
    if r.random() < .7:                                   # stored spikes in any order
        p = list(range(len(ids))); r.shuffle(p)
        ids, ch, wv = ids[p], ch[p], wv[p]
    for k in range(len(ids)):
        if r.random() < .6:                               # channels of the row in any order (-1 lands anywhere)
            p = list(range(ch.shape[1])); r.shuffle(p)
            ch[k], wv[k] = ch[k, p], wv[k][:, p]
        if ch.shape[1] > 1 and r.random() < .3:           # one more channel dropped, not at the end
            ch[k, r.randrange(ch.shape[1] - 1)] = -1
    np.save(f('spikes'), ids); np.save(f('channels'), ch); np.save(f('waveforms'), wv)


def impl(case):
    from phylib.io.model import from_sparse
    op = case['op']
    if op == 'from_sparse':
        data = _data(case['nr'], case['nloc'], case['trailing'], case.get('dtype', 'float64'))
        cols = np.array(case['cols'], dtype=np.int64).reshape((case['nr'], case['nloc'])).astype(case.get('cdtype', 'int64'))
        chans = _chans(case)
        keep = (data.copy(), cols.copy(), list(chans))
        out = from_sparse(data, cols, chans)
        res = dict(ids=_decode(out, case['trailing']), shape=list(out.shape), dtype=str(out.dtype))
        # the caller's arrays stay the caller's: unchanged, and a second conversion of the same
        # objects gives the same result
        res['args_changed'] = not (np.array_equal(data, keep[0], equal_nan=True) and np.array_equal(cols, keep[1]) and list(chans) == keep[2])
        out2 = from_sparse(data, cols, chans)
        res['second_differs'] = _decode(out2, case['trailing']) != res['ids']
        return res
    with C.scratch_dir() as d:
        params = D.write_dataset(d, case['spec'])
        if case.get('wide'):
            # wide probes: the inverse whitening matrix file is present, as in a real sorter output (the identity; the
            # loader would otherwise invert an n_channels x n_channels matrix on every load)
            np.save(os.path.join(os.path.dirname(str(params)), 'whitening_mat_inv.npy'), np.eye(case['spec']['n_channels']))
        m = D.load(params)
        try:
            sk = case.get('sidkind', 'int64')       # how the caller hands over the requested spike ids
            sid = list(case['spike_ids']) if sk == 'list' else np.array(case['spike_ids'], dtype=sk)
            if op == 'features':
                out = m.get_features(sid, _chans(case))
                res = dict(ids=_decode(out, 1 if case['npcs_pow2'] else 0) if out.ndim == 3 else None, shape=list(out.shape))
                if out.ndim == 3 and not case['npcs_pow2']:
                    res['ids'] = _decode(out[..., 0], 0)
                res['frac_ok'] = _frac_ok(out, case)
            elif op == 'tfeatures':
                out = m.get_template_features(sid)
                res = dict(ids=_decode(out, 0), shape=list(out.shape), frac_ok=_frac_ok(out, case))
            elif op == 'pca':
                from phylib.io.model import _compute_pcs
                m.save_spikes_subset_waveforms(max_n_spikes_per_template=case['nst'], max_n_channels=case['nc'])
                if case.get('store_edit'):
                    # a store of the same content in a layout the exporter itself never writes: stored spikes in any
                    # order, the channels of a row in any order, -1 anywhere in a row (that channel is then not held);
                    # written with the stored shapes and loaded again
                    m.close()
                    _edit_store(os.path.dirname(str(params)), case['store_edit'], case['spike_ids'] if case.get('store_drop_requested') else ())
                    m = D.load(params)
                sw = m.spike_waveforms
                ch = case['chans']
                if sw is None or np.ndim(sw.spike_ids) == 0 or len(sw.spike_ids) < 2:
                    return dict(skip='store holds fewer than 2 spikes (size-1 dimension, out of scope)')
                out = m.get_features(sid, ch)
                exist = np.intersect1d(sid, sw.spike_ids)
                # the store as loaded (exact: the raw samples are integers), handed to the Lean model
                res = dict(shape=list(out.shape), out=np.asarray(out, dtype=np.float64).tolist(),
                           sw_ids=[int(x) for x in sw.spike_ids],
                           sw_channels=[[int(c) for c in row] for row in np.asarray(sw.spike_channels)],
                           sw_waveforms=DC.fracs(np.asarray(sw.waveforms)), nsw=int(m.n_samples_waveforms))
                if len(exist):
                    w = m.get_waveforms(exist, ch)
                    res['w'] = DC.fracs(w)
                    res['scale'] = float(np.abs(np.asarray(w, dtype=np.float64)).max())
                    # the components are the PARAMETER of the model: what the real _compute_pcs returns for the
                    # waveforms the real code projects
                    res['pcs'] = DC.fracs(_compute_pcs(w, 3))
                    # the waveforms the features are computed from are each spike's OWN raw window (C03) on the
                    # channels the store holds for it, zeros elsewhere - recomputed here from the raw data
                    from phylib.io.traces import extract_waveforms
                    w_raw = extract_waveforms(m.traces, np.asarray(m.spike_samples)[exist], list(ch),
                                              n_samples_waveforms=m.n_samples_waveforms)
                    row_of = {int(s): k for k, s in enumerate(sw.spike_ids)}
                    own = True
                    for i, s_ in enumerate(exist):
                        held = set(int(c) for c in sw.spike_channels[row_of[int(s_)]])
                        for j, c in enumerate(ch):
                            exp_col = w_raw[i, :, j] if int(c) in held else np.zeros(w_raw.shape[1])
                            if not np.array_equal(np.asarray(w[i, :, j], dtype=np.float64), np.asarray(exp_col, dtype=np.float64)):
                                own = False
                    res['waveforms_own'] = own
                    pcs = _compute_pcs(w, 3).astype(np.float64)
                    x = w.astype(np.float64)
                    resid = 0.
                    order_ok = True
                    for c in range(x.shape[2]):
                        xc = x[:, :, c]
                        cov = np.eye(x.shape[1]) / x.shape[0] + (np.cov(xc, rowvar=0) if xc.shape[0] > 1 else 0)
                        lam = [float(pcs[k, :, c] @ cov @ pcs[k, :, c]) for k in range(pcs.shape[0])]
                        for k in range(pcs.shape[0]):
                            resid = max(resid, float(np.abs(cov @ pcs[k, :, c] - lam[k] * pcs[k, :, c]).max()))
                        order_ok = order_ok and all(lam[k] >= lam[k + 1] - 1e-6 for k in range(len(lam) - 1))
                        top = np.sort(np.linalg.eigvalsh(cov))[::-1][:pcs.shape[0]]
                        order_ok = order_ok and np.allclose(top, lam, atol=1e-4 * max(1., abs(top[0])))
                    res['resid'] = resid
                    res['order_ok'] = bool(order_ok)
        finally:
            m.close()
    return res


def _store(case):
    spec = case['spec']
    if case['op'] == 'features':
        data, ind, rows = spec['pc_features'], spec.get('pc_feature_ind'), spec.get('pc_feature_spike_ids')
        nloc = len(data[0][0])
    else:
        data, ind, rows = spec['template_features'], spec.get('template_feature_ind'), spec.get('template_feature_spike_ids')
        nloc = len(data[0])
    return len(data), nloc, ind, rows


def model_query(case, impl_res):
    op = case['op']
    if op == 'from_sparse':
        return dict(p=PID, op=op, nr=case['nr'], nloc=case['nloc'],
                    cols=[[c if c < 2 ** 31 else c - 2 ** 32 for c in row] for row in case['cols']], chans=case['chans'])
    if op == 'pca':
        ok = impl_res.get('ok')
        if not ok or 'skip' in ok:
            return dict(p=PID, op='from_sparse', nr=0, nloc=1, cols=[], chans=[0])
        # no requested spike is stored: the components are never computed (any value does)
        pcs = ok.get('pcs') or [[[0] * len(case['chans'])] * ok['nsw']] * 3
        return dict(p=PID, op='pca', sw_ids=ok['sw_ids'], sw_channels=ok['sw_channels'], sw_waveforms=ok['sw_waveforms'],
                    nsw=ok['nsw'], spike_ids=case['spike_ids'], chans=case['chans'], pcs=pcs)
    nr, nloc, ind, rows = _store(case)
    q = dict(p=PID, op='features', nr=nr, nloc=nloc, cols=ind, rows=rows,
             spike_templates=D.expanded(case['spec'])['spike_templates'], spike_ids=case['spike_ids'])
    if op == 'features':
        q['chans'] = case['chans']
    else:
        q['n_templates'] = len(case['spec']['templates'])
    return q


def oracle_stored(case):
    """the property: rows of STORED spikes; None for unstored (nothing claimed)"""
    nr, nloc, ind, rows = _store(case)
    st = D.expanded(case['spec'])['spike_templates']
    chans = case['chans'] if case['op'] == 'features' else list(range(len(case['spec']['templates'])))
    out = []
    for q in case['spike_ids']:
        if rows is not None:
            if q not in rows:
                out.append(None)
                continue
            r = rows.index(q)
        else:
            r = q
        cols = ind[st[q]] if ind is not None else list(range(nloc))
        row = []
        for c in chans:
            row.append(r * nloc + cols.index(c) + 1 if c in cols else 0)
        out.append(row)
    return out


def judge(case, impl_res, ans):
    if 'err' in ans:
        return 'MACHINERY: driver error %s' % ans['err']
    m = ans['ok']['model']
    op = case['op']
    if 'raised' in impl_res:
        return 'SPEC: real code raised %s (%s) at %s on an in-domain request' % (
            impl_res['raised'], impl_res['msg'], impl_res['where'])
    ok = impl_res['ok']
    if op == 'pca':
        if 'skip' in ok:
            return None
        ns = len(case['spike_ids'])
        if ok['shape'] != [ns, len(case['chans']), 3]:
            return 'SPEC: PCA-route features have shape %s' % ok['shape']
        if 'pcs' in ok and len(ok['pcs']) != 3:
            return 'SPEC: PCA route: %d principal components per channel instead of three' % len(ok['pcs'])
        if m is None:
            return 'MACHINERY: Lean model raises on an in-domain PCA-route request'
        if m != ans['ok']['spec']:
            return 'MACHINERY: Lean model of the PCA route differs from its closed form (contradicts getFeaturesPca_spec)'
        if ok.get('waveforms_own') is False:
            return 'SPEC: PCA route: the waveform a spike\'s features are computed from is not that spike\'s own raw window on its stored channels'
        if 'w' in ok and ok['w'] != ans['ok']['block']:
            return ('SPEC: PCA route: the waveforms the components are computed from are not the stored waveforms of the '
                    'requested stored spikes (zero where a channel is not stored), in increasing spike order')
        # final features against the exact projections onto the components the real code computed; float32 output
        # of a float64 sum: |impl - exact| <= 2^-18 * max(1, n_samples * max|waveform|)  (DESIGN.md §3, float32 paths)
        tol = 2.0 ** -18 * max(1., ok['nsw'] * ok.get('scale', 0.))
        exact = np.array([[[DC.to_float(x) for x in r] for r in blk] for blk in m], dtype=np.float64).reshape(ok['shape'])
        got = np.array(ok['out'], dtype=np.float64).reshape(ok['shape'])
        # only rows of spikes the store holds a waveform for are claimed ("the projections of each waveform"); the rows of
        # the other spikes (zeros in the code that exists and in the model) are not judged
        held = np.array([s_ in ok['sw_ids'] for s_ in case['spike_ids']], dtype=bool)
        if got.size and held.any() and not (np.abs(got - exact)[held] <= tol).all():
            err = np.where(held, np.nan_to_num(np.abs(got - exact).reshape(ns, -1), nan=np.inf).max(axis=1), -1.)
            i = int(np.argmax(err))
            return ('SPEC: PCA route: row %d (spike %d, stored) is not the projection of its stored waveform onto the '
                    'three components of each channel' % (i, case['spike_ids'][i]))
        if 'resid' in ok and (ok['resid'] > 1e-3 * max(1., ok['scale'] ** 2) or not ok['order_ok']):
            return 'SPEC: PCA route: components are not the leading eigenvectors (residual %g)' % ok['resid']
        return None
    if m is None:
        return 'MACHINERY: Lean model raises on an in-domain request'
    if op == 'from_sparse':
        nloc = case['nloc']
        exp = []
        for r, row in enumerate(case['cols']):
            row = [c if c < 2 ** 31 else c - 2 ** 32 for c in row]
            exp.append([r * nloc + row.index(c) + 1 if c in row else 0 for c in case['chans']])
        if exp != m:
            return 'MACHINERY: Lean model differs from the python oracle'
        if ok['ids'] != exp:
            return 'SPEC: from_sparse differs from (stored value whose column names the channel, else zero)'
        if ok['shape'] != [case['nr'], len(case['chans'])] + [2] * case['trailing']:      # theorem fromSparse_shape
            return 'SPEC: from_sparse output has shape %s' % ok['shape']
        if ok['dtype'] != case.get('dtype', 'float64'):
            return 'SPEC: from_sparse changed the dtype of the data (%s)' % ok['dtype']
        if ok.get('args_changed'):
            return 'SPEC: from_sparse modified the data / column table / channel list passed by the caller'
        if ok.get('second_differs'):
            return 'SPEC: a second conversion of the same arrays differs from the first'
        return None
    exp = oracle_stored(case)
    got = ok['ids']
    repeated = _store(case)[3] is not None and len(set(case['spike_ids'])) < len(case['spike_ids'])
    if len(got) != len(exp):
        return 'SPEC: %d rows returned for %d requested spikes' % (len(got), len(exp))
    # theorem getFeatures_shape: one row per requested spike, one column per requested channel / template
    exp_shape = ([len(exp), len(case['chans']), len(case['spec']['pc_features'][0])] if op == 'features'
                 else [len(exp), len(case['spec']['templates'])])
    if ok['shape'] != exp_shape:
        return 'SPEC: %s returned an array of shape %s, expected %s' % (op, ok['shape'], exp_shape)
    for i, (g, e, mm) in enumerate(zip(got, exp, m)):
        if e is not None:
            # a repeated spike id against a store WITH a row table is outside the hypotheses of getFeatures_spec (the
            # model mirrors the code there, it is not the specification): only the property's own oracle judges it
            if mm != e and not repeated:
                return 'MACHINERY: Lean model differs from the python oracle on a stored spike'
            if g != e:
                return 'SPEC: row %d (spike %d) differs from the densified stored row' % (i, case['spike_ids'][i])
    if ok.get('frac_ok') is False:
        return 'SPEC: a float64 store does not come back bit-exact (stored values were rounded)'
    # rows of UNSTORED spikes: the statement claims values for stored spikes only - their content (NaN before the
    # densification in the code that exists, which the Lean model mirrors) is not judged; their presence and width are
    # (shape, above)
    return None


def nontrivial(case):
    if case['op'] == 'from_sparse':
        return any(c in case['chans'] for row in case['cols'] for c in row)
    return len(case['spike_ids']) >= 1


def tally(rep, case, impl_res, ans):
    rep.count('op:' + case['op'])
    if case.get('big'):
        rep.count('one_request_for_more_than_10000_stored_spikes')
    if case['op'] == 'from_sparse':
        rep.count('trailing:%d' % case['trailing'])
        rep.count('cdtype:' + case.get('cdtype', 'int64'))
        if case.get('wide'):
            rep.count('wide:from_sparse probe-wide request')
            rep.count('wide:from_sparse column table with a repeated row', int(len(set(map(tuple, case['cols']))) < case['nr']))
            for t in _regime(case['nr'] * case['nloc'], case['chans']):
                rep.count('wide:from_sparse ' + t)
    elif case['op'] == 'pca':
        ok = impl_res.get('ok') or {}
        if 'skip' in ok or 'sw_ids' not in ok:
            rep.count('pca:skipped or raised')
        else:
            st = [s in ok['sw_ids'] for s in case['spike_ids']]
            rep.count('pca:compared with the Lean model')
            rep.count('pca:rows of stored spikes', sum(st))
            rep.count('pca:rows of unstored spikes', len(st) - sum(st))
            rep.count('pca:store rows padded with -1', int(any(-1 in r for r in ok['sw_channels'])))
            rep.count('pca:store row with -1 before a channel', int(any(-1 in r[:max(i_ for i_, c_ in enumerate(r) if c_ >= 0)] for r in ok['sw_channels'] if any(c_ >= 0 for c_ in r))))
            rep.count('pca:store ids not increasing', int(ok['sw_ids'] != sorted(ok['sw_ids'])))
            rep.count('pca:store in a layout the exporter does not write (edited)', int(bool(case.get('store_edit'))))
            rep.count('pca:none of the requested spikes stored', int(not any(st)))
            if case['chans'] != sorted(case['chans']):
                rep.count('pca:unsorted channels')
            if case['spike_ids'] != sorted(case['spike_ids']):
                rep.count('pca:unsorted spikes')
    elif case['op'] in ('features', 'tfeatures'):
        nr, nloc, ind, rows = _store(case)
        rep.count('row_table:%s' % (rows is not None))
        if rows is not None and len(rows) == 1:
            rep.count('store_lists_ONE_spike')
        if rows is not None and rows != sorted(rows):
            rep.count('row_table_not_increasing')
        if case['op'] == 'features':
            rep.count('npcs:%d' % len(case['spec']['pc_features'][0]))
            rep.count('one_local_channel', int(nloc == 1))
            if any(c >= case['spec']['n_channels'] for c in case['chans']):
                rep.count('requests_channel_the_probe_does_not_have')
        if ind is not None and any(-1 in r for r in ind):
            rep.count('col_table_with_-1:%s' % case['op'])
        if case.get('wide'):
            st = D.expanded(case['spec'])['spike_templates']
            tt = [st[q_] for q_ in case['spike_ids']]
            rep.count('wide:get_features probe-wide request')
            rep.count('wide:get_features several requested spikes of one template', int(len(set(tt)) < len(tt)))
            for t in _regime(len(case['spike_ids']) * nloc, case['chans']):
                rep.count('wide:get_features ' + t)
        rep.count('col_table:%s' % (ind is not None))
        rep.count('spike_ids_as:%s' % case.get('sidkind', 'int64'))
        rep.count('channels_as:%s' % case.get('chkind', 'list'))
        rep.count('store_dtype:%s' % ('float64 (values need double precision)' if case['spec'].get('feature_frac') else 'float32'))
        if case['spike_ids'] != sorted(case['spike_ids']):
            rep.count('unsorted_request')
        if len(set(case['spike_ids'])) < len(case['spike_ids']):
            rep.count('repeated_spike_id (store without row table)' if rows is None else 'repeated_spike_id (row table)')
        if rows is not None and set(case['spike_ids']) - set(rows):
            rep.count('requests_unstored_spike')


def classify(case, impl_res, ans, why):
    d = dict(op=case['op'], kind=why.split(':')[0], raised=impl_res.get('raised'), where=impl_res.get('where'))
    if case['op'] in ('features', 'tfeatures'):
        sp = case['spec']
        d['a_store_lists_one_spike'] = any(len(sp.get(k) or [0, 0]) == 1 for k in ('pc_feature_spike_ids', 'template_feature_spike_ids'))
    if case['op'] in ('features', 'tfeatures'):
        nr, nloc, ind, rows = _store(case)
        d.update(row_table=rows is not None, unsorted=case['spike_ids'] != sorted(case['spike_ids']),
                 unstored=bool(rows is not None and set(case['spike_ids']) - set(rows)))
    return d


def shrink(case):
    if case['op'] == 'from_sparse':
        if case['nr'] > 1:
            c = dict(case); c['nr'] = case['nr'] - 1; c['cols'] = case['cols'][:-1]; yield c
        if len(case['chans']) > 1:
            for i in range(len(case['chans'])):
                c = dict(case); c['chans'] = case['chans'][:i] + case['chans'][i + 1:]; yield c
        if case['trailing']:
            c = dict(case); c['trailing'] = 0; yield c
        return
    if len(case['spike_ids']) > 1:
        for i in range(len(case['spike_ids'])):
            c = dict(case); c['spike_ids'] = case['spike_ids'][:i] + case['spike_ids'][i + 1:]; yield c
    if case['op'] == 'features' and len(case['chans']) > 1:
        for i in range(len(case['chans'])):
            c = dict(case); c['chans'] = case['chans'][:i] + case['chans'][i + 1:]; yield c


def _rows_distinct(nloc, pool):
    """all column rows of width nloc over pool (distinct real entries, -1 may repeat)"""
    for row in itertools.product(pool + [-1], repeat=nloc):
        real = [c for c in row if c != -1]
        if len(real) == len(set(real)):
            yield list(row)


def _wide_request(rng, npr, own):
    """1..64 distinct channels of a probe with `npr` channels: a regular subsampling of the whole probe, a
    neighbourhood, random channels, or the stored ones (`own`) - alone or mixed in -, sorted or shuffled"""
    kind = rng.pick(['stride', 'stride', 'stride', 'random', 'near', 'own', 'stride+own', 'random+own'])
    if kind.startswith('stride'):
        n = rng.randrange(2, 65)
        step = max(1, npr // n)
        ch = list(range(rng.randrange(step), npr, step))[:64]
    elif kind.startswith('random'):
        ch = rng.sample(range(npr), rng.randrange(1, min(npr, 64) + 1))
    elif kind == 'near':
        a = rng.randrange(npr - 1)
        ch = list(range(a, min(npr, a + rng.randrange(1, 33))))
    else:
        ch = []
    if kind.endswith('own') and own:
        ch = ch + rng.sample(own, rng.randrange(1, len(own) + 1))
    ch = sorted(set(ch))
    if rng.random() < .5:
        rng.shuffle(ch)
    return ch


def _regime(ncells, chans):
    """where the request sits relative to the number of stored cells (input descriptors for the evidence)"""
    spread = max(chans) - min(chans) if chans else 0
    return ('spread of requested ids %s 6*(cells+channels)' % ('>' if spread > 6 * (ncells + len(chans)) else '<='),
            'requested channels %s 10*cells^0.145' % ('>=' if len(chans) >= 10 * max(ncells, 1) ** 0.145 else '<'))


def gen(tier, rng):
    q = tier == 'quick'
    k = 0
    reqs = [list(p) for r in (1, 2, 3) for p in itertools.permutations([0, 1, 2, 3, 7], r)]
    for nloc in ((1, 2, 3) if q else (1, 2, 3, 4)):
        rows = list(_rows_distinct(nloc, [0, 1, 2, 3]))
        for nr in ((0, 1, 2) if q else (0, 1, 2, 3)):
            combos = itertools.product(rows, repeat=nr)
            for cols in combos:
                k += 1
                if (q and k % 7) or (not q and nr == 3 and k % 11):
                    continue
                for ri in range(3):
                    chans = reqs[(k * 3 + ri * 17) % len(reqs)]
                    cdt = ['int64', 'int32', 'uint32'][k % 3]
                    cc = [[c if c >= 0 or cdt != 'uint32' else 2 ** 32 - 1 for c in row] for row in cols]
                    yield dict(p=PID, op='from_sparse', nr=nr, nloc=nloc, cols=cc, chans=chans, trailing=(k + ri) % 3,
                               cdtype=cdt, dtype=['float64', 'float32'][k % 2], chkind=['list', 'array', 'uint32', 'int32', 'uint16'][(k + ri) % 5])
    # probe-wide requests against column tables with REPEATED rows (several spikes of the same template): the number of
    # cells, the number of requested channels and the spread of their ids vary independently over orders of magnitude
    for i in range(300 if q else 6000):
        npr = rng.pick([64, 128, 384, 384, 768, 1500, 6000])
        nloc = rng.randrange(1, 13)
        nt = rng.randrange(1, 4)
        tmpl = []
        for _ in range(nt):
            if rng.random() < .6:
                a = rng.randrange(npr - nloc + 1)
                row = list(range(a, a + nloc))
                rng.shuffle(row)
            else:
                row = rng.sample(range(npr), nloc)
            if rng.random() < .25:
                row = [c if rng.random() < .7 else -1 for c in row]
            tmpl.append(row)
        nr = rng.pick([1, 2, 2, 3, 3, 4, 5, 6, 8, 12])
        first = rng.randrange(nt)
        which = [first if rng.random() < .7 else rng.randrange(nt) for _ in range(nr)]
        own = sorted(set(c for t in which for c in tmpl[t] if c >= 0))
        chans = _wide_request(rng, npr, own)
        cdt = rng.pick(['int64', 'int32', 'uint32'])
        cc = [[c if c >= 0 or cdt != 'uint32' else 2 ** 32 - 1 for c in tmpl[t]] for t in which]
        yield dict(p=PID, op='from_sparse', nr=nr, nloc=nloc, cols=cc, chans=chans, trailing=rng.randrange(3), cdtype=cdt,
                   dtype=rng.pick(['float64', 'float32']), chkind=rng.pick(['list', 'array', 'uint32', 'int32', 'uint16']),
                   wide=True)
    # model level (n_pcs, the width of the template-feature store and the number of spikes of the dataset are >= 2: such a
    # dimension of size 1 is squeezed away by the loader and is out of scope, DESIGN.md C04; n_channels_loc of the PC store
    # goes down to 1, which the loader restores; the number of spikes a store LISTS goes down to 1 - "only a listed
    # subset" - and a subset of one spike is a subset)
    for i in range(250 if q else 5000):
        spec = D.random_spec(rng, raw=False, feats=False, tfeats=False, ns=rng.randrange(3, 14))
        ns, nt, nc = len(spec['spike_samples']), len(spec['templates']), spec['n_channels']
        npcs = rng.pick([2, 2, 3, 4])
        dense = rng.random() < .3
        nloc = nc if dense else rng.randrange(1, nc + 1)
        nsf = ns
        if rng.random() < .5:
            keep = sorted(rng.sample(range(ns), 1 if rng.random() < .12 else rng.randrange(2, ns + 1)))
            if rng.random() < .3:
                rng.shuffle(keep)
            spec['pc_feature_spike_ids'] = keep
            spec['dtypes'] = dict(spec.get('dtypes') or {}, pc_feature_spike_ids=rng.pick(['int64', 'int64', 'uint64', 'int32', 'uint32']))
            nsf = len(keep)
        spec['pc_features'] = [[[float((r * nloc + kk + 1) * SCALE + p) for kk in range(nloc)] for p in range(npcs)] for r in range(nsf)]
        if not dense:
            ind = [rng.sample(range(nc), nloc) for _ in range(nt)]
            if rng.random() < .4:
                for row in ind:
                    for j in range(len(row)):
                        if rng.random() < .3:
                            row[j] = -1
            spec['pc_feature_ind'] = ind
        tl = rng.randrange(2, nt + 1)
        nst = ns
        if rng.random() < .5:
            keep = sorted(rng.sample(range(ns), 1 if rng.random() < .12 else rng.randrange(2, ns + 1)))
            if rng.random() < .3:
                rng.shuffle(keep)
            spec['template_feature_spike_ids'] = keep
            spec['dtypes'] = dict(spec.get('dtypes') or {}, template_feature_spike_ids=rng.pick(['int64', 'uint64', 'int32']))
            nst = len(keep)
        spec['template_features'] = [[float(r * tl + kk + 1) for kk in range(tl)] for r in range(nst)]
        if rng.random() < .8 or tl != nt:
            spec['template_feature_ind'] = [rng.sample(range(nt), tl) for _ in range(nt)]
            if rng.random() < .3:
                # rows padded with -1 (anywhere in the row)
                spec['template_feature_ind'] = [[c if rng.random() < .7 else -1 for c in row] for row in spec['template_feature_ind']]
        if i % 3 == 1:
            # float64 stores whose values need double precision
            spec['feature_frac'] = True
            spec['dtypes'] = dict(spec.get('dtypes') or {}, pc_features='float64', template_features='float64')
            spec['pc_features'] = [[[v + FRAC for v in row] for row in blk] for blk in spec['pc_features']]
            spec['template_features'] = [[v + FRAC for v in row] for row in spec['template_features']]
        sids = rng.sample(range(ns), rng.randrange(0 if i % 9 == 0 else 1, min(ns, 6) + 1))
        if sids and 'pc_feature_spike_ids' not in spec and i % 2:
            sids = sids + [sids[0]]            # a repeated request is served at both positions when every spike is stored
        # requested channels: distinct, any order, now and then with channels the probe does not have
        pool = list(range(nc)) + ([nc, nc + 1 + rng.randrange(40)] if rng.random() < .25 else [])
        yield dict(p=PID, op='features', spec=spec, spike_ids=sids, npcs_pow2=True,
                   chans=rng.sample(pool, rng.randrange(1, len(pool) + 1)), chkind=rng.pick(['list', 'array', 'uint32', 'int32', 'uint64']),
                   sidkind=rng.pick(['int64', 'int64', 'list', 'uint64', 'int32', 'uint32']))
        sids2 = rng.sample(range(ns), rng.randrange(1, min(ns, 6) + 1))
        if 'template_feature_spike_ids' not in spec and i % 2:
            sids2 = [sids2[-1]] + sids2
        yield dict(p=PID, op='tfeatures', spec=spec, spike_ids=sids2, sidkind=rng.pick(['int64', 'list', 'uint64', 'uint32']))
    # wide probes through get_features: few spikes, several of one template, requests spread over the whole probe
    for i in range(20 if q else 400):
        npr = rng.pick([96, 384, 384, 768])
        spec = D.random_spec(rng, raw=False, feats=False, tfeats=False, ns=rng.randrange(4, 14), nc=npr, nsw=2,
                             whiten=False, shanks=False)
        ns, nt = len(spec['spike_samples']), len(spec['templates'])
        st = D.expanded(spec)['spike_templates']
        npcs, nloc = 2, rng.randrange(2, 13)
        nsf = ns
        if i % 2:
            keep = sorted(rng.sample(range(ns), rng.randrange(3, ns + 1)))
            spec['pc_feature_spike_ids'] = keep
            nsf = len(keep)
        spec['pc_features'] = [[[float((r * nloc + kk + 1) * SCALE + p) for kk in range(nloc)] for p in range(npcs)] for r in range(nsf)]
        ind = []
        for _ in range(nt):
            a = rng.randrange(npr - nloc + 1)
            row = list(range(a, a + nloc))
            rng.shuffle(row)
            ind.append(row)
        spec['pc_feature_ind'] = ind
        # 1..8 spikes, most of them of one template
        t0 = st[rng.randrange(ns)]
        same = [s_ for s_ in range(ns) if st[s_] == t0]
        sids = rng.sample(same, rng.randrange(1, min(len(same), 8) + 1))
        if rng.random() < .4:
            sids = sids + rng.sample([s_ for s_ in range(ns) if s_ not in sids] or sids, 1)
            sids = list(dict.fromkeys(sids))
        if rng.random() < .5:
            rng.shuffle(sids)
        yield dict(p=PID, op='features', spec=spec, spike_ids=sids, npcs_pow2=True, chans=_wide_request(rng, npr, sorted(ind[t0])),
                   chkind=rng.pick(['list', 'array', 'uint32', 'int32', 'uint64']),
                   sidkind=rng.pick(['int64', 'int64', 'list', 'uint64', 'int32', 'uint32']), wide=True)
    # many spikes, few stored rows with large spike ids, requests in arbitrary order: the id lookups
    # (index in the row table) run in their sparse regime
    for i in range(4 if q else 60):
        spec = D.random_spec(rng, raw=False, feats=False, tfeats=False, ns=rng.randrange(3, 8))
        ns0, nt, nc = len(spec['spike_samples']), len(spec['templates']), spec['n_channels']
        N = rng.pick([60000, 70000, 150000])
        spec['pad_spikes'] = N
        npcs, nloc = 2, rng.randrange(2, nc + 1)
        keep = sorted(set(rng.sample(range(N), rng.randrange(3, 40)) + [N - 1 - rng.randrange(3)]))
        if i % 2:
            rng.shuffle(keep)
        spec['pc_feature_spike_ids'] = keep
        spec['pc_features'] = [[[float((r * nloc + kk + 1) * SCALE + p) for kk in range(nloc)] for p in range(npcs)] for r in range(len(keep))]
        spec['pc_feature_ind'] = [rng.sample(range(nc), nloc) for _ in range(nt)]
        tl = rng.randrange(2, nt + 1)
        keep2 = sorted(rng.sample(range(N), rng.randrange(3, 40)))
        spec['template_feature_spike_ids'] = keep2
        spec['template_features'] = [[float(r * tl + kk + 1) for kk in range(tl)] for r in range(len(keep2))]
        spec['template_feature_ind'] = [rng.sample(range(nt), tl) for _ in range(nt)]
        sids = rng.sample(keep, rng.randrange(1, min(len(keep), 6) + 1))
        yield dict(p=PID, op='features', spec=spec, spike_ids=sids, npcs_pow2=True,
                   chans=rng.sample(range(nc), rng.randrange(1, nc + 1)), chkind=rng.pick(['list', 'array', 'uint32', 'int32', 'uint64']),
                   sidkind=rng.pick(['int64', 'int64', 'list', 'uint64', 'int32', 'uint32']))
        yield dict(p=PID, op='tfeatures', spec=spec, spike_ids=rng.sample(keep2, rng.randrange(1, min(len(keep2), 6) + 1)))
    # one request for MORE THAN 10000 stored spikes (the size at which loaders switch to batched reads), on a store that
    # holds a subset of the spikes, with unstored spikes in between and in arbitrary order
    for i in range(1 if q else 4):
        spec = D.random_spec(rng, raw=False, feats=False, tfeats=False, ns=rng.randrange(3, 8))
        nt, nc = len(spec['templates']), spec['n_channels']
        N = 30000
        spec['pad_spikes'] = N
        npcs, nloc = 2, 2
        keep = sorted(rng.sample(range(N), 12000 + 500 * i))
        spec['pc_feature_spike_ids'] = keep
        spec['pc_features'] = [[[float((r * nloc + kk + 1) * SCALE + p) for kk in range(nloc)] for p in range(npcs)] for r in range(len(keep))]
        spec['pc_feature_ind'] = [rng.sample(range(nc), nloc) for _ in range(nt)]
        ks = set(keep)
        sids = rng.sample(keep, 10500 + 300 * i) + rng.sample([x for x in range(N) if x not in ks], 2000)
        rng.shuffle(sids)
        yield dict(p=PID, op='features', spec=spec, spike_ids=sids, npcs_pow2=True, chans=rng.sample(range(nc), 2),
                   chkind='array', sidkind='int64', big=True)
    # PCA route
    for i in range(15 if q else 200):
        spec = D.random_spec(rng, raw=True, feats=False, tfeats=False, ns=rng.randrange(6, 14), nsw=rng.randrange(3, 6))
        nc = spec['n_channels']
        ns = len(spec['spike_samples'])
        sids_p = rng.sample(range(ns), rng.randrange(1, ns + 1))
        if i % 2:
            sids_p = sorted(sids_p)
        case = dict(p=PID, op='pca', spec=spec, spike_ids=sids_p,
                    chans=(sorted if i % 4 < 2 else list)(rng.sample(range(nc), rng.randrange(1, nc + 1))), nst=rng.randrange(1, 4),
                    nc=rng.pick([nc, nc, max(1, nc - 1), max(1, nc // 2)]))
        if i % 3:
            case['store_edit'] = rng.randrange(1, 10 ** 6)
        if i % 6 == 4:
            # none of the requested spikes has a stored waveform
            case['spike_ids'] = case['spike_ids'][:rng.randrange(1, 4)]
            case['store_drop_requested'] = True
        yield case
