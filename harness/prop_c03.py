"""C03 — every route to a spike waveform yields the same zero-padded raw window (DESIGN.md §5 C03)."""
import itertools
from fractions import Fraction
import numpy as np
from . import common as C
from . import dataset as D

PID = 'C03'
IMPL_KEYS = ('ivs', 'sel', 'orders', 'closest')     # values observed on the REAL code, sent to the driver (see check: evaluate)
PARALLEL = True
BATCH = 800
BUDGET_S = {'quick': 80, 'thorough': 1200}
RULE = ('recordings of length 1..L (incl. shorter than the window) x 1..4 channels x int16/float32/float64 '
        'x in-memory / flat 1..3 files / cbin x every chunk size; sorted spike vectors of '
        'int32/int64/uint32/uint64 incl. spikes at 0, at the last sample, within n//2 of both ends and on '
        'every chunk/file boundary; windows 1..9 (odd and even); channel rows with and without -1, as '
        'arrays and as Python lists; unit factors 1, 2, 1.0, 0.5, 2.5; store queries in any order; '
        'TemplateModel.get_waveforms on generated datasets. Also: file names not in sorted order, exports over an earlier export / foreign bytes, window length as a NumPy integer, non-finite samples on a channel reached only through -1, the subset store exported again (same model / a model opened on the earlier store). '
        'non-trivial = at least one spike whose window '
        'crosses an edge or a chunk boundary, or >= 2 spikes')
ASSUMPTIONS = ['.npy byte layout and np.load are transport', 'factor multiplication is exact on the generated values',
               'subset store (op model_store): the spike selection (random, C17) and the per-template channel order '
               '(get_template().channel_ids, C05) are observed on the real model and given to the Lean model of '
               'save_spikes_subset_waveforms; stores holding fewer than 2 spikes are skipped (see report)']


def _A(dur, nch, dtype, bias=0):
    return (np.arange(dur * nch).reshape((dur, nch)) + 1 + bias).astype(dtype)


def window(ids, s, n, ch):
    dur = ids.shape[0]
    out = np.zeros((n, len(ch)), dtype=np.int64)
    for i in range(n):
        r = s - n // 2 + i
        if 0 <= r < dur:
            for j, c in enumerate(ch):
                if c != -1:
                    out[i, j] = ids[r, c]
    return out


def _reader(case, d, A):
    from phylib.io.traces import get_ephys_reader
    b = case['backend']
    sr = case.get('cs', 600) / 600.
    if b == 'array':
        return get_ephys_reader(A.copy(), sample_rate=sr), None
    if b == 'flat':
        paths, off = [], 0
        for i, l in enumerate(case['parts']):
            # file names whose sorted order is not the order in which the files are given
            p = d / {'rev': 'f%02d.bin' % (50 - i), 'nat': 'seg_%d.bin' % (9 + i)}.get(case.get('names'), 'f%d.bin' % i)
            A[off:off + l].tofile(p)
            off += l
            paths.append(p)
        return get_ephys_reader(paths, sample_rate=sr, dtype=A.dtype, n_channels=A.shape[1]), None
    import mtscomp
    A.tofile(d / 'a.bin')
    mtscomp.compress(d / 'a.bin', d / 'a.cbin', d / 'a.ch', sample_rate=10., n_channels=A.shape[1],
                     dtype=A.dtype, chunk_duration=case.get('cs', 10) / 10., n_threads=1,
                     check_after_compress=False, quiet=True)
    rd = mtscomp.Reader(n_threads=case.get('bs', 1))
    rd.open(d / 'a.cbin', d / 'a.ch')
    return get_ephys_reader(rd), rd


def impl(case):
    from phylib.io import traces as T
    from phylib.utils import Bunch
    op = case['op']
    if op == 'model_store':
        with C.scratch_dir() as d:
            m = D.load(D.write_dataset(d, case['spec']))
            try:
                pr = case.get('prior')
                if pr:
                    # an EARLIER export of the store with another selection / width / factor; with `reopen` the model is
                    # closed and opened again on the directory that now holds that store, then exports again
                    np.random.seed(pr['rs'])
                    m.save_spikes_subset_waveforms(max_n_spikes_per_template=pr['nst'], max_n_channels=pr['nc'],
                                                   sample2unit=pr['factor'])
                    if pr.get('reopen'):
                        m.close()
                        m = D.load(d / 'params.py')
                np.random.seed(case.get('rs', 0))
                m.save_spikes_subset_waveforms(max_n_spikes_per_template=case['nst'], max_n_channels=case['nc'],
                                               sample2unit=case.get('factor', 1.))
                sw = m.spike_waveforms
                if sw is None or np.ndim(sw.spike_ids) == 0 or len(sw.spike_ids) < 1:
                    return dict(skip=True)
                out = m.get_waveforms(np.array(case['spike_ids'], dtype=np.int64), list(case['ch']))
                used = sorted(int(t) for t in np.unique(m.spike_templates))
                res = dict(vals=np.asarray(out, dtype=np.float64).tolist(), shape=list(out.shape),
                           store_ids=[int(x) for x in sw.spike_ids],
                           store_channels=np.asarray(sw.spike_channels).astype(np.int64).tolist(),
                           orders={str(t): [int(c) for c in m.get_template(t).channel_ids] for t in used},
                           closest=int(m.n_closest_channels), n_templates=int(m.n_templates),
                           ivs=[[int(a), int(b)] for a, b in m.traces.iter_chunks()])
            finally:
                m.close()
        return res
    if op == 'model':
        with C.scratch_dir() as d:
            m = D.load(D.write_dataset(d, case['spec']))
            try:
                out = m.get_waveforms(np.array(case['spike_ids'], dtype=np.int64),
                                      np.array(case['ch']) if case.get('chkind') == 'array' else list(case['ch']))
                res = dict(vals=np.asarray(out).astype(np.int64).tolist(), shape=list(out.shape))
            finally:
                m.close()
        return res
    dur, nch, n = case['dur'], case['nch'], case['n']
    A = _A(dur, nch, case['dtype'], case.get('bias', 0))
    if case.get('nanlast') and A.dtype.kind == 'f':
        # non-finite samples (blanked artefacts, saturation) on the LAST channel, which no channel list of the case
        # names: it is only touched through -1 entries, which must come out as zeros
        A[0::3, -1] = np.nan
        A[1::3, -1] = np.inf
        A[2::3, -1] = -np.inf
    spikes = np.array(case['spikes'], dtype=case.get('sdtype', 'int64'))
    with C.scratch_dir() as d:
        rd = None
        if op == 'extract' and case['backend'] == 'ndarray':
            traces = A
        else:
            traces, rd = _reader(case, d, A)
        try:
            if op == 'extract':
                ch = np.array(case['ch'], dtype=np.int64) if case.get('chkind') == 'array' else list(case['ch'])
                out = T.extract_waveforms(traces, spikes, ch, n_samples_waveforms=n)
                return dict(vals=np.asarray(out).astype(np.int64).tolist(), shape=list(out.shape),
                            dtype=str(out.dtype),
                            args_changed=bool(list(ch) != list(case['ch']) or spikes.tolist() != list(case['spikes'])))
            chans = np.array(case['chans'], dtype=np.int64).reshape((len(spikes), case['nloc']))
            path = d / 'w.npy'
            prev = case.get('prev')
            if prev == 'export':
                # the destination already holds an EARLIER export (other spikes, other factor): the new export
                # replaces it
                k = max(1, len(spikes) // 2)
                T.export_waveforms(path, traces, spikes[:k], chans[:k][:, ::-1], n_samples_waveforms=n,
                                   sample2unit=3., cache=False)
            elif prev == 'bytes':
                path.write_bytes(b'not an array file at all ' * 40)
            T.export_waveforms(path, traces, spikes, chans if case.get('chkind') == 'array' else chans.tolist(),
                               n_samples_waveforms=(np.int64(n) if case.get('nkind') == 'np' else n),     # window length as a NumPy integer
                               sample2unit=case['factor'], cache=bool(case.get('cache')))
            arr = np.load(path)
            res = dict(shape=list(arr.shape), dtype=str(arr.dtype), vals=arr.tolist(),
                       ivs=[[int(a), int(b)] for a, b in traces.iter_chunks()],
                       args_changed=bool(chans.ravel().tolist() != np.array(case['chans']).ravel().tolist() or
                                         spikes.tolist() != list(case['spikes'])))
            if op == 'lookup':
                st = Bunch(spike_ids=np.array(case['ids'], dtype=np.int64), spike_channels=chans.astype(np.int32),
                           waveforms=arr)
                out = T.get_spike_waveforms(np.array(case['query'], dtype=np.int64), case['chq'],
                                            spike_waveforms=st, n_samples_waveforms=n)
                res = dict(vals=out.tolist(), shape=list(out.shape), ivs=res['ivs'], dtype=str(out.dtype),
                           args_changed=res['args_changed'])
            return res
        finally:
            del traces
            if rd is not None:
                rd.close()


def _spec_raw(case):
    spec = case['spec']
    raw = np.array([row for part in spec['raw'] for row in part])
    return raw


def _frac(x):
    f = Fraction(x)
    return f.numerator if f.denominator == 1 else [f.numerator, f.denominator]


def _cells(arr3):
    """driver array of rationals (spikes x rows x channels) -> nested floats; the innermost lists are rows of
    cells, a cell being an int or a [num, den] pair"""
    return [[[float(Fraction(c[0], c[1])) if isinstance(c, list) else float(c) for c in row] for row in w]
            for w in arr3]


def model_query(case, impl_res):
    op = case['op']
    if op == 'model_store':
        spec = case['spec']
        raw = _spec_raw(case)
        cm = spec['channel_map']
        ok = impl_res.get('ok') or {}
        if ok.get('skip') or 'ok' not in impl_res:
            return dict(p=PID, op='extract', dur=raw.shape[0], nch=raw.shape[1], n=len(spec['templates'][0]),
                        spikes=[spec['spike_samples'][i] for i in case['spike_ids']],
                        ch=[cm[c] if c != -1 else -1 for c in case['ch']])
        nt = ok['n_templates']
        # channels are renamed by the (injective) channel map: the Lean recording is the raw file
        orders = [[cm[c] for c in ok['orders'].get(str(t), [])] for t in range(nt)]
        return dict(p=PID, op='subset', dur=raw.shape[0], nch=raw.shape[1], n=len(spec['templates'][0]),
                    spike_samples=spec['spike_samples'], spike_templates=spec['spike_templates'], orders=orders,
                    sel=ok['store_ids'], max_n=case['nc'], closest=ok['closest'], query=case['spike_ids'],
                    chq=[cm[c] for c in case['ch']], ivs=ok['ivs'], factor=_frac(case.get('factor', 1.)))
    if op == 'model':
        spec = case['spec']
        raw = _spec_raw(case)
        cm = spec['channel_map']
        return dict(p=PID, op='extract', dur=raw.shape[0], nch=raw.shape[1], n=len(spec['templates'][0]),
                    spikes=[spec['spike_samples'][i] for i in case['spike_ids']],
                    ch=[cm[c] if c != -1 else -1 for c in case['ch']])
    q = dict(p=PID, op=op, dur=case['dur'], nch=case['nch'], n=case['n'])
    if op == 'extract':
        q.update(spikes=case['spikes'], ch=case['ch'])
        return q
    ivs = impl_res['ok']['ivs'] if 'ok' in impl_res else [[0, case['dur']]]
    q.update(nloc=case['nloc'], ivs=ivs, factor=_frac(case['factor']), bias=case.get('bias', 0))
    if op == 'export':
        q.update(spikes=case['spikes'], chans=case['chans'])
    else:
        q.update(ids=case['ids'], samples=case['spikes'], chans=case['chans'], query=case['query'], chq=case['chq'])
    return q


def oracle(case):
    """independent Python rendering of the UNSCALED zero-padded window (direct-extraction routes); the routes that
    multiply by the unit factor are judged against the Lean specification only (the driver multiplies, exactly)"""
    op = case['op']
    if op == 'model':
        spec = case['spec']
        raw = _spec_raw(case)[:, spec['channel_map']]
        n = len(spec['templates'][0])
        return [window(raw, spec['spike_samples'][i], n, case['ch']).tolist() for i in case['spike_ids']]
    ids = _A(case['dur'], case['nch'], 'int64')
    return [window(ids, s, case['n'], case['ch']).tolist() for s in case['spikes']]


def judge(case, impl_res, ans):
    if 'err' in ans:
        return 'MACHINERY: driver error %s' % ans['err']
    m = ans['ok']
    op = case['op']
    if op == 'model_store':
        return _judge_store(case, impl_res, m)
    if m['model'] is None:
        return 'MACHINERY: Lean model raises on an in-domain case'
    if m.get('tile', True) and m['model'] != m['spec']:
        return 'MACHINERY: Lean model differs from its spec (contradicts the theorem)'
    if op in ('extract', 'model'):
        exp = oracle(case)
        if m['spec'] != exp and len(exp):
            return 'MACHINERY: Lean spec differs from the python oracle'
    else:
        exp = _cells(m['spec'])
    if 'raised' in impl_res:
        return 'SPEC: real code raised %s (%s) at %s on an in-domain input' % (
            impl_res['raised'], impl_res['msg'], impl_res['where'])
    ok = impl_res['ok']
    if op == 'export':
        if ok['shape'] != [len(case['spikes']), case['n'], case['nloc']]:
            return 'SPEC: exported file loads with shape %s' % ok['shape']
        if ok['dtype'] != 'float64':
            return 'CORR: exported dtype %s' % ok['dtype']
    if np.array(ok['vals'], dtype=np.float64).tolist() != np.array(exp, dtype=np.float64).tolist():
        return 'SPEC: %s route differs from the zero-padded raw window%s' % (
            op, ' times the unit factor' if op in ('export', 'lookup') else '')
    if ok.get('args_changed'):
        return 'SPEC: %s modified the spike / channel arrays passed by the caller' % op
    if op == 'extract' and ok['dtype'] != case['dtype']:
        return 'CORR: extract_waveforms dtype %s' % ok['dtype']
    if op == 'lookup' and ok['dtype'] != 'float64':
        return 'CORR: get_spike_waveforms dtype %s' % ok['dtype']
    return None


def _judge_store(case, impl_res, m):
    """TemplateModel: save_spikes_subset_waveforms -> get_waveforms against the Lean model of the same"""
    if 'raised' in impl_res:
        return 'SPEC: real code raised %s (%s) at %s on an in-domain input' % (
            impl_res['raised'], impl_res['msg'], impl_res['where'])
    ok = impl_res['ok']
    if ok.get('skip'):
        return None
    sel = ok['store_ids']
    in_hyp = m['tile'] and all(a < b for a, b in zip(sel, sel[1:]))
    if in_hyp and not m['loads']:
        return 'MACHINERY: the Lean subset files do not load (contradicts subset_loads)'
    if in_hyp and m['model'] != m['spec']:
        return 'MACHINERY: Lean model differs from its spec (contradicts subset_store_eq_raw / getWaveforms_unstored)'
    cm = case['spec']['channel_map']
    real_rows = [[cm[c] if c != -1 else -1 for c in row] for row in ok['store_channels']]
    if real_rows != m['store_channels']:
        return 'SPEC: the subset store does not hold the best channels of each spike\'s template (%s, model %s)' % (
            real_rows, m['store_channels'])
    got = np.array(ok['vals'], dtype=np.float64)
    spec = np.array(_cells(m['spec']), dtype=np.float64)
    if got.shape != spec.shape:
        return 'SPEC: get_waveforms (store present) returned shape %s' % (list(got.shape),)
    stored = {sid: row for sid, row in zip(sel, ok['store_channels'])}
    if m['all_stored']:
        # store route: claimed on the channels the store holds for that spike
        for i, q in enumerate(case['spike_ids']):
            for j, c in enumerate(case['ch']):
                if c in stored[q] and not np.array_equal(got[i, :, j], spec[i, :, j]):
                    return 'SPEC: store lookup differs from the unit factor times the raw window (spike %d, channel %d)' % (q, c)
    elif not np.array_equal(got, spec):      # some spike is not in the store: raw data must be used
        return 'SPEC: get_waveforms for a spike outside the subset store differs from the raw window'
    model = np.array(_cells(m['model']), dtype=np.float64)
    if not np.array_equal(got, model):
        return 'CORR: get_waveforms differs from the Lean model on a channel the store does not hold'
    return None


def nontrivial(case):
    if case['op'] in ('model', 'model_store'):
        return len(case['spike_ids']) >= 1
    return len(case['spikes']) >= 2 or any(s < case['n'] // 2 or s + case['n'] - case['n'] // 2 > case['dur'] for s in case['spikes'])


def tally(rep, case, impl_res, ans):
    if case['op'] in ('export', 'lookup'):
        rep.count('export_cache:%s' % bool(case.get('cache')))
        rep.count('window_length_given_as:%s' % ('numpy integer' if case.get('nkind') == 'np' else 'int'))
        rep.count('destination_before_the_export:%s' % {'export': 'an earlier export', 'bytes': 'foreign bytes'}.get(case.get('prev'), 'absent'))
    rep.count('op:' + case['op'])
    if case['op'] == 'model_store':
        pr = case.get('prior')
        rep.count('subset_store:%s' % ('first export' if not pr else 'exported again on the same model' if not pr.get('reopen')
                                        else 'exported again by a model opened on the earlier store'))
    if case['op'] in ('model', 'model_store'):
        if case['op'] == 'model_store' and 'ok' in impl_res and not impl_res['ok'].get('skip'):
            st = set(impl_res['ok']['store_ids'])
            rep.count('store_request:%s' % ('all_stored' if all(q in st for q in case['spike_ids']) else 'some_unstored'))
        return
    rep.count('backend:' + case['backend'] + ('(file names not in sorted order)' if case.get('names') in ('rev', 'nat') and len(case.get('parts', [])) > 1 else ''))
    if case.get('nanlast'):
        rep.count('non-finite samples on a channel reached only through -1')
    rep.count('sdtype:' + case.get('sdtype', 'int64'))
    rep.count('dtype:' + case['dtype'])
    rep.count('window:%s' % ('odd' if case['n'] % 2 else 'even'))
    if case['n'] > case['dur']:
        rep.count('window_longer_than_recording')
    chs = case.get('ch') or [c for row in case.get('chans', []) for c in row]
    if -1 in chs:
        rep.count('has_-1_channel(%s)' % case.get('chkind', 'list'))
    if any(s < case['n'] // 2 for s in case['spikes']):
        rep.count('spike_near_start')
    if any(s + case['n'] - case['n'] // 2 > case['dur'] for s in case['spikes']):
        rep.count('spike_near_end')


def classify(case, impl_res, ans, why):
    d = dict(op=case['op'], kind=why.split(':')[0], raised=impl_res.get('raised'), where=impl_res.get('where'))
    if case['op'] not in ('model', 'model_store'):
        chs = case.get('ch') or [c for row in case.get('chans', []) for c in row]
        d.update(unsigned=case.get('sdtype', 'int64').startswith('u'), neg1=(-1 in chs), chkind=case.get('chkind', 'list'),
                 short=case['n'] > case['dur'] if 'dur' in case else None,
                 both_edges=any(s < case['n'] // 2 and s + case['n'] - case['n'] // 2 > case['dur'] for s in case['spikes']))
        if case['op'] in ('export', 'lookup'):
            d.update(dtype=case['dtype'], factor_type=type(case['factor']).__name__, bias=bool(case.get('bias')))
    return d


def shrink(case):
    if case['op'] in ('model', 'model_store'):
        if len(case['spike_ids']) > 1:
            for i in range(len(case['spike_ids'])):
                c = dict(case); c['spike_ids'] = case['spike_ids'][:i] + case['spike_ids'][i + 1:]
                yield c
        return
    ns = len(case['spikes'])
    if ns > 1:
        for i in range(ns):
            c = dict(case)
            c['spikes'] = case['spikes'][:i] + case['spikes'][i + 1:]
            if 'chans' in case:
                c['chans'] = case['chans'][:i] + case['chans'][i + 1:]
            if 'ids' in case:
                if case['ids'][i] in case['query']:
                    continue
                c['ids'] = case['ids'][:i] + case['ids'][i + 1:]
            yield c
    if case.get('sdtype', 'int64') != 'int64':
        c = dict(case); c['sdtype'] = 'int64'; yield c
    if case['backend'] not in ('array', 'ndarray'):
        c = dict(case); c['backend'] = 'array'; yield c
    if case['dtype'] != 'int16' and not case.get('bias'):
        c = dict(case); c['dtype'] = 'int16'; yield c
    if case['op'] != 'extract' and case['factor'] != 1:
        c = dict(case); c['factor'] = 1; yield c
    if case['n'] > 1:
        c = dict(case); c['n'] = case['n'] - 1; yield c
    if case['op'] == 'lookup' and len(case['query']) > 1:
        for i in range(len(case['query'])):
            c = dict(case); c['query'] = case['query'][:i] + case['query'][i + 1:]; yield c


def _backend(rng, dur, dtype, k):
    b = ['array', 'flat', 'flat', 'cbin'][k % 4] if dtype == 'int16' else ['array', 'flat'][k % 2]
    d = dict(backend=b, cs=rng.randrange(1, dur + 2))
    if b == 'flat':
        nparts = min(dur, 1 + k % 3)
        cuts = sorted(rng.sample(range(1, dur), nparts - 1)) if nparts > 1 else []
        bounds = [0] + cuts + [dur]
        d['parts'] = [b_ - a_ for a_, b_ in zip(bounds, bounds[1:])]
        d['names'] = ['idx', 'rev', 'nat'][(k // 3) % 3]
    if b == 'cbin':
        d['bs'] = 1 + k % 3
    if int(round(600.0 * (d['cs'] / 600.))) != d['cs']:
        d['cs'] = 5
    return d


def gen(tier, rng):
    q = tier == 'quick'
    L = 7 if q else 12
    W = 6 if q else 9
    k = 0
    sdts = ['int64', 'int32', 'uint32', 'uint64']
    dts = ['int16', 'float32', 'float64']
    # 1. direct extraction: every spike position x window x channel forms
    for dur in range(1, L + 1):
        for n in range(1, W + 1):
            k += 1
            nch = 1 + k % 4
            chs = [list(range(nch)), [nch - 1, -1, 0], [-1], list(range(nch))[::-1] + [-1, -1]]
            for ci, ch in enumerate(chs):
                k += 1
                c = dict(p=PID, op='extract', dur=dur, nch=nch, n=n, spikes=list(range(dur)), ch=ch,
                         chkind=['array', 'list'][k % 2], sdtype=sdts[k % 4], dtype=dts[k % 3])
                c.update(_backend(rng, dur, c['dtype'], k))
                if k % 3 == 0:
                    c['backend'] = 'ndarray'
                if c['dtype'] != 'int16' and nch >= 2 and -1 in ch and k % 2:
                    c['nanlast'] = True
                    c['ch'] = [-1 if x == nch - 1 else x for x in ch]
                yield c
    # 2. export + lookup: sorted spike vectors incl. ties and all boundaries
    for _ in range(3000 if q else 30000):
        k += 1
        dur = rng.randrange(1, 30)
        nch = rng.randrange(1, 5)
        n = rng.randrange(1, 10)
        dtype = dts[k % 3]
        be = _backend(rng, dur, dtype, k)
        ns = rng.randrange(1, 9)
        interesting = [0, dur - 1, n // 2, max(0, dur - 1 - n // 2)]
        if be['backend'] == 'flat':
            acc = 0
            for l in be['parts']:
                acc += l
                interesting += [acc - 1, min(acc, dur - 1)]
        interesting += [min(dur - 1, j) for j in range(0, dur, max(1, be['cs']))]
        interesting = [min(dur - 1, max(0, x)) for x in interesting]
        spikes = sorted(rng.pick([rng.randrange(dur), rng.pick(interesting)]) for _ in range(ns))
        nloc = rng.randrange(1, 5)
        chans = []
        for _ in range(ns):
            row = rng.sample(range(nch), min(nch, nloc))
            row += [-1] * (nloc - len(row))
            if rng.random() < .3:
                row[rng.randrange(nloc)] = -1
            chans.append(row)
        c = dict(p=PID, op='export' if k % 2 else 'lookup', dur=dur, nch=nch, n=n, spikes=spikes, chans=chans,
                 nloc=nloc, sdtype=sdts[k % 4], dtype=dtype, factor=[1, 2, 1.0, 0.5, 2.5][k % 5],
                 chkind=['array', 'list'][(k // 2) % 2], cache=bool((k // 3) % 2))
        c.update(be)
        if dtype != 'int16' and nch >= 2 and k % 4 == 3:
            # non-finite samples on the last channel; channel lists name it only through -1
            c['nanlast'] = True
            c['chans'] = [[-1 if x == nch - 1 else x for x in row] for row in chans]
        c['prev'] = ['none', 'export', 'none', 'bytes', 'export'][k % 5 if k % 7 else 1]
        if k % 6 == 2:
            c['nkind'] = 'np'
        if dtype == 'int16' and k % 4 == 0:
            c['bias'] = 20000        # products with an int factor exceed the int16 range
        if dtype == 'float32' and k % 4 == 1:
            c['bias'] = 16777000     # near 2**24: a float32 product would round
        if c['op'] == 'lookup':
            c['ids'] = sorted(rng.sample(range(200), ns))
            if rng.random() < .4:
                rng.shuffle(c['ids'])      # a store whose rows are not in increasing spike-id order
            qn = rng.randrange(1, ns + 1)
            c['query'] = [rng.pick(c['ids']) for _ in range(qn)]
            c['chq'] = rng.sample(range(nch + 2), rng.randrange(1, nch + 2))
        yield c
    # 3. TemplateModel.get_waveforms (raw-data route) on generated datasets
    for _ in range(150 if q else 1500):
        spec = D.random_spec(rng, raw=True, feats=False, tfeats=False)
        ncd = spec['n_channels_dat']
        off = 0
        raw = []
        for part in spec['raw']:
            raw.append([[(off + r) * ncd + c + 1 for c in range(ncd)] for r in range(len(part))])
            off += len(part)
        spec['raw'] = raw
        spec['spike_samples'] = sorted(rng.randrange(0, off) for _ in spec['spike_samples'])
        ns = len(spec['spike_samples'])
        nc = spec['n_channels']
        yield dict(p=PID, op='model', spec=spec, spike_ids=[rng.randrange(ns) for _ in range(rng.randrange(1, 5))],
                   ch=rng.sample(range(nc), rng.randrange(1, nc + 1)) + ([-1] if rng.random() < .3 else []),
                   chkind=rng.pick(['array', 'list']))
        if ns >= 4:
            yield dict(p=PID, op='model_store', spec=spec, nst=rng.randrange(1, 3), nc=rng.pick([nc, nc, 0, 1, 14]),
                       rs=rng.randrange(1000), factor=rng.pick([1., 1., 2., 0.5, 2]),
                       spike_ids=sorted(rng.sample(range(ns), rng.randrange(1, 4))),
                       ch=rng.sample(range(nc), rng.randrange(1, nc + 1)),
                       prior=rng.pick([None, None, dict(nst=rng.randrange(1, 4), nc=rng.pick([nc, 0, 2]), rs=rng.randrange(1000),
                                                        factor=rng.pick([1., 3.]), reopen=rng.random() < .7)]))
