"""C03 — every route to a spike waveform yields the same zero-padded raw window (DESIGN.md §5 C03)."""
import itertools
from fractions import Fraction
import numpy as np
from . import common as C
from . import dataset as D

PID = 'C03'
IMPL_KEYS = ('ivs', 'sel', 'orders', 'closest')     # values observed on the REAL code, sent to the driver (see check: evaluate)
PARALLEL = True
BATCH = 800
BUDGET_S = {'quick': 80, 'thorough': 1200}
RULE = ('recordings of length 1..L (incl. shorter than the window) x 1..4 channels x int16/float32/float64 '
        'x in-memory / flat 1..3 files / cbin x every chunk size, also read through a column-selected derived reader '
        '(what TemplateModel.traces is); spike vectors of int32/int64/uint32/uint64 incl. spikes at 0, at the last '
        'sample, within n//2 of both ends and on every chunk/file boundary; windows 1..9 (odd and even) given as a '
        'Python int and as a NumPy integer of every signed / unsigned width; channel rows with and without -1, as '
        'Python lists, tuples and arrays of every integer dtype (unsigned: rows without -1); unit factors 1, 2, 1.0, '
        '0.5, 2.5; store queries in any order, spike ids and query channels of every integer dtype / container; '
        'TemplateModel.get_waveforms (raw route and subset-store route, queries in any order with repeats) on '
        'generated datasets whose channel map selects and permutes a subset of the file\'s channels. Also: file '
        'names not in sorted order, exports over an earlier export / foreign bytes, non-finite samples on a channel '
        'reached only through -1, the subset store exported again (same model / a model opened on the earlier store). '
        'non-trivial = at least one spike whose window '
        'crosses an edge or a chunk boundary, or >= 2 spikes')
ASSUMPTIONS = ['.npy byte layout and np.load are transport', 'factor multiplication is exact on the generated values',
               'subset store (op model_store): the spike selection (random, C17) and the per-template channel order '
               '(get_template().channel_ids, C05) are observed on the real model and given to the Lean model of '
               'save_spikes_subset_waveforms; a store that is not loaded after the export is a violation (subset_loads), '
               'a loaded store without any spike is not judged']
INT_KINDS = ['int8', 'int16', 'int32', 'int64', 'uint8', 'uint16', 'uint32', 'uint64']


def _win(case):
    """the window length in the form the caller gives it: a Python int or a NumPy integer of the named type
    ('np': int64, the form of the earlier corpus cases)"""
    k = case.get('nkind', 'int')
    if k == 'int':
        return int(case['n'])
    return np.dtype('int64' if k == 'np' else k).type(case['n'])


def _ints(vals, kind):
    """integer ids (channels, spike ids) in the container / integer type named by `kind`: 'list', 'tuple', 'array'
    (int64) or a NumPy integer dtype. An unsigned type cannot hold -1: the signed type of the same width is used
    then (generators only ask for unsigned types on rows without -1; the harness itself must never raise)."""
    if kind in (None, 'list'):
        return [list(v) if isinstance(v, (list, tuple)) else int(v) for v in vals]
    if kind == 'tuple':
        return tuple(tuple(v) if isinstance(v, (list, tuple)) else int(v) for v in vals)
    if kind == 'array':
        kind = 'int64'
    a = np.array(vals, dtype=np.int64)
    if kind.startswith('u') and a.size and a.min() < 0:
        kind = kind[1:]
    return a.astype(kind)


def _same_ids(arg, vals):
    """the caller-owned argument still holds the values it was built from"""
    return np.array_equal(np.asarray(arg, dtype=np.int64).reshape(-1), np.asarray(vals, dtype=np.int64).reshape(-1))


def _A(dur, nch, dtype, bias=0):
    return (np.arange(dur * nch).reshape((dur, nch)) + 1 + bias).astype(dtype)


def window(ids, s, n, ch):
    dur = ids.shape[0]
    out = np.zeros((n, len(ch)), dtype=np.int64)
    for i in range(n):
        r = s - n // 2 + i
        if 0 <= r < dur:
            for j, c in enumerate(ch):
                if c != -1:
                    out[i, j] = ids[r, c]
    return out


def _reader(case, d, A):
    from phylib.io.traces import get_ephys_reader
    b = case['backend']
    sr = case.get('cs', 600) / 600.
    if b == 'array':
        return get_ephys_reader(A.copy(), sample_rate=sr), None
    if b == 'flat':
        paths, off = [], 0
        for i, l in enumerate(case['parts']):
            # file names whose sorted order is not the order in which the files are given
            p = d / {'rev': 'f%02d.bin' % (50 - i), 'nat': 'seg_%d.bin' % (9 + i)}.get(case.get('names'), 'f%d.bin' % i)
            A[off:off + l].tofile(p)
            off += l
            paths.append(p)
        return get_ephys_reader(paths, sample_rate=sr, dtype=A.dtype, n_channels=A.shape[1]), None
    import mtscomp
    A.tofile(d / 'a.bin')
    mtscomp.compress(d / 'a.bin', d / 'a.cbin', d / 'a.ch', sample_rate=10., n_channels=A.shape[1],
                     dtype=A.dtype, chunk_duration=case.get('cs', 10) / 10., n_threads=1,
                     check_after_compress=False, quiet=True)
    rd = mtscomp.Reader(n_threads=case.get('bs', 1))
    rd.open(d / 'a.cbin', d / 'a.ch')
    return get_ephys_reader(rd), rd


def _query_ids(case, store_ids):
    """the spikes a model_store case asks for: its `spike_ids`, or — `pick='stored'`, so that the store route is
    taken — the spikes at those positions (modulo its size) of the store the real model has just written (the
    selection is the seeded C17 selector's; it is observed, like the store ids themselves)"""
    if case.get('pick') == 'stored' and store_ids:
        return [store_ids[i % len(store_ids)] for i in case['spike_ids']]
    return list(case['spike_ids'])


def impl(case):
    from phylib.io import traces as T
    from phylib.utils import Bunch
    op = case['op']
    if op == 'model_store':
        with C.scratch_dir() as d:
            m = D.load(D.write_dataset(d, case['spec']))
            try:
                pr = case.get('prior')
                if pr:
                    # an EARLIER export of the store with another selection / width / factor; with `reopen` the model is
                    # closed and opened again on the directory that now holds that store, then exports again
                    np.random.seed(pr['rs'])
                    m.save_spikes_subset_waveforms(max_n_spikes_per_template=pr['nst'], max_n_channels=pr['nc'],
                                                   sample2unit=pr['factor'])
                    if pr.get('reopen'):
                        m.close()
                        m = D.load(d / 'params.py')
                np.random.seed(case.get('rs', 0))
                m.save_spikes_subset_waveforms(max_n_spikes_per_template=case['nst'], max_n_channels=case['nc'],
                                               sample2unit=case.get('factor', 1.))
                sw = m.spike_waveforms
                if sw is None:
                    return dict(skip=True, why='not loaded')
                if np.ndim(sw.spike_ids) == 0 or len(sw.spike_ids) < 1:
                    return dict(skip=True, why='empty')
                ids = _query_ids(case, [int(x) for x in sw.spike_ids])
                out = m.get_waveforms(_ints(ids, case.get('qkind', 'array')),
                                      _ints(case['ch'], case.get('chkind', 'list')))
                used = sorted(int(t) for t in np.unique(m.spike_templates))
                res = dict(vals=np.asarray(out, dtype=np.float64).tolist(), shape=list(out.shape), query=ids,
                           store_ids=[int(x) for x in sw.spike_ids],
                           store_channels=np.asarray(sw.spike_channels).astype(np.int64).tolist(),
                           orders={str(t): [int(c) for c in m.get_template(t).channel_ids] for t in used},
                           closest=int(m.n_closest_channels), n_templates=int(m.n_templates),
                           ivs=[[int(a), int(b)] for a, b in m.traces.iter_chunks()])
            finally:
                m.close()
        return res
    if op == 'model':
        with C.scratch_dir() as d:
            m = D.load(D.write_dataset(d, case['spec']))
            try:
                out = m.get_waveforms(_ints(case['spike_ids'], case.get('qkind', 'array')),
                                      _ints(case['ch'], case.get('chkind', 'list')))
                res = dict(vals=np.asarray(out).astype(np.int64).tolist(), shape=list(out.shape))
            finally:
                m.close()
        return res
    dur, nch, n = case['dur'], case['nch'], case['n']
    A = _A(dur, nch, case['dtype'], case.get('bias', 0))
    if case.get('nanlast') and A.dtype.kind == 'f':
        # non-finite samples (blanked artefacts, saturation) on the LAST channel, which no channel list of the case
        # names: it is only touched through -1 entries, which must come out as zeros
        A[0::3, -1] = np.nan
        A[1::3, -1] = np.inf
        A[2::3, -1] = -np.inf
    spikes = np.array(case['spikes'], dtype=case.get('sdtype', 'int64'))
    with C.scratch_dir() as d:
        rd = None
        if op == 'extract' and case['backend'] == 'ndarray':
            traces = A
        else:
            traces, rd = _reader(case, d, A)
        if case.get('cols') is not None:
            # a column-selected DERIVED reader (what TemplateModel.traces is: `reader[:, channel_map]`); the channel
            # ids of the case then count within the selected columns
            traces = traces[:, list(case['cols'])]
        try:
            if op == 'extract':
                ch = _ints(case['ch'], case.get('chkind', 'list'))
                out = T.extract_waveforms(traces, spikes, ch, n_samples_waveforms=_win(case))
                return dict(vals=np.asarray(out).astype(np.int64).tolist(), shape=list(out.shape),
                            dtype=str(out.dtype),
                            args_changed=bool(not _same_ids(ch, case['ch']) or spikes.tolist() != list(case['spikes'])))
            chans = np.array(case['chans'], dtype=np.int64).reshape((len(spikes), case['nloc']))
            path = d / 'w.npy'
            prev = case.get('prev')
            if prev == 'export':
                # the destination already holds an EARLIER export (other spikes, other factor): the new export
                # replaces it
                k = max(1, len(spikes) // 2)
                T.export_waveforms(path, traces, spikes[:k], chans[:k][:, ::-1], n_samples_waveforms=n,
                                   sample2unit=3., cache=False)
            elif prev == 'bytes':
                path.write_bytes(b'not an array file at all ' * 40)
            chans_arg = _ints(case['chans'], case.get('chkind', 'list'))
            if isinstance(chans_arg, np.ndarray):
                chans_arg = chans_arg.reshape(chans.shape)
            T.export_waveforms(path, traces, spikes, chans_arg, n_samples_waveforms=_win(case),
                               sample2unit=case['factor'], cache=bool(case.get('cache')))
            arr = np.load(path)
            res = dict(shape=list(arr.shape), dtype=str(arr.dtype), vals=arr.tolist(),
                       ivs=[[int(a), int(b)] for a, b in traces.iter_chunks()],
                       args_changed=bool(not _same_ids(chans_arg, case['chans']) or
                                         spikes.tolist() != list(case['spikes'])))
            if op == 'lookup':
                st = Bunch(spike_ids=np.array(case['ids'], dtype=np.int64), spike_channels=chans.astype(np.int32),
                           waveforms=arr)
                query = _ints(case['query'], case.get('qkind', 'array'))
                chq = _ints(case['chq'], case.get('chqkind', 'list'))
                out = T.get_spike_waveforms(query, chq, spike_waveforms=st, n_samples_waveforms=_win(case))
                res = dict(vals=out.tolist(), shape=list(out.shape), ivs=res['ivs'], dtype=str(out.dtype),
                           args_changed=bool(res['args_changed'] or not _same_ids(query, case['query']) or
                                             not _same_ids(chq, case['chq'])))
            return res
        finally:
            del traces
            if rd is not None:
                rd.close()


def _spec_raw(case):
    spec = case['spec']
    raw = np.array([row for part in spec['raw'] for row in part])
    return raw


def _frac(x):
    f = Fraction(x)
    return f.numerator if f.denominator == 1 else [f.numerator, f.denominator]


def _cells(arr3):
    """driver array of rationals (spikes x rows x channels) -> nested floats; the innermost lists are rows of
    cells, a cell being an int or a [num, den] pair"""
    return [[[float(Fraction(c[0], c[1])) if isinstance(c, list) else float(c) for c in row] for row in w]
            for w in arr3]


def model_query(case, impl_res):
    op = case['op']
    if op == 'model_store':
        spec = case['spec']
        raw = _spec_raw(case)
        cm = spec['channel_map']
        ok = impl_res.get('ok') or {}
        if ok.get('skip') or 'ok' not in impl_res:
            return dict(p=PID, op='extract', dur=raw.shape[0], nch=raw.shape[1], n=len(spec['templates'][0]),
                        spikes=[spec['spike_samples'][i] for i in case['spike_ids']],
                        ch=[cm[c] if c != -1 else -1 for c in case['ch']])
        nt = ok['n_templates']
        # channels are renamed by the (injective) channel map: the Lean recording is the raw file
        orders = [[cm[c] for c in ok['orders'].get(str(t), [])] for t in range(nt)]
        # values OBSERVED on the real code travel under `impl_*` keys: when the driver cannot read one of them as a value
        # of the model's domain (a negative chunk bound, ...) the check reports the real output, not its own machinery
        return dict(p=PID, op='subset', dur=raw.shape[0], nch=raw.shape[1], n=len(spec['templates'][0]),
                    spike_samples=spec['spike_samples'], spike_templates=spec['spike_templates'], impl_orders=orders,
                    impl_sel=ok['store_ids'], max_n=case['nc'], impl_closest=ok['closest'], query=ok['query'],
                    chq=[cm[c] for c in case['ch']], impl_ivs=ok['ivs'], factor=_frac(case.get('factor', 1.)))
    if op == 'model':
        spec = case['spec']
        raw = _spec_raw(case)
        cm = spec['channel_map']
        return dict(p=PID, op='extract', dur=raw.shape[0], nch=raw.shape[1], n=len(spec['templates'][0]),
                    spikes=[spec['spike_samples'][i] for i in case['spike_ids']],
                    ch=[cm[c] if c != -1 else -1 for c in case['ch']])
    q = dict(p=PID, op=op, dur=case['dur'], nch=case['nch'], n=case['n'])
    # a derived reader `reader[:, cols]`: channel c of the case is channel cols[c] of the recording the model reads
    cols = case.get('cols')
    ren = (lambda c: c if c == -1 or cols is None else cols[c])
    if op == 'extract':
        q.update(spikes=case['spikes'], ch=[ren(c) for c in case['ch']])
        return q
    q.update(nloc=case['nloc'], factor=_frac(case['factor']), bias=case.get('bias', 0))
    if 'ok' in impl_res:
        q.update(impl_ivs=impl_res['ok']['ivs'])      # the reader's chunk intervals, observed (C16 judges them)
    chans = [[ren(c) for c in row] for row in case['chans']]
    if op == 'export':
        q.update(spikes=case['spikes'], chans=chans)
    else:
        q.update(ids=case['ids'], samples=case['spikes'], chans=chans, query=case['query'],
                 chq=[cols[c] if cols is not None and c < len(cols) else (c if cols is None else case['nch'] + c)
                      for c in case['chq']])
    return q


def oracle(case):
    """independent Python rendering of the UNSCALED zero-padded window (direct-extraction routes); the routes that
    multiply by the unit factor are judged against the Lean specification only (the driver multiplies, exactly)"""
    op = case['op']
    if op == 'model':
        spec = case['spec']
        raw = _spec_raw(case)[:, spec['channel_map']]
        n = len(spec['templates'][0])
        return [window(raw, spec['spike_samples'][i], n, case['ch']).tolist() for i in case['spike_ids']]
    ids = _A(case['dur'], case['nch'], 'int64')
    if case.get('cols') is not None:
        ids = ids[:, list(case['cols'])]
    return [window(ids, s, case['n'], case['ch']).tolist() for s in case['spikes']]


def judge(case, impl_res, ans):
    if 'err' in ans:
        return 'MACHINERY: driver error %s' % ans['err']
    m = ans['ok']
    op = case['op']
    if op == 'model_store':
        return _judge_store(case, impl_res, m)
    if m['model'] is None:
        return 'MACHINERY: Lean model raises on an in-domain case'
    if m.get('tile', True) and m['model'] != m['spec']:
        return 'MACHINERY: Lean model differs from its spec (contradicts the theorem)'
    if op in ('extract', 'model'):
        exp = oracle(case)
        if m['spec'] != exp and len(exp):
            return 'MACHINERY: Lean spec differs from the python oracle'
    else:
        exp = _cells(m['spec'])
    if 'raised' in impl_res:
        return 'SPEC: real code raised %s (%s) at %s on an in-domain input' % (
            impl_res['raised'], impl_res['msg'], impl_res['where'])
    ok = impl_res['ok']
    if op == 'export':
        if ok['shape'] != [len(case['spikes']), case['n'], case['nloc']]:
            return 'SPEC: exported file loads with shape %s' % ok['shape']
        if ok['dtype'] != 'float64':
            return 'CORR: exported dtype %s' % ok['dtype']
    if np.array(ok['vals'], dtype=np.float64).tolist() != np.array(exp, dtype=np.float64).tolist():
        got, want = np.array(ok['vals'], dtype=np.float64), np.array(exp, dtype=np.float64)
        if op == 'lookup' and got.shape == want.shape:
            # DESIGN §5 reading: the lookup is claimed on the query channels the store HOLDS for the spike; zeros on
            # the others are what the model (and the code) gives, not what the statement demands
            held = np.array([[c in case['chans'][case['ids'].index(q)] for c in case['chq']] for q in case['query']])
            bad = np.array([[not np.array_equal(got[i, :, j], want[i, :, j]) for j in range(got.shape[2])]
                            for i in range(got.shape[0])]).reshape(held.shape)
            if not (bad & held).any():
                return 'CORR: get_spike_waveforms differs from the Lean model on a channel the store does not hold for the spike'
        return 'SPEC: %s route differs from the zero-padded raw window%s' % (
            op, ' times the unit factor' if op in ('export', 'lookup') else '')
    if ok.get('args_changed'):
        return 'SPEC: %s modified the spike / channel arrays passed by the caller' % op
    if op == 'extract' and ok['dtype'] != case['dtype']:
        return 'CORR: extract_waveforms dtype %s' % ok['dtype']
    if op == 'lookup' and ok['dtype'] != 'float64':
        return 'CORR: get_spike_waveforms dtype %s' % ok['dtype']
    return None


def _judge_store(case, impl_res, m):
    """TemplateModel: save_spikes_subset_waveforms -> get_waveforms against the Lean model of the same"""
    if 'raised' in impl_res:
        return 'SPEC: real code raised %s (%s) at %s on an in-domain input' % (
            impl_res['raised'], impl_res['msg'], impl_res['where'])
    ok = impl_res['ok']
    if ok.get('skip'):
        if ok.get('why') == 'not loaded':
            # the three files were just written by save_spikes_subset_waveforms on a well-formed dataset and the
            # model reloaded them itself (model.py:1424): `_load_spike_waveforms` dropped the store
            return ('SPEC: the subset store written by save_spikes_subset_waveforms is not loaded afterwards '
                    '(spike_waveforms is None; subset_loads)')
        return None
    if m['model'] is None:
        return 'MACHINERY: the Lean model of get_waveforms raises on a store written by saveSubset'
    sel = ok['store_ids']
    in_hyp = m['tile'] and all(a < b for a, b in zip(sel, sel[1:]))
    if in_hyp and not m['loads']:
        return 'MACHINERY: the Lean subset files do not load (contradicts subset_loads)'
    if in_hyp and m['model'] != m['spec']:
        return 'MACHINERY: Lean model differs from its spec (contradicts getWaveforms_after_save)'
    cm = case['spec']['channel_map']
    real_rows = [[cm[c] if c != -1 else -1 for c in row] for row in ok['store_channels']]
    if real_rows != m['store_channels']:
        return 'SPEC: the subset store does not hold the best channels of each spike\'s template (%s, model %s)' % (
            real_rows, m['store_channels'])
    got = np.array(ok['vals'], dtype=np.float64)
    spec = np.array(_cells(m['spec']), dtype=np.float64)
    if got.shape != spec.shape:
        return 'SPEC: get_waveforms (store present) returned shape %s' % (list(got.shape),)
    stored = {sid: row for sid, row in zip(sel, ok['store_channels'])}
    if m['all_stored']:
        # store route: claimed on the channels the store holds for that spike
        for i, q in enumerate(ok['query']):
            for j, c in enumerate(case['ch']):
                if c in stored[q] and not np.array_equal(got[i, :, j], spec[i, :, j]):
                    return 'SPEC: store lookup differs from the unit factor times the raw window (spike %d, channel %d)' % (q, c)
    elif not np.array_equal(got, spec):      # some spike is not in the store: raw data must be used
        return 'SPEC: get_waveforms for a spike outside the subset store differs from the raw window'
    model = np.array(_cells(m['model']), dtype=np.float64)
    if not np.array_equal(got, model):
        return 'CORR: get_waveforms differs from the Lean model on a channel the store does not hold'
    return None


def nontrivial(case):
    if case['op'] in ('model', 'model_store'):
        return len(case['spike_ids']) >= 1
    return len(case['spikes']) >= 2 or any(s < case['n'] // 2 or s + case['n'] - case['n'] // 2 > case['dur'] for s in case['spikes'])


def _nk(case):
    k = case.get('nkind', 'int')
    return 'int64' if k == 'np' else k


def tally(rep, case, impl_res, ans):
    if case['op'] in ('export', 'lookup'):
        rep.count('export_cache:%s' % bool(case.get('cache')))
        rep.count('destination_before_the_export:%s' % {'export': 'an earlier export', 'bytes': 'foreign bytes'}.get(case.get('prev'), 'absent'))
    if case['op'] in ('extract', 'export', 'lookup'):
        rep.count('window_length_given_as:%s' % _nk(case))
        rep.count('channels_given_as:%s' % case.get('chkind', 'list'))
        if case.get('cols') is not None:
            rep.count('read through a column-selected derived reader')
    if case['op'] == 'lookup':
        rep.count('query_channels_given_as:%s' % case.get('chqkind', 'list'))
        rep.count('query_ids_given_as:%s' % case.get('qkind', 'array'))
    if case['op'] in ('model', 'model_store'):
        rep.count('get_waveforms_channels_given_as:%s' % case.get('chkind', 'list'))
        rep.count('get_waveforms_ids_given_as:%s' % case.get('qkind', 'array'))
    rep.count('op:' + case['op'])
    if case['op'] == 'model_store':
        pr = case.get('prior')
        rep.count('subset_store:%s' % ('first export' if not pr else 'exported again on the same model' if not pr.get('reopen')
                                        else 'exported again by a model opened on the earlier store'))
    if case['op'] in ('model', 'model_store'):
        if case['op'] == 'model_store' and 'ok' in impl_res and not impl_res['ok'].get('skip'):
            st = set(impl_res['ok']['store_ids'])
            rep.count('store_request:%s' % ('all_stored' if all(q in st for q in impl_res['ok']['query']) else 'some_unstored'))
        return
    rep.count('backend:' + case['backend'] + ('(file names not in sorted order)' if case['backend'] == 'flat' and case.get('names') in ('rev', 'nat') and len(case.get('parts', [])) > 1 else ''))
    if case.get('nanlast'):
        rep.count('non-finite samples on a channel reached only through -1')
    rep.count('sdtype:' + case.get('sdtype', 'int64'))
    rep.count('dtype:' + case['dtype'])
    rep.count('window:%s' % ('odd' if case['n'] % 2 else 'even'))
    if case['n'] > case['dur']:
        rep.count('window_longer_than_recording')
    chs = case.get('ch') or [c for row in case.get('chans', []) for c in row]
    if -1 in chs:
        rep.count('has_-1_channel(%s)' % case.get('chkind', 'list'))
    if any(s < case['n'] // 2 for s in case['spikes']):
        rep.count('spike_near_start')
    if any(s + case['n'] - case['n'] // 2 > case['dur'] for s in case['spikes']):
        rep.count('spike_near_end')


def classify(case, impl_res, ans, why):
    d = dict(op=case['op'], kind=why.split(':')[0], raised=impl_res.get('raised'), where=impl_res.get('where'))
    # the form of the integer arguments: window length, channel ids, query ids
    sign = (lambda k: 'python' if k in ('int', 'list', 'tuple', None) else 'unsigned' if k.startswith('u') else 'signed')
    d.update(window_type=sign(_nk(case)), channels_type=sign(case.get('chkind', 'list')),
             query_channels_type=sign(case.get('chqkind', 'list')), query_ids_type=sign(case.get('qkind', 'array')))
    if case['op'] not in ('model', 'model_store'):
        chs = case.get('ch') or [c for row in case.get('chans', []) for c in row]
        d.update(unsigned=case.get('sdtype', 'int64').startswith('u'), neg1=(-1 in chs), chkind=case.get('chkind', 'list'),
                 short=case['n'] > case['dur'] if 'dur' in case else None,
                 both_edges=any(s < case['n'] // 2 and s + case['n'] - case['n'] // 2 > case['dur'] for s in case['spikes']))
        if case['op'] in ('export', 'lookup'):
            d.update(dtype=case['dtype'], factor_type=type(case['factor']).__name__, bias=bool(case.get('bias')))
    return d


def shrink(case):
    if case['op'] in ('model', 'model_store'):
        if len(case['spike_ids']) > 1:
            for i in range(len(case['spike_ids'])):
                c = dict(case); c['spike_ids'] = case['spike_ids'][:i] + case['spike_ids'][i + 1:]
                yield c
        for key, plain in (('chkind', 'list'), ('qkind', 'array')):
            if case.get(key, plain) != plain:
                c = dict(case); c[key] = plain; yield c
        return
    ns = len(case['spikes'])
    if ns > 1:
        for i in range(ns):
            c = dict(case)
            c['spikes'] = case['spikes'][:i] + case['spikes'][i + 1:]
            if 'chans' in case:
                c['chans'] = case['chans'][:i] + case['chans'][i + 1:]
            if 'ids' in case:
                if case['ids'][i] in case['query']:
                    continue
                c['ids'] = case['ids'][:i] + case['ids'][i + 1:]
            yield c
    if case.get('sdtype', 'int64') != 'int64':
        c = dict(case); c['sdtype'] = 'int64'; yield c
    for key, plain in (('nkind', 'int'), ('chkind', 'list'), ('chqkind', 'list'), ('qkind', 'array')):
        if case.get(key, plain) != plain:
            c = dict(case); c[key] = plain; yield c
    if case.get('cols') is not None and case['cols'] == list(range(case['nch'])):
        c = dict(case); c.pop('cols'); yield c
    if case['backend'] not in ('array', 'ndarray'):
        c = dict(case); c['backend'] = 'array'; yield c
    if case['dtype'] != 'int16' and not case.get('bias'):
        c = dict(case); c['dtype'] = 'int16'; yield c
    if case['op'] != 'extract' and case['factor'] != 1:
        c = dict(case); c['factor'] = 1; yield c
    if case['n'] > 1:
        c = dict(case); c['n'] = case['n'] - 1; yield c
    if case['op'] == 'lookup' and len(case['query']) > 1:
        for i in range(len(case['query'])):
            c = dict(case); c['query'] = case['query'][:i] + case['query'][i + 1:]; yield c


def _backend(rng, dur, dtype, k):
    b = ['array', 'flat', 'flat', 'cbin'][k % 4] if dtype == 'int16' else ['array', 'flat'][k % 2]
    d = dict(backend=b, cs=rng.randrange(1, dur + 2))
    if b == 'flat':
        nparts = min(dur, 1 + k % 3)
        cuts = sorted(rng.sample(range(1, dur), nparts - 1)) if nparts > 1 else []
        bounds = [0] + cuts + [dur]
        d['parts'] = [b_ - a_ for a_, b_ in zip(bounds, bounds[1:])]
        d['names'] = ['idx', 'rev', 'nat'][(k // 3) % 3]
    if b == 'cbin':
        d['bs'] = 1 + k % 3
    if int(round(600.0 * (d['cs'] / 600.))) != d['cs']:
        d['cs'] = 5
    return d


NKINDS = ['int'] * 8 + INT_KINDS            # window length: half of the cases typed
CHKINDS = ['list', 'array', 'list', 'array', 'tuple'] + INT_KINDS
QKINDS = ['array', 'array', 'list', 'int32', 'uint32', 'uint64', 'int16', 'uint8']


def _kind_for(kind, vals):
    """the container / dtype a generated case really uses for `vals`: an unsigned dtype cannot hold -1"""
    flat = [c for v in vals for c in (v if isinstance(v, (list, tuple)) else [v])]
    if kind.startswith('u') and any(c < 0 for c in flat):
        return kind[1:]
    return kind


def _interleave(streams):
    """weighted round robin over (generator, weight) pairs, so that a run stopped by its time budget has seen every
    stream in proportion"""
    live = [[iter(g), w] for g, w in streams]
    while live:
        for it in list(live):
            for _ in range(it[1]):
                try:
                    yield next(it[0])
                except StopIteration:
                    live.remove(it)
                    break


def _derive(rng, c, k):
    """read the case through `reader[:, cols]`: the file gets 0..2 extra channels and `cols` selects / permutes the
    channels the case speaks about (channel_map of a TemplateModel with n_channels_dat > n_channels)"""
    if c['backend'] == 'ndarray' or k % 4 != 1:
        return c
    nsel = c['nch']
    c['nch'] = nsel + rng.randrange(0, 3)
    c['cols'] = rng.sample(range(c['nch']), nsel)
    return c


def _gen_extract(tier, rng):
    q = tier == 'quick'
    L = 7 if q else 12
    W = 6 if q else 9
    k = 0
    sdts = ['int64', 'int32', 'uint32', 'uint64']
    dts = ['int16', 'float32', 'float64']
    # 1. direct extraction: every spike position x window x channel forms
    for dur in range(1, L + 1):
        for n in range(1, W + 1):
            k += 1
            nch = 1 + k % 4
            chs = [list(range(nch)), [nch - 1, -1, 0], [-1], list(range(nch))[::-1] + [-1, -1]]
            for ci, ch in enumerate(chs):
                k += 1
                c = dict(p=PID, op='extract', dur=dur, nch=nch, n=n, spikes=list(range(dur)), ch=ch,
                         sdtype=sdts[k % 4], dtype=dts[k % 3], nkind=NKINDS[(k // 2) % len(NKINDS)])
                c.update(_backend(rng, dur, c['dtype'], k))
                if k % 3 == 0:
                    c['backend'] = 'ndarray'
                if c['dtype'] != 'int16' and nch >= 2 and -1 in ch and k % 2:
                    c['nanlast'] = True
                    c['ch'] = [-1 if x == nch - 1 else x for x in ch]
                c['chkind'] = _kind_for(CHKINDS[(k // 3) % len(CHKINDS)], c['ch'])
                yield _derive(rng, c, k // 5) if not c.get('nanlast') else c
    # 1b. longer recordings, spikes in any order (extraction does not need them sorted), on every backend
    for _ in range(250 if q else 4000):
        k += 1
        dur = rng.randrange(1, 40)
        nch = rng.randrange(1, 5)
        n = rng.randrange(1, 10)
        dtype = dts[k % 3]
        spikes = [rng.pick([rng.randrange(dur), 0, dur - 1, min(dur - 1, n // 2), max(0, dur - 1 - n // 2)])
                  for _ in range(rng.randrange(1, 7))]
        ch = rng.sample(range(nch), rng.randrange(1, nch + 1)) + [-1] * rng.pick([0, 0, 1, 2])
        rng.shuffle(ch)
        c = dict(p=PID, op='extract', dur=dur, nch=nch, n=n, spikes=spikes, ch=ch, sdtype=sdts[k % 4], dtype=dtype,
                 nkind=rng.pick(NKINDS))
        c.update(_backend(rng, dur, dtype, k))
        if k % 7 == 0:
            c['backend'] = 'ndarray'
        c['chkind'] = _kind_for(rng.pick(CHKINDS), ch)
        yield _derive(rng, c, k)


def _gen_routes(tier, rng):
    q = tier == 'quick'
    k = 0
    sdts = ['int64', 'int32', 'uint32', 'uint64']
    dts = ['int16', 'float32', 'float64']
    # 2. export + lookup: sorted spike vectors incl. ties and all boundaries
    for _ in range(2600 if q else 30000):
        k += 1
        dur = rng.randrange(1, 30)
        nch = rng.randrange(1, 5)
        n = rng.randrange(1, 10)
        dtype = dts[k % 3]
        be = _backend(rng, dur, dtype, k)
        ns = rng.randrange(1, 9)
        interesting = [0, dur - 1, n // 2, max(0, dur - 1 - n // 2)]
        if be['backend'] == 'flat':
            acc = 0
            for l in be['parts']:
                acc += l
                interesting += [acc - 1, min(acc, dur - 1)]
        interesting += [min(dur - 1, j) for j in range(0, dur, max(1, be['cs']))]
        interesting = [min(dur - 1, max(0, x)) for x in interesting]
        spikes = sorted(rng.pick([rng.randrange(dur), rng.pick(interesting)]) for _ in range(ns))
        nloc = rng.randrange(1, 5)
        chans = []
        for _ in range(ns):
            row = rng.sample(range(nch), min(nch, nloc))
            row += [-1] * (nloc - len(row))
            if rng.random() < .3:
                row[rng.randrange(nloc)] = -1
            chans.append(row)
        c = dict(p=PID, op='export' if k % 2 else 'lookup', dur=dur, nch=nch, n=n, spikes=spikes, chans=chans,
                 nloc=nloc, sdtype=sdts[k % 4], dtype=dtype, factor=[1, 2, 1.0, 0.5, 2.5][k % 5],
                 cache=bool((k // 3) % 2))
        c.update(be)
        if dtype != 'int16' and nch >= 2 and k % 4 == 3:
            # non-finite samples on the last channel; channel lists name it only through -1
            c['nanlast'] = True
            c['chans'] = [[-1 if x == nch - 1 else x for x in row] for row in chans]
        c['chkind'] = _kind_for(CHKINDS[(k // 2) % len(CHKINDS)], c['chans'])
        c['prev'] = ['none', 'export', 'none', 'bytes', 'export'][k % 5 if k % 7 else 1]
        c['nkind'] = NKINDS[(k // 2) % len(NKINDS)] if k % 6 != 2 else 'np'
        if dtype == 'int16' and k % 4 == 0:
            c['bias'] = 20000        # products with an int factor exceed the int16 range
        if dtype == 'float32' and k % 4 == 1:
            c['bias'] = 16777000     # near 2**24: a float32 product would round
        if c['op'] == 'lookup':
            c['ids'] = sorted(rng.sample(range(200), ns))
            if rng.random() < .4:
                rng.shuffle(c['ids'])      # a store whose rows are not in increasing spike-id order
            qn = rng.randrange(1, ns + 1)
            c['query'] = [rng.pick(c['ids']) for _ in range(qn)]
            c['chq'] = rng.sample(range(nch + 2), rng.randrange(1, nch + 2))
            c['chqkind'] = rng.pick(CHKINDS)
            c['qkind'] = rng.pick(QKINDS)
        if not c.get('nanlast'):
            c = _derive(rng, c, k // 3)
        yield c


def _gen_models(tier, rng):
    q = tier == 'quick'
    # 3. TemplateModel.get_waveforms (raw-data route, subset-store route) on generated datasets; the channel map
    # selects and permutes a subset of the file's channels, so `model.traces` is a column-selected derived reader
    for _ in range(120 if q else 1500):
        spec = D.random_spec(rng, raw=True, feats=False, tfeats=False)
        ncd = spec['n_channels_dat']
        off = 0
        raw = []
        for part in spec['raw']:
            raw.append([[(off + r) * ncd + c + 1 for c in range(ncd)] for r in range(len(part))])
            off += len(part)
        spec['raw'] = raw
        spec['spike_samples'] = sorted(rng.randrange(0, off) for _ in spec['spike_samples'])
        ns = len(spec['spike_samples'])
        nc = spec['n_channels']
        ch = rng.sample(range(nc), rng.randrange(1, nc + 1)) + ([-1] if rng.random() < .3 else [])
        yield dict(p=PID, op='model', spec=spec, spike_ids=[rng.randrange(ns) for _ in range(rng.randrange(1, 5))],
                   ch=ch, chkind=_kind_for(rng.pick(CHKINDS), ch), qkind=rng.pick(QKINDS))
        if ns >= 4:
            # queries in any order, a spike may be asked for twice
            ids = rng.sample(range(ns), rng.randrange(1, 4))
            if rng.random() < .3:
                ids.append(rng.pick(ids))
            yield dict(p=PID, op='model_store', spec=spec, nst=rng.randrange(1, 3), nc=rng.pick([nc, nc, 0, 1, 14]),
                       rs=rng.randrange(1000), factor=rng.pick([1., 1., 2., 0.5, 2]),
                       spike_ids=ids, ch=rng.sample(range(nc), rng.randrange(1, nc + 1)),
                       chkind=rng.pick(CHKINDS), qkind=rng.pick(QKINDS), pick=rng.pick(['given', 'stored']),
                       prior=rng.pick([None, None, dict(nst=rng.randrange(1, 4), nc=rng.pick([nc, 0, 2]), rs=rng.randrange(1000),
                                                        factor=rng.pick([1., 3.]), reopen=rng.random() < .7)]))


def gen(tier, rng):
    return _interleave([(_gen_routes(tier, rng), 16), (_gen_extract(tier, rng), 2), (_gen_models(tier, rng), 2)])
