"""C17 — spike selection honours its constraints (DESIGN.md §5 C17)."""
import itertools
import numpy as np

PID = 'C17'
PARALLEL = False
BATCH = 4000
BUDGET_S = {'quick': 60, 'thorough': 900}
RULE = ('spike vectors on a small time grid (int64/uint64/float64 times, spikes exactly on chunk '
        'bounds), chunk grids of 2..8 bounds, kept counts 1..6, requested counts None/0/-1/1/2/5/100, '
        'requested lists with unknown and repeated ids, subset on/off; exhaustive tiny grids first, '
        'then random. The output is random: the Lean executable decides the C17 predicate on the real '
        'output; where no sub-selection is needed the output is also compared with the model. '
        'Also: times and bounds through a strictly increasing map (t - shift) * scale of the time axis (negative and fractional times and bounds, float64 / float32 / int32 / int16 times; the Int model sees the integers: selection_order_invariant), '
        'the spike subset as list / tuple / int32 / uint64 / uint32 array and with ids beyond the last spike, the per-cluster arrays of the callable as int64 / int32 / uint32 / intp, the dtype of the result (an integer array). '
        'Also: grids given as arrays, grids of up to 300 bounds with up to 100 kept chunks given as narrow NumPy integers, spike times not in id order, earlier calls on the same selector whose results the caller modifies in place. '
        'non-trivial = some requested cluster has >= 1 eligible spike')
ASSUMPTIONS = ['np.random.choice(ids, n, replace=False) returns n distinct elements of ids (its contract '
               'is a hypothesis of the theorem); NumPy global RNG seeded per case for replay',
               'get_spikes_per_cluster (a constructor argument of the selector) returns a one-dimensional NumPy integer array, '
               'empty for an unknown cluster - what SpikeSelector.__call__ needs (spike_ids[mask]) and what both callers in the '
               'repository pass (model.py:1422, test_array.py). A callable answering with a Python list (dict.get(c, [])) makes '
               'subset_chunks=True raise TypeError: outside the property (it quantifies over spike-time / cluster vectors, not '
               'over callables), not generated; NaN spike times (no order) likewise']


def _tmap(case):
    """strictly increasing map of the time axis applied to BOTH the spike times and the chunk bounds before they reach the
    real selector: v -> (v - shift) * scale (scale > 0; the model keeps the integers v - see selection_order_invariant).
    scale 1: integers (negative when shift > v); otherwise floats - distinct integers stay distinct and ordered, equal ones
    stay equal (the same expression on both sides), so "spike exactly on a bound" is preserved"""
    shift, scale = case['tmap']
    if scale == 1:
        return lambda v: int(v) - shift
    return lambda v: (int(v) - shift) * float(scale)


def impl(case):
    from phylib.io.array import SpikeSelector, _spikes_per_cluster
    sc = np.array(case['clusters'], dtype=case.get('scdtype', 'int64'))     # narrow dtypes: spike ids must not inherit them
    f = _tmap(case) if case.get('tmap') else None
    st = np.array([f(t) for t in case['times']] if f else case['times'], dtype=case.get('tdtype', 'int64'))
    spc = _spikes_per_cluster(sc) if len(sc) else {}
    if case.get('spckind', 'int64') != 'int64':
        # the arrays the callable hands out, in another integer dtype (its contract: an integer array, see ASSUMPTIONS)
        spc = {k: v.astype(case['spckind']) for k, v in spc.items()}
    empty = np.array([], dtype=case.get('spckind', 'int64'))
    np.random.seed(case.get('rs', 0))
    g = case.get('gscale', 1)
    # gscale g > 1: the chunk grid is fractional (bounds/g, floats) while spike times stay whole
    # numbers; the model sees everything in units of 1/g
    grid = case['bounds'] if g == 1 else [b / float(g) for b in case['bounds']]
    if f:
        grid = [f(b) for b in case['bounds']]
    back = {float(v): b for v, b in zip(grid, case['bounds'])} if f else None
    if case.get('boundskind') == 'array':
        grid = np.array(grid)               # the reader's chunk_bounds attribute is an array, not a list
    nk = case['n_kept']
    if case.get('nkeptkind', 'py') != 'py':
        nk = getattr(np, case['nkeptkind'])(nk)          # the number of chunks to keep as a (narrow) NumPy integer
    sel = SpikeSelector(get_spikes_per_cluster=lambda c: spc.get(c, empty),
                        spike_times=st, chunk_bounds=grid, n_chunks_kept=nk)
    subset = _subset(case.get('subset'), case.get('subsetkind', 'int64'))
    count, req = case['count'], case['req']
    if count is not None and case.get('countkind', 'py') != 'py':
        count = getattr(np, case['countkind'])(count)        # the count as a NumPy integer scalar
    req = {'list': list, 'tuple': tuple, 'array': lambda r: np.array(r, dtype=np.int64)}[case.get('reqkind', 'list')](req)
    for pc in case.get('pre', []):
        # earlier calls on the SAME selector (other subsets / counts / chunk restriction): a selection must not
        # depend on what the selector was asked before
        o = sel(pc['count'], list(pc['req']), subset_chunks=pc['subset_chunks'],
                subset_spikes=_subset(pc.get('subset'), case.get('subsetkind', 'int64')))
        try:
            # what the caller does with a returned selection is the caller's business (e.g. making it relative)
            if isinstance(o, np.ndarray) and o.size and o.flags.writeable:
                o -= o[0] + 1
        except Exception:  # noqa
            pass
    out = sel(count, req, subset_chunks=case['subset_chunks'], subset_spikes=subset)
    if f:
        # kept bounds back on the model's axis: each must BE one of the bounds handed in (None otherwise)
        kept = [back.get(float(x)) for x in sel.chunks_kept]
    else:
        kept = [int(round(float(x) * g)) for x in sel.chunks_kept]
    o = np.asarray(out)
    return dict(out=[int(x) for x in o.ravel()], kept=kept, dtype=str(o.dtype), ndim=int(o.ndim),
                integral=bool(all(float(x) == int(x) for x in o.ravel())))


def _subset(sub, kind):
    if sub is None:
        return None
    if kind == 'list':
        return list(sub)
    if kind == 'tuple':
        return tuple(sub)
    return np.array(sub, dtype=kind)


def model_query(case, impl_res):
    q = {k: v for k, v in case.items() if k not in ('tdtype', 'rs', 'gscale', 'countkind', 'reqkind', 'scdtype', 'pre', 'boundskind', 'nkeptkind',
                                                      'tmap', 'subsetkind', 'spckind')}
    q['times'] = [t * case.get('gscale', 1) for t in case['times']]
    q['op'] = 'select'
    if case.get('tmap'):
        # self-check of the order invariance the run relies on: the model through an integer strictly increasing map
        q['tmap'] = [1 + case['tmap'][0] % 3, -case['tmap'][0]]
    if 'ok' in impl_res and all(x >= 0 for x in impl_res['ok']['out']) and None not in impl_res['ok']['kept']:
        q['impl'] = impl_res['ok']['out']
        q['impl_kept'] = impl_res['ok']['kept']
    return q


def judge(case, impl_res, ans):
    if 'err' in ans:
        return 'MACHINERY: driver error %s' % ans['err']
    m = ans['ok']
    if m['model_spec'] is not True:
        return 'MACHINERY: model output rejected by its own spec (contradicts the theorem)'
    if 'raised' in impl_res:
        return 'SPEC: real code raised %s (%s) at %s on an in-domain input' % (
            impl_res['raised'], impl_res['msg'], impl_res['where'])
    ok = impl_res['ok']
    if case.get('tmap') and m.get('map_invariant') is not True:
        return 'MACHINERY: the model is not invariant under a strictly increasing map of the time axis (contradicts selection_order_invariant)'
    if ok['ndim'] != 1 or not ok['integral'] or np.dtype(ok['dtype']).kind not in 'iu':
        return ('SPEC: the selection is not a one-dimensional INTEGER array of spike ids (dtype %s, ndim %d): it cannot index '
                'the spikes' % (ok['dtype'], ok['ndim']))
    if None in ok['kept']:
        return 'SPEC: chunks_kept holds a value that is not a bound of the supplied grid'
    if any(x < 0 or x >= len(case['times']) for x in ok['out']):
        return 'SPEC: the selection contains spike ids outside 0..n_spikes-1: %s' % [x for x in ok['out'] if x < 0 or x >= len(case['times'])][:5]
    if m['impl_kept_ok'] is not True:
        return 'SPEC: kept chunks are not whole grid intervals at a regular stride starting with the first / too many'
    if m['impl_spec'] is not True:
        return 'SPEC: selection violates the cluster/chunk/subset/count constraints'
    if ok['kept'] != m['kept']:
        # another regular stride than the model's: admissible by the letter of the statement ("never more than the requested
        # number", not "as many as it allows"), not what the code does (stride_minimal)
        return ('CORR: chunks_kept is another admissible regular stride than the model\'s (the smallest that keeps at most the '
                'requested number) - satisfies every clause of the statement; differs from the model of the code: correspondence '
                'broken (the property is no longer SHOWN to hold by the tie to the model)')
    if m.get('closed') is not None:
        # no positive count: the selection is ONE filter over the spike ids (theorem selection_noCount_closed_form)
        if m['closed'] != m['model']:
            return 'MACHINERY: the model differs from its closed form without a count (contradicts selection_noCount_closed_form)'
        if ok['out'] != m['closed']:
            return 'SPEC: without a positive count the selection is not exactly the eligible spikes of the requested clusters'
    if not m['random'] and ok['out'] != m['model']:
        return 'MACHINERY: deterministic case accepted by the spec but different from the model'
    return None


def nontrivial(case):
    return any(c in case['clusters'] for c in case['req'])


def tally(rep, case, impl_res, ans):
    rep.count('count:%s' % case['count'])
    rep.count('subset_chunks:%s' % case['subset_chunks'])
    rep.count('subset:%s' % (case.get('subset') is not None))
    rep.count('tdtype:%s' % case.get('tdtype', 'int64'))
    rep.count('count_type:%s' % case.get('countkind', 'py'))
    rep.count('clusters_dtype:%s%s' % (case.get('scdtype', 'int64'), ' (>255 spikes)' if len(case['times']) > 255 else ''))
    rep.count('requested_as:%s' % case.get('reqkind', 'list'))
    rep.count('grid:%s' % ('integer' if case.get('gscale', 1) == 1 else 'fractional(1/%d)' % case['gscale']))
    if case.get('subset') is not None and len(set(case['subset'])) != len(case['subset']):
        rep.count('subset_with_repeats')
    if 'ok' in ans:
        rep.count('random_choice_needed:%s' % ans['ok']['random'])
    rep.count('grid_given_as:%s' % case.get('boundskind', 'list'))
    if case.get('tmap'):
        sh, sc_ = case['tmap']
        neg = any(t < sh for t in case['times']) or any(b < sh for b in case['bounds'])
        rep.count('time axis through (t - shift) * scale: %s%s' % (
            'integers' if sc_ == 1 else 'fractional (dyadic scale)' if sc_ in (0.25, 0.5) else 'fractional (scale %s)' % sc_,
            ', some negative' if neg else ''))
    if case.get('subset') is not None:
        rep.count('subset_given_as:%s%s' % (case.get('subsetkind', 'int64'),
                                           ', with ids beyond the spikes' if any(x >= len(case['times']) for x in case['subset']) else ''))
    rep.count('callable_returns:%s arrays' % case.get('spckind', 'int64'))
    if 'ok' in impl_res:
        rep.count('result_dtype:%s' % impl_res['ok']['dtype'])
    rep.count('n_kept_type:%s%s' % (case.get('nkeptkind', 'py'), ' (100+ chunks)' if len(case['bounds']) > 100 else ''))
    rep.count('n_kept:%s, bounds:%s' % ('<=6' if case['n_kept'] <= 6 else '7+', '<=8' if len(case['bounds']) <= 8 else '9+'))
    rep.count('earlier_calls_on_same_selector:%d' % len(case.get('pre', [])))
    if any(a > b for a, b in zip(case['times'], case['times'][1:])):
        rep.count('times_not_sorted')
    if {t * case.get('gscale', 1) for t in case['times']} & set(case['bounds']):
        rep.count('spike_on_bound')
    if set(case['req']) - set(case['clusters']):
        rep.count('unknown_cluster_requested')


def classify(case, impl_res, ans, why):
    return dict(kind=why.split(':')[0], what=why.split(':')[1].strip()[:50], raised=impl_res.get('raised'))


def shrink(case):
    n = len(case['times'])
    for i in range(n):
        c = dict(case)
        c['times'] = case['times'][:i] + case['times'][i + 1:]
        c['clusters'] = case['clusters'][:i] + case['clusters'][i + 1:]
        if c.get('subset') is not None:
            c['subset'] = [x if x < i else x - 1 for x in case['subset'] if x != i]
        yield c
    if len(case['req']) > 1:
        for i in range(len(case['req'])):
            c = dict(case); c['req'] = case['req'][:i] + case['req'][i + 1:]
            yield c
    if len(case['bounds']) > 2:
        c = dict(case); c['bounds'] = case['bounds'][:-1]
        yield c
    if case.get('subset') is not None:
        c = dict(case); c['subset'] = None
        yield c
    for i in range(len(case.get('pre', []))):
        c = dict(case); c['pre'] = case['pre'][:i] + case['pre'][i + 1:]
        yield c


def gen(tier, rng):
    q = tier == 'quick'
    # exhaustive tiny: grids of <= 4 bounds on {0,2,4,6}, <= 4 spikes on 0..6
    grids = [list(g) for k in (2, 3, 4) for g in itertools.combinations([0, 2, 4, 6], k)]
    k = 0
    for bounds in grids:
        for ns in range(0, 4 if q else 5):
            for times in itertools.combinations_with_replacement(range(0, 7), ns):
                for nk in (1, 2, 3):
                    k += 1
                    if q and k % 3:
                        continue
                    clusters = [(i + k) % 2 for i in range(ns)]
                    yield dict(p=PID, times=list(times), clusters=clusters, bounds=bounds, n_kept=nk,
                               count=[None, 1, 0, 2][k % 4], req=[[0, 1], [1], [5, 0, 0], [1, 0]][k % 4],
                               subset_chunks=bool(k % 5 != 0), subset=None, rs=k)
    for j in range(6 if q else 60):
        ns = rng.randrange(260, 600)
        bounds = sorted(rng.sample(range(0, 1000), rng.randrange(2, 9)))
        times = sorted(rng.randrange(0, 1000) for _ in range(ns))
        clusters = [rng.randrange(0, 4) for _ in range(ns)]
        yield dict(p=PID, times=times, clusters=clusters, bounds=bounds, n_kept=rng.randrange(1, 7),
                   count=rng.pick([None, 0, 3, 500]), req=[rng.randrange(0, 5) for _ in range(rng.randrange(1, 4))],
                   subset_chunks=rng.random() < .6, subset=None, tdtype='int64', rs=j,
                   scdtype=['uint8', 'int8', 'uint8'][j % 3])
    for _ in range(12000 if q else 300000):
        nb = rng.randrange(2, 9)
        bounds = sorted(rng.sample(range(0, 31), nb))
        ns = rng.randrange(0, 26)
        times = sorted(rng.pick([rng.randrange(0, 31), rng.pick(bounds)]) for _ in range(ns))
        ids = rng.sample(range(0, 9), rng.randrange(1, 4))
        clusters = [rng.pick(ids) for _ in range(ns)]
        req = [rng.pick(ids + [11, 12]) for _ in range(rng.randrange(0, 5))]
        c = dict(p=PID, times=times, clusters=clusters, bounds=bounds, n_kept=rng.randrange(1, 7),
                 count=rng.pick([None, 0, -1, 1, 2, 5, 100]), req=req, subset_chunks=rng.random() < .7,
                 subset=None, tdtype=rng.pick(['int64', 'uint64', 'float64']), rs=rng.randrange(10 ** 6),
                 countkind=rng.pick(['py', 'py', 'int64', 'int32', 'intp']), reqkind=rng.pick(['list', 'list', 'tuple', 'array']))
        c['scdtype'] = rng.pick(['int64', 'int64', 'int32', 'uint16', 'uint8', 'int8'])
        if rng.random() < .4 and ns:
            c['subset'] = sorted(rng.sample(range(ns), rng.randrange(0, ns + 1)))
            if rng.random() < .3 and c['subset']:
                # a subset given with repeated ids, in any order (e.g. two selections concatenated)
                c['subset'] = c['subset'] + [rng.pick(c['subset']) for _ in range(rng.randrange(1, 4))]
                rng.shuffle(c['subset'])
        if rng.random() < .35:
            # fractional chunk grid (bounds in units of 1/g) with whole-number spike times
            g = rng.pick([2, 4])
            c['gscale'] = g
            c['bounds'] = sorted(rng.sample(range(0, 31 * g), nb))
            c['times'] = sorted(rng.pick([rng.randrange(0, 31), rng.pick(c['bounds']) // g]) for _ in range(ns))
        if rng.random() < .3:
            c['boundskind'] = 'array'
        if rng.random() < .15:
            # long grids with many kept chunks (the model keeps 20 chunks out of hundreds)
            nb2 = rng.randrange(9, 60)
            g = c.get('gscale', 1)
            c['bounds'] = sorted(rng.sample(range(0, 31 * g * 4), nb2))
            c['n_kept'] = rng.randrange(1, 25)
            c['times'] = sorted(rng.pick([rng.randrange(0, 31 * 4), rng.pick(c['bounds']) // g]) for _ in range(ns))
        if rng.random() < .06:
            # very long grids (hundreds of chunks, as a real recording has) with the number of kept chunks given as a
            # narrow NumPy integer
            nb2 = rng.pick([rng.randrange(100, 131), rng.randrange(230, 258), rng.randrange(60, 300)])
            g = c.get('gscale', 1)
            c['bounds'] = sorted(rng.sample(range(0, 400 * g), nb2))
            c['n_kept'] = rng.pick([20, rng.randrange(1, 100)])
            c['nkeptkind'] = rng.pick(['int8', 'uint8', 'int16', 'py'])
            c['times'] = sorted(rng.pick([rng.randrange(0, 400), rng.pick(c['bounds']) // g]) for _ in range(ns))
        if rng.random() < .25 and ns > 1:
            # spike times that are not in increasing order of spike id (e.g. stored shank after shank): the property
            # quantifies over all spike-time vectors and the chunk test is per spike
            k = rng.randrange(1, ns)
            c['times'] = c['times'][k:] + c['times'][:k] if rng.random() < .5 else rng.sample(c['times'], ns)
        if c.get('subset') is not None:
            # the subset as the caller may hold it: list / tuple (test_array.py passes a list), other integer dtypes; with
            # ids beyond the last spike (a subset computed for a longer recording)
            c['subsetkind'] = rng.pick(['int64', 'int64', 'list', 'tuple', 'int32', 'uint64', 'uint32'])
            if rng.random() < .25:
                c['subset'] = c['subset'] + [ns + rng.randrange(0, 6) for _ in range(rng.randrange(1, 3))]
        c['spckind'] = rng.pick(['int64', 'int64', 'int64', 'int32', 'uint32', 'intp'])
        if rng.random() < .35 and 'gscale' not in c:
            # negative / fractional times and bounds: the time axis through a strictly increasing map
            scale = rng.pick([1, 1, 0.25, 0.5, 1.1, 1e-3, 30000.0, 1 / 3.])
            c['tmap'] = [rng.pick([0, 7, 40, 500, -3]), scale]
            c['tdtype'] = (rng.pick(['int64', 'int32', 'int16', 'float64']) if scale == 1 else
                           rng.pick(['float64', 'float64', 'float32']) if scale in (0.25, 0.5) else 'float64')
        if rng.random() < .3 and ns:
            c['pre'] = []
            for _ in range(rng.randrange(1, 3)):
                sub = rng.pick([None, sorted(rng.sample(range(ns), rng.randrange(0, ns + 1)))])
                c['pre'].append(dict(count=rng.pick([None, 1, 2, 100]), req=rng.pick([req, ids, list(reversed(req))]),
                                     subset_chunks=rng.pick([True, False, c['subset_chunks']]), subset=sub))
        yield c
