"""C14 — exported ALF values equal the physical quantities they name (DESIGN.md §5 C14)."""
import numpy as np
from . import common as C
from . import dense_common as DC
from . import merge_common as M
from . import alf_common as A

PID = 'C14'
PARALLEL = True
BATCH = 60
BUDGET_S = {'quick': 90, 'thorough': 1500}
RULE = ('single dense datasets (with/without features, curated or not, ids without spikes, unit factors 1 and '
        '2.5, neighbourhood sizes smaller and larger than the probe, 1..2 probes in the probe table, distance '
        'ties) and datasets merged from 1..4 probes with permuted channel maps, each converted with the real '
        'EphysAlfCreator. non-trivial = every case; merged cases with >= 3 probes are forced first')
ASSUMPTIONS = ['amplitude chain / durations / feature depths are the exact-arithmetic C09 model; float32 outputs compared '
               'with relative tolerance 1e-6, float64 multi-step chains with 1e-9',
               'argsort ties in channel distance are a relation: the Lean executable decides the nearest-channel '
               'predicate on the real rows']


def impl(case):
    return A.run_export(case)


def _arr(ok, stem, label):
    name = stem + ('.%s' % label if label else '') + '.npy'
    return ok['arrays'].get(name)


def model_query(case, impl_res):
    if 'ok' not in impl_res:
        return dict(p=PID, op='rawind', maps=[[0, 1]])
    ok = impl_res['ok']
    sm = ok['src_model']
    label = case.get('label', '')
    qs = []
    if case.get('probes'):
        qs.append(dict(p=PID, op='rawind', maps=[p['channel_map'] for p in case['probes']]))
    else:
        qs.append(dict(p=PID, op='rawind_direct', cm=sm['channel_mapping'], probes=sm['channel_probes']))
    ncw = min(sm['n_closest'], sm['n_channels'])
    pos = DC.fracs(sm['channel_positions'])
    tch = _arr(ok, 'templates.waveformsChannels', '')      # not labelled (np.save appends .npy after rename?) -> resolved in judge
    for fam, peaks in (('templates', sm['templates_channels']), ('clusters', sm['clusters_channels'])):
        rows = _find(ok, fam + '.waveformsChannels', label)
        qs.append(dict(p=PID, op='nearest', positions=pos, probes=sm['channel_probes'], peaks=peaks, ncw=ncw,
                       impl=rows['vals'] if rows else None))
    amps = DC.fracs(sm['amplitudes'])
    wmi = DC.fracs(sm['wmi'])
    qs.append(dict(p='C09', op='amps', wfs=DC.fracs(sm['templates']), wmi=wmi, amplitudes=amps, spikes=sm['spike_templates']))
    qs.append(dict(p='C09', op='amps', wfs=DC.fracs(sm['clusters_wfs']), wmi=wmi, amplitudes=amps, spikes=sm['spike_clusters']))
    qs.append(dict(p='C09', op='channels', wfs=DC.fracs(sm['clusters_wfs'])))
    qs.append(dict(p=PID, op='depths', ys=DC.fracs([p[1] for p in sm['channel_positions']]), peaks=sm['clusters_channels'],
                   nan_idx=sm['nan_idx'], spike_clusters=sm['spike_clusters']))
    spec = case.get('spec')
    if spec is not None:
        # cluster waveforms of the source model against the C08 model (curated datasets)
        st8 = spec['spike_templates']
        qs.append(dict(p='C08', op='clusters', W=DC.fracs(spec['templates']), chans=sm['chans_w'], st=st8,
                       sc=spec.get('spike_clusters') or st8, ns=len(spec['templates'][0]), nc=spec['n_channels']))
    if spec is not None and spec.get('pc_features') is not None and sm.get('has_features'):
        # feature-weighted spike depths from the C09 model, on the stored feature arrays
        qs.append(dict(p='C09', op='depths', feat0=DC.fracs([[row for row in f[0]] for f in spec['pc_features']]),
                       cols=spec['pc_feature_ind'], ys=DC.fracs([p[1] for p in spec['channel_positions']]),
                       spike_templates=spec['spike_templates']))
    return dict(p=PID, op='multi', qs=qs)


def _find(ok, stem, label):
    for name in (stem + ('.%s' % label if label else '') + '.npy', stem + '.npy'):
        if name in ok['arrays']:
            return ok['arrays'][name]
    return None


def _close(a, b, tol):
    a = np.array([[np.nan if x is None else x for x in np.ravel(a)]], dtype=np.float64)
    b = np.array([[np.nan if x is None else x for x in np.ravel(b)]], dtype=np.float64)
    return a.shape == b.shape and np.allclose(a, b, rtol=tol, atol=tol, equal_nan=True)


def judge(case, impl_res, ans):
    if 'err' in ans:
        return 'MACHINERY: driver error %s' % ans['err']
    if 'raised' in impl_res:
        return 'SPEC: ALF conversion raised %s (%s) at %s on an in-domain dataset' % (
            impl_res['raised'], impl_res['msg'], impl_res['where'])
    ok = impl_res['ok']
    sm = ok['src_model']
    res = ans['ok']['res']
    label = case.get('label', '')
    f = case.get('factor', 1)
    # 1. raw channel indices
    raw = _find(ok, 'channels.rawInd', label)
    if raw is None:
        return 'SPEC: channels.rawInd missing'
    if case.get('probes'):
        if res[0]['model'] != res[0]['spec']:
            return 'MACHINERY: Lean rawInd model differs from its spec (contradicts the theorem)'
        if raw['vals'] != res[0]['spec']:
            return 'SPEC: channels.rawInd %s does not give back each probe\'s original channel map %s' % (raw['vals'], res[0]['spec'])
    elif raw['vals'] != res[0]['model']:
        return 'CORR: channels.rawInd differs from the model'
    # 2. listed channels
    for i, fam in ((1, 'templates'), (2, 'clusters')):
        if res[i]['model_spec'] is not True:
            return 'MACHINERY: model channel rows rejected by their own spec'
        if res[i]['impl_spec'] is not True:
            return 'SPEC: %s.waveformsChannels are not the nearest same-probe channels, peak first' % fam
    if case.get('probes'):
        # merged datasets carry large token values whose float32 template storage is not exact: only the
        # index bookkeeping (raw indices, listed channels) and the geometry are claimed on them
        exp_pos, xoff = [], 0.
        for pr in case['probes']:
            xs = [xy[0] + xoff for xy in pr['channel_positions']]
            exp_pos += [[x, xy[1]] for x, xy in zip(xs, pr['channel_positions'])]
            xoff = 2. * max(xs) - min(xs)
        lc = _find(ok, 'channels.localCoordinates', label)
        if sm['channel_positions'] != exp_pos or lc is None or lc['vals'] != exp_pos:
            return ('SPEC: channel positions of the merged source / of the export are not the probes\' positions translated '
                    'along x (depths are read from them): %s vs %s' % ((lc or {}).get('vals'), exp_pos))
        return None
    # 2a. the source arrays are the stored ones (templates, amplitudes, assignments as written to disk)
    spec_ = case.get('spec')
    if spec_ is not None:
        if sm['templates'] != np.asarray(spec_['templates'], dtype=np.float32).astype(np.float64).tolist():
            return 'SPEC: the template waveforms of the source model differ from the stored templates.npy'
        if sm['amplitudes'] != [float(x) for x in spec_['amplitudes']] or sm['spike_templates'] != list(spec_['spike_templates']) or \
                sm['spike_clusters'] != list(spec_.get('spike_clusters') or spec_['spike_templates']):
            return 'SPEC: amplitudes / assignments of the source model differ from the stored arrays'
    # 2b. the cluster waveforms everything below is derived from (C08): count-weighted means of the
    # templates on the dominant template's channels when the dataset is curated
    if len(res) > 7 and 'data' in res[7] and sm['spike_clusters'] != sm['spike_templates']:
        exp_cw = [[[DC.to_float(x) for x in row] for row in M] for M in res[7]['data']]
        if sm['clusters_wfs'] != exp_cw:
            return 'SPEC: cluster waveforms of the source are not the count-weighted template means on the dominant template\'s channels'
    # 3. waveforms and amplitudes
    for i, fam, n in ((3, 'templates', sm['n_templates']), (4, 'clusters', sm['n_clusters'])):
        m = res[i]
        wf = _find(ok, fam + '.waveforms', label)
        chs = _find(ok, fam + '.waveformsChannels', label)
        amps = _find(ok, fam + '.amps', label)
        exp_amps = [None if x is None else DC.to_float(x) * f for x in m['amps_v']]
        if amps is None or not _close(amps['vals'], exp_amps, 1e-9):
            return 'SPEC: %s.amps %s differ from the mean scaled spike amplitude x factor %s' % (fam, amps and amps['vals'], exp_amps)
        if wf is None or wf['shape'][0] != n:
            return 'SPEC: %s.waveforms has %s rows for %d ids' % (fam, wf and wf['shape'], n)
        for t in range(n):
            R = m['rescaled'][t]
            if R is None:
                continue
            Rf = np.array([[DC.to_float(x) for x in row] for row in R]) * f
            exp = Rf[:, chs['vals'][t]]
            if not _close(wf['vals'][t], exp.tolist(), 1e-6):
                return 'SPEC: %s.waveforms[%d] is not the unwhitened, amplitude-rescaled waveform on its listed channels' % (fam, t)
    sa = _find(ok, 'spikes.amps', label)
    exp_sa = [DC.to_float(x) * f for x in res[3]['spike_amps']]
    if sa is None or not _close(sa['vals'], exp_sa, 1e-6):
        return 'SPEC: spikes.amps do not carry amplitude x template peak-to-peak x factor'
    # 4. durations, peak channels, depths
    cc = _find(ok, 'clusters.channels', label)
    if cc is None or cc['vals'] != res[5]['peak']:
        curated = sm['spike_clusters'] != sm['spike_templates']
        if not curated:
            return 'SPEC: clusters.channels %s are not the peak channels %s' % (cc and cc['vals'], res[5]['peak'])
    ptt = _find(ok, 'clusters.peakToTrough', label)
    exp_d = [None if c in sm['nan_idx'] else float(x) / sm['sample_rate'] * 1e3 for c, x in enumerate(res[5]['durations'])]
    if ptt is None or (not _close(ptt['vals'], exp_d, 1e-9) and sm['spike_clusters'] == sm['spike_templates']):
        return 'SPEC: clusters.peakToTrough %s differ from peak-to-trough durations in ms %s' % (ptt and ptt['vals'], exp_d)
    # curated clusters: the same two tables recomputed in floating point from the cluster waveforms the
    # source model shows (weighted means; the exact-rational model is used for un-curated data only)
    W = np.array(sm['clusters_wfs'], dtype=np.float64)
    if W.size and cc is not None and ptt is not None:
        pk = (W.max(axis=1) - W.min(axis=1)).argmax(axis=1)
        if cc['vals'] != pk.tolist():
            return 'SPEC: clusters.channels %s are not the peak channels of the cluster waveforms %s' % (cc['vals'], pk.tolist())
        dur = (W.argmax(axis=1) - W.argmin(axis=1))[np.arange(len(W)), pk].astype(np.float64) / sm['sample_rate'] * 1e3
        exp_d2 = [None if c in sm['nan_idx'] else float(x) for c, x in enumerate(dur)]
        if not _close(ptt['vals'], exp_d2, 1e-9):
            return 'SPEC: clusters.peakToTrough %s differ from the peak-to-trough durations of the cluster waveforms %s' % (ptt['vals'], exp_d2)
    cd = _find(ok, 'clusters.depths', label)
    exp_cd = [DC.to_float(x) for x in res[6]['cluster_depths']]
    if cd is None or not _close(cd['vals'], exp_cd, 1e-12):
        return 'SPEC: clusters.depths %s are not the depths of the peak channels (NaN without spikes) %s' % (cd and cd['vals'], exp_cd)
    sd = _find(ok, 'spikes.depths', label)
    if not sm['has_features']:
        exp_sd = [DC.to_float(x) for x in res[6]['spike_depths']]
        if sd is None or not _close(sd['vals'], exp_sd, 1e-6):
            return 'SPEC: spikes.depths (no features) are not the cluster depths'
    elif sd is None or sd['shape'] != [len(sm['spike_clusters'])]:
        return 'SPEC: spikes.depths shape'
    elif sm.get('depths') is not None and not _close(sd['vals'], sm['depths'], 1e-6):
        return 'SPEC: spikes.depths differ from the feature-weighted depths of the source model (C09)'
    elif len(res) > 8 and 'model' in res[8]:
        exp_fd = [DC.to_float(x) for x in res[8]['model']]
        if not _close(sd['vals'], exp_fd, 1e-6):
            return 'SPEC: spikes.depths differ from the feature-weighted channel depths (NaN where no positive weight)'
    return None


def nontrivial(case):
    return True


def tally(rep, case, impl_res, ans):
    if case.get('spec'):
        rep.count('positions_dtype:' + (case['spec'].get('dtypes') or {}).get('channel_positions', 'float64'))
    if case.get('probes'):
        rep.count('merged_probes:%d' % len(case['probes']))
        if any(sorted(p['channel_map']) != list(range(len(p['channel_map']))) for p in case['probes']):
            rep.count('merged_with_gapped_maps')
    else:
        rep.count('single_dataset')
        rep.count('features:%s' % (case['spec'].get('pc_features') is not None))
    rep.count('factor:%s' % case.get('factor', 1))
    rep.count('label:%s' % bool(case.get('label')))


def classify(case, impl_res, ans, why):
    return dict(kind=why.split(':')[0], what=why.split(':')[1].strip()[:40], merged=bool(case.get('probes')),
                nprobes_ge3=len(case.get('probes', [])) >= 3, raised=impl_res.get('raised'), where=impl_res.get('where'))


def shrink(case):
    if case.get('probes') and len(case['probes']) > 1:
        P = case['probes']
        for i in range(len(P)):
            yield dict(case, probes=P[:i] + P[i + 1:])


def gen(tier, rng):
    q = tier == 'quick'
    for ncs in ((4, 6, 5), (2, 3, 5, 2), (3, 3)):
        probes = [M.probe_spec(rng, k, nc=nc, nt=2 + k % 2, tdtype='uint64', idtype='uint32') for k, nc in enumerate(ncs)]
        yield dict(p=PID, probes=probes, factor=1)
    for i in range(90 if q else 2000):
        if i % 3 == 0:
            # every other merged case uses channel maps with holes (dead channels): the raw-index inversion
            # is claimed for arbitrary maps
            c = M.merge_case(rng, nprobes=[1, 2, 3, 4][i % 4], gapped=(i % 2 == 0))
            for pr in c['probes']:
                # every probe gets two distinct x coordinates (single-column probes are C12's open finding)
                if len({xy[0] for xy in pr['channel_positions']}) == 1:
                    pr['channel_positions'][0][0] += 50.
            yield dict(p=PID, probes=c['probes'], dirnames=c['dirnames'], factor=[1, 2.5][i % 2], n_closest=rng.pick([2, 3, 12]))
        else:
            spec = DC.dense_spec(rng, raw=(i % 4 == 1), feats=(i % 2 == 0), probes=(i % 5 == 0), empty=['none', 'last', 'middle'][i % 3],
                                 cmap=['random', 'identity'][i % 2])
            if i % 3 == 1:     # probe coordinates stored as integers
                spec['dtypes'] = dict(spec.get('dtypes') or {}, channel_positions=['int32', 'uint32', 'int64', 'uint16'][(i // 3) % 4])
            yield dict(p=PID, spec=spec, factor=[1, 2.5][i % 2], label=['', 'probe00'][i % 7 == 0], n_closest=rng.pick([2, 3, 12]), reexport=(i % 4 == 1 and i % 7 != 0),
                       rs=i)
