"""C14 — exported ALF values equal the physical quantities they name (DESIGN.md §5 C14)."""
import numpy as np
from . import common as C
from . import dense_common as DC
from . import merge_common as M
from . import alf_common as A

PID = 'C14'
PARALLEL = True
BATCH = 60
BUDGET_S = {'quick': 90, 'thorough': 1500}
RULE = ('single dense datasets (with/without features, curated or not, ids without spikes, unit factors 1 and '
        '2.5, two conversions by one creator object with different unit factors (incl. 2.34375e-06 x 2^k), neighbourhood sizes smaller and larger than the probe, 1..2 probes in the probe table, distance '
        'ties; permuted channel maps whose probe labels follow the map: channels.rawInd judged against the closed form raw - (largest raw '
        'index of the previous probe + 1)) and datasets merged from 1..4 probes with permuted channel maps and EXACTLY REPRESENTABLE '
        'value tokens per probe (integer template samples with a per-probe peak value, dyadic amplitudes, power-of-two diagonal whitening): '
        'waveforms, amplitudes, depths and durations of merged sources are judged like those of single datasets; a label on about a third '
        'of all exports (single, merged, two-exports); LONG RECORDINGS: narrow, short single datasets whose spike count lies beside a '
        'multiple of the 50000-spike batch of get_depths (one more than a batch in every run [corpus], one of batch-1 .. batch+2 per quick run, '
        'all neighbours of 1 and 2 batches in the thorough tier; with features: every spike of spikes.depths against the Lean '
        'feature-weighted depth, without (thorough tier): against the cluster depth; spikes.amps and every other file judged as usual; the case '
        'stores a small spec + the spike count, expanded identically for the real export and the model); each converted with the real '
        'EphysAlfCreator. non-trivial = every case; merged cases with >= 3 probes are forced first')
ASSUMPTIONS = ['amplitude chain / durations / feature depths are the exact-arithmetic C09 model; float32 outputs compared '
               'with relative tolerance 1e-6, float64 multi-step chains with 1e-9',
               'argsort ties in channel distance are a relation: the Lean executable decides the nearest-channel '
               'predicate on the real rows']


# get_depths (model.py:1120), the source of spikes.depths when every spike has a feature row, works through the spikes
# in batches of this many: recordings whose spike count lies beside a multiple of it are generated (`long_recording`)
DEPTH_BATCH = 50000


def _expand(case):
    """`long: {n_spikes: N}` stands for a LONG RECORDING of N spikes (tens of thousands: more than one internal batch
    of get_depths): the per-spike arrays of the small `spec` (templates, amplitudes, assignments, feature rows) are
    repeated with a drifting phase up to N spikes, the spike samples strictly increase. The case itself (corpus file,
    replay, digest) stays small; every consumer (real export, model query, judge, tally) sees the same expanded spec."""
    lg = case.get('long')
    if not lg or case.get('_expanded'):
        return case
    spec = case['spec']
    n0, n = len(spec['spike_templates']), int(lg['n_spikes'])
    idx = [(i + i // 997) % n0 for i in range(n)]
    out = dict(spec)
    for k in ('spike_templates', 'spike_clusters', 'amplitudes', 'pc_features'):
        if spec.get(k) is not None:
            out[k] = [spec[k][j] for j in idx]
    out['spike_samples'] = [3 * i + (i % 2) for i in range(n)]
    return dict(case, spec=out, _expanded=True)


def impl(case):
    case = _expand(case)
    if case.get('twice'):
        return _run_twice(case)
    return A.run_export(case)


def _run_twice(case):
    """ONE EphysAlfCreator object used for two conversions in a row with DIFFERENT unit factors
    (`factor_first`, then `factor`): `arrays_first` / `arrays` hold the files of the first / second output
    directory. Every amplitude-carrying file of the SECOND export must carry the second factor."""
    from phylib.io.alf import EphysAlfCreator
    from phylib.io.model import load_model
    from . import dataset as D
    with C.scratch_dir() as d:
        src = d / 'src'
        params = D.write_dataset(src, case['spec'])
        load_model(params).close()       # creates spike_clusters.npy / whitening_mat_inv.npy when missing (C04)
        m = load_model(params)
        res = {}
        outs = []
        try:
            chans_w_at_load = [[int(c) for c in m.get_template(t, unwhiten=False).channel_ids]
                               for t in range(int(m.n_templates))]
            if case.get('n_closest'):
                m.n_closest_channels = case['n_closest']
            res['src_model'] = dict(
                spike_clusters=[int(x) for x in m.spike_clusters], spike_templates=[int(x) for x in m.spike_templates],
                channel_mapping=[int(x) for x in m.channel_mapping], channel_positions=np.asarray(m.channel_positions).tolist(),
                channel_probes=[int(x) for x in m.channel_probes], n_templates=int(m.n_templates), n_clusters=int(m.n_clusters),
                n_channels=int(m.n_channels),
                clusters_channels=[int(x) for x in m.clusters_channels], templates_channels=[int(x) for x in m.templates_channels],
                wmi=np.asarray(m.wmi, dtype=np.float64).tolist(),
                templates=np.asarray(m.sparse_templates.data, dtype=np.float64).tolist(),
                clusters_wfs=np.asarray(m.sparse_clusters.data, dtype=np.float64).tolist(),
                amplitudes=[float(x) for x in m.amplitudes], has_features=m.sparse_features is not None,
                sample_rate=float(m.sample_rate), n_closest=int(m.n_closest_channels), chans_w=chans_w_at_load)
            if m.sparse_features is not None:
                dep = m.get_depths()
                res['src_model']['depths'] = None if dep is None else [None if np.isnan(x) else float(x) for x in dep]
            creator = EphysAlfCreator(m)
            for k, f in enumerate((case['factor_first'], case['factor'])):
                out = d / ('alf%d' % k)
                np.random.seed(case.get('rs', 0))
                m2 = creator.convert(out, label=case.get('label', ''), ampfactor=f)
                if m2 is not None:
                    m2.close()
                outs.append(out)
        finally:
            m.close()
        res['arrays_first'] = {p.name: A._npy(p) for p in outs[0].iterdir() if p.suffix == '.npy'}
        res['arrays'] = {p.name: A._npy(p) for p in outs[1].iterdir() if p.suffix == '.npy'}
    return res


def _arr(ok, stem, label):
    name = stem + ('.%s' % label if label else '') + '.npy'
    return ok['arrays'].get(name)


def model_query(case, impl_res):
    if 'ok' not in impl_res:
        return dict(p=PID, op='rawind', maps=[[0, 1]])
    case = _expand(case)
    ok = impl_res['ok']
    sm = ok['src_model']
    label = case.get('label', '')
    qs = []
    if case.get('probes'):
        qs.append(dict(p=PID, op='rawind', maps=[p['channel_map'] for p in case['probes']]))
    else:
        qs.append(dict(p=PID, op='rawind_direct', cm=sm['channel_mapping'], probes=sm['channel_probes']))
    ncw = min(sm['n_closest'], sm['n_channels'])
    pos = DC.fracs(sm['channel_positions'])
    for fam, peaks in (('templates', sm['templates_channels']), ('clusters', sm['clusters_channels'])):
        rows = _find(ok, fam + '.waveformsChannels', label)
        q = dict(p=PID, op='nearest', positions=pos, probes=sm['channel_probes'], peaks=peaks, ncw=ncw,
                 impl=rows['vals'] if rows else None)
        # the stored waveforms where they are exact rationals (templates; cluster waveforms of an un-curated dataset ARE
        # the templates; not the large float32 tokens of replayed merged cases): the Lean export model
        # `exportListedChannels` computes the table from ITS OWN peak channels and judges the real rows against those
        exact = not (case.get('probes') and not case.get('exact_tokens'))
        if exact and (fam == 'templates' or sm['spike_clusters'] == sm['spike_templates']):
            q['wfs'] = DC.fracs(sm['templates'] if fam == 'templates' else sm['clusters_wfs'])
        qs.append(q)
    if case.get('probes') and not case.get('exact_tokens'):
        # merged datasets with the LARGE tokens of merge_common (replayed older corpus cases): only the index bookkeeping
        # and the geometry are judged (see judge); generated merged cases carry exactly representable tokens
        return dict(p=PID, op='multi', qs=qs)
    amps = DC.fracs(sm['amplitudes'])
    wmi = DC.fracs(sm['wmi'])
    rows_t = _find(ok, 'templates.waveformsChannels', label)
    rows_c = _find(ok, 'clusters.waveformsChannels', label)
    # value side of the export in ONE model call: both get_amplitudes_true calls WITH the unit factor (exact rational)
    # and the gather of the listed channels; nothing is multiplied or gathered on the Python side
    qs.append(dict(p=PID, op='amp_files', templates=DC.fracs(sm['templates']), clusters_wfs=DC.fracs(sm['clusters_wfs']),
                   wmi=wmi, amplitudes=amps, spike_templates=sm['spike_templates'], spike_clusters=sm['spike_clusters'],
                   factor=DC.frac(case.get('factor', 1)),
                   impl_inds_t=rows_t['vals'] if rows_t else [], impl_inds_c=rows_c['vals'] if rows_c else []))
    # clusters.channels / clusters.peakToTrough (ms; NaN for the ids without spikes of a CURATED dataset, i.e. model.nan_idx,
    # which the Lean side COMPUTES with the C08 model from the stored assignments); the sampling rate is the STORED one.
    # clusters.depths: NaN for every id without spikes, curated or not (Lean `spikelessIds` on the stored assignment)
    rate = (case.get('spec') or {}).get('sample_rate', sm['sample_rate'])
    spec = case.get('spec')
    st_ = list(spec['spike_templates']) if spec is not None else sm['spike_templates']
    sc_ = list(spec.get('spike_clusters') or spec['spike_templates']) if spec is not None else sm['spike_clusters']
    qs.append(dict(p=PID, op='ptt', wfs=DC.fracs(sm['clusters_wfs']), rate=DC.frac(rate), spike_clusters=sc_, spike_templates=st_))
    # make_depths: the peak-channel table is the EXPORTED clusters.channels (the code reads it back from the output
    # directory; judged in step 4); the features, when the dataset stores any, are the stored arrays - a table with
    # fewer rows than spikes (pc_feature_spike_ids layout) makes get_depths() None -> cluster depths
    cc_ = _find(ok, 'clusters.channels', label)
    dq = dict(p=PID, op='depths', ys=DC.fracs([p[1] for p in sm['channel_positions']]),
              peaks=[int(x) for x in cc_['vals']] if cc_ and all(isinstance(x, int) and x >= 0 for x in cc_['vals']) else [],
              spike_clusters=sc_, spike_templates=st_)
    if spec is not None and spec.get('pc_features') is not None:
        dq.update(feat0=DC.fracs([[row for row in f[0]] for f in spec['pc_features']]), cols=spec['pc_feature_ind'])
    qs.append(dq)
    # peak channels of the TEMPLATES (they select the rows of templates.waveformsChannels and are not exported
    # themselves): recomputed by the C09 model from the stored template waveforms
    qs.append(dict(p='C09', op='channels', wfs=DC.fracs(sm['templates']), rate=DC.frac(rate)))
    if spec is not None and not (case.get('long') and sc_ == st_):
        # cluster waveforms of the source model against the C08 model (read by the judge for CURATED datasets only; not
        # asked for a long un-curated recording, where the C08 model walks the spikes once per cluster and template)
        st8 = spec['spike_templates']
        qs.append(dict(p='C08', op='clusters', W=DC.fracs(spec['templates']), chans=sm['chans_w'], st=st8,
                       sc=spec.get('spike_clusters') or st8, ns=len(spec['templates'][0]), nc=spec['n_channels']))
    if case.get('twice'):
        r1t = _find(ok, 'templates.waveformsChannels', label, 'arrays_first')
        r1c = _find(ok, 'clusters.waveformsChannels', label, 'arrays_first')
        qs.append(dict(qs[3], factor=DC.frac(case['factor_first']),
                       impl_inds_t=r1t['vals'] if r1t else [], impl_inds_c=r1c['vals'] if r1c else []))
    return dict(p=PID, op='multi', qs=qs)


def _find(ok, stem, label, table='arrays'):
    for name in (stem + ('.%s' % label if label else '') + '.npy', stem + '.npy'):
        if name in ok[table]:
            return ok[table][name]
    return None


def _close(a, b, tol, scaled=False):
    """`scaled`: the absolute part of the tolerance follows the magnitude of the expected values (unit factors
    such as 2.34375e-06 make every amplitude tiny; an absolute 1e-6 would accept anything there)"""
    a = np.array([[np.nan if x is None else x for x in np.ravel(a)]], dtype=np.float64)
    b = np.array([[np.nan if x is None else x for x in np.ravel(b)]], dtype=np.float64)
    atol = tol
    if scaled:
        fin = np.abs(b[np.isfinite(b)])
        atol = tol * (float(fin.max()) if fin.size and fin.max() > 0 else 1.)
    return a.shape == b.shape and np.allclose(a, b, rtol=tol, atol=atol, equal_nan=True)


def _judge_amp_files(ok, table, e, sm, label, tag):
    """spikes.amps, templates/clusters .amps and .waveforms of one output directory against the files of the Lean
    export model `e` (op amp_files: unit factor applied and listed channels gathered by the model)"""
    for fam, n in (('templates', sm['n_templates']), ('clusters', sm['n_clusters'])):
        wf = _find(ok, fam + '.waveforms', label, table)
        amps = _find(ok, fam + '.amps', label, table)
        exp_amps = [DC.to_float(x) for x in e[fam + '_amps']]
        if amps is None or not _close(amps['vals'], exp_amps, 1e-9, scaled=True):
            return 'SPEC: %s.amps %s differ from the mean scaled spike amplitude x factor %s%s' % (fam, amps and amps['vals'], exp_amps, tag)
        if wf is None or wf['shape'][0] != n or len(e[fam + '_waveforms']) != n:
            return 'SPEC: %s.waveforms has %s rows for %d ids%s' % (fam, wf and wf['shape'], n, tag)
        for t in range(n):
            R = e[fam + '_waveforms'][t]
            if R is None:
                # an id without spikes is exported as NaN on every listed channel (a flat waveform WITH spikes
                # divides by zero: not spoken about)
                if e[fam + '_amps'][t] is None and any(x is not None for x in np.ravel(np.array(wf['vals'][t], dtype=object))):
                    return 'SPEC: %s.waveforms[%d] belongs to an id without spikes but is not NaN%s' % (fam, t, tag)
                continue
            exp = [[DC.to_float(x) for x in row] for row in R]
            if not _close(wf['vals'][t], exp, 1e-6, scaled=True):
                return 'SPEC: %s.waveforms[%d] is not the unwhitened, amplitude-rescaled waveform on its listed channels x factor%s' % (fam, t, tag)
    sa = _find(ok, 'spikes.amps', label, table)
    exp_sa = [DC.to_float(x) for x in e['spikes_amps']]
    if sa is None or not _close(sa['vals'], exp_sa, 1e-6, scaled=True):
        return 'SPEC: spikes.amps do not carry amplitude x template peak-to-peak x factor%s' % tag
    return None


def judge(case, impl_res, ans):
    if 'err' in ans:
        return 'MACHINERY: driver error %s' % ans['err']
    if 'raised' in impl_res:
        return 'SPEC: ALF conversion raised %s (%s) at %s on an in-domain dataset' % (
            impl_res['raised'], impl_res['msg'], impl_res['where'])
    case = _expand(case)
    ok = impl_res['ok']
    sm = ok['src_model']
    res = ans['ok']['res']
    label = case.get('label', '')
    f = case.get('factor', 1)
    # 1. raw channel indices
    raw = _find(ok, 'channels.rawInd', label)
    if raw is None:
        return 'SPEC: channels.rawInd missing'
    if case.get('probes'):
        if res[0]['model'] != res[0]['spec']:
            return 'MACHINERY: Lean rawInd model differs from its spec (contradicts the theorem)'
        if res[0]['ordered'] is not True or res[0]['per_probe'] != res[0]['spec']:
            return ('MACHINERY: a merged probe table is not in channel-map order / its per-probe re-expression is not the '
                    'original maps (contradicts merged_probes_ordered)')
        if raw['vals'] != res[0]['spec']:
            return 'SPEC: channels.rawInd %s does not give back each probe\'s original channel map %s' % (raw['vals'], res[0]['spec'])
    elif res[0]['ordered'] != res[0]['nonneg'] or res[0]['per_probe'] != res[0]['model']:
        return ('MACHINERY: probe table in channel-map order <-> no negative raw index, or model = closed form, does not hold '
                'on the model (contradicts rawInd_nonneg_iff_ordered / rawInd_per_probe)')
    elif res[0]['ordered'] and raw['vals'] != res[0]['per_probe']:
        # judged against the SPEC (closed form in the statement's words), not against the mirror of the loop
        return ('SPEC: channels.rawInd %s is not the raw index re-expressed per probe (raw index - (largest raw index of the '
                'previous probe + 1)) %s; largest raw index per label %s' % (raw['vals'], res[0]['per_probe'], res[0]['probe_max']))
    elif raw['vals'] != res[0]['model']:
        return 'CORR: channels.rawInd differs from the model'
    raw_finding = None
    if not case.get('probes') and not res[0]['ordered']:
        # a SINGLE dataset whose probe labels are not non-decreasing along the channel map (never the output of a merge):
        # the exported per-probe indices are negative. Not accepted: reported (after every other clause was judged) under
        # a narrow class, recorded as an open finding - the statement defines no per-probe index for such a table
        raw_finding = ('SPEC: channels.rawInd %s holds negative raw indices: probe labels %s are not in channel-map order %s '
                       '(single dataset)' % (raw['vals'], sm['channel_probes'], sm['channel_mapping']))
    # 2. listed channels
    for i, fam in ((1, 'templates'), (2, 'clusters')):
        if res[i]['model_spec'] is not True:
            return 'MACHINERY: model channel rows rejected by their own spec'
        if res[i]['impl_spec'] is not True:
            return 'SPEC: %s.waveformsChannels are not the nearest same-probe channels, peak first' % fam
        if res[i].get('listed_spec') is False:
            return 'MACHINERY: rows of exportListedChannels rejected by nearestOK on the model\'s own peak channels (contradicts listed_channels_of_waveform)'
        if res[i].get('listed_impl_spec') is False:
            return ('SPEC: %s.waveformsChannels are not the nearest same-probe channels of the peak channel of the stored '
                    'waveform (model rows %s)' % (fam, res[i].get('listed')))
        if res[i].get('impl_peak_first') is False:
            return 'MACHINERY: rows accepted by nearestOK do not start with the peak channel (contradicts nearestOK_peak_first)'
    if case.get('probes'):
        # geometry of a merged source (depths are read from it)
        exp_pos, xoff = [], 0.
        for pr in case['probes']:
            xs = [xy[0] + xoff for xy in pr['channel_positions']]
            exp_pos += [[x, xy[1]] for x, xy in zip(xs, pr['channel_positions'])]
            xoff = 2. * max(xs) - min(xs)
        lc = _find(ok, 'channels.localCoordinates', label)
        if sm['channel_positions'] != exp_pos or lc is None or lc['vals'] != exp_pos:
            return ('SPEC: channel positions of the merged source / of the export are not the probes\' positions translated '
                    'along x (depths are read from them): %s vs %s' % ((lc or {}).get('vals'), exp_pos))
        if not case.get('exact_tokens'):
            # large merge_common tokens (float32 template storage not exact): index bookkeeping and geometry only
            return None
        # exactly representable tokens per probe (see `_exact_tokens`): the VALUES of the merged source are judged below
        # like those of a single dataset. Its arrays are those of the loaded merged model (that the merge itself is right
        # is C11/C12's); what IS checked here: the inverse whitening matrix is the exact block-diagonal inverse of the
        # probes' matrices, and the stored amplitudes are the probes' amplitudes
        n_all = sum(pr['n_channels'] for pr in case['probes'])
        exp_wmi = [[0.] * n_all for _ in range(n_all)]
        o = 0
        for pr in case['probes']:
            for c in range(pr['n_channels']):
                # (a whitening matrix missing in ONE probe: the merge writes none at all, C12 -> identity)
                exp_wmi[o + c][o + c] = 1. / pr['whitening'][c][c] if all(q.get('whitening') for q in case['probes']) else 1.
            o += pr['n_channels']
        if sm['wmi'] != exp_wmi:
            return "SPEC: the inverse whitening matrix of the merged source %s is not the block-diagonal inverse of the probes' matrices %s" % (sm['wmi'], exp_wmi)
        if sorted(sm['amplitudes']) != sorted(a for pr in case['probes'] for a in pr['amplitudes']):
            return "SPEC: the amplitudes of the merged source are not the probes' stored amplitudes"
    # 2a. the source arrays are the stored ones (templates, amplitudes, assignments as written to disk)
    spec_ = case.get('spec')
    if spec_ is not None:
        # the inverse whitening matrix the export unwhitens with is the stored inverse / an inverse of the stored matrix
        bad = DC.check_wmi(spec_, sm['wmi'])
        if bad:
            return 'SPEC: ' + bad
        if sm['templates'] != np.asarray(spec_['templates'], dtype=np.float32).astype(np.float64).tolist():
            return 'SPEC: the template waveforms of the source model differ from the stored templates.npy'
        if sm['amplitudes'] != [float(x) for x in spec_['amplitudes']] or sm['spike_templates'] != list(spec_['spike_templates']) or \
                sm['spike_clusters'] != list(spec_.get('spike_clusters') or spec_['spike_templates']):
            return 'SPEC: amplitudes / assignments of the source model differ from the stored arrays'
    # 2b. the cluster waveforms everything below is derived from (C08): count-weighted means of the
    # templates on the dominant template's channels when the dataset is curated
    I_AMP, I_PTT, I_DEP, I_TPK, I_C08 = 3, 4, 5, 6, 7
    curated = sm['spike_clusters'] != sm['spike_templates']
    if len(res) > I_C08 and 'data' in res[I_C08] and curated:
        exp_cw = [[[DC.to_float(x) for x in row] for row in M] for M in res[I_C08]['data']]
        if sm['clusters_wfs'] != exp_cw:
            return 'SPEC: cluster waveforms of the source are not the count-weighted template means on the dominant template\'s channels'
    if not curated and (sm['clusters_wfs'] != sm['templates'] or sm['n_clusters'] != sm['n_templates']):
        return 'SPEC: nothing was curated but the cluster waveforms of the source are not the template waveforms (one cluster per template)'
    if sm['templates_channels'] != res[I_TPK]['peak']:
        return 'SPEC: the peak channels %s that select the listed channels of the templates are not the peak channels of the stored templates %s' % (
            sm['templates_channels'], res[I_TPK]['peak'])
    # 3. waveforms and amplitudes: the files of the Lean export model (unit factor included)
    bad = _judge_amp_files(ok, 'arrays', res[I_AMP], sm, label, '')
    if bad:
        return bad
    if case.get('twice'):
        # the same creator object had written a first export with another factor: that one carries the FIRST factor
        # (and the second export, judged above and below with the same Lean computation, the SECOND)
        bad = _judge_amp_files(ok, 'arrays_first', res[-1], sm, label, ' (first of two exports by one creator)')
        if bad:
            return bad
    # 4. durations, peak channels, depths
    pm = res[I_PTT]
    cc = _find(ok, 'clusters.channels', label)
    ptt = _find(ok, 'clusters.peakToTrough', label)
    ncl = len(pm['peak'])
    if cc is None or len(cc['vals']) != ncl:
        return 'SPEC: clusters.channels %s missing or not one entry per cluster (%d)' % (cc and cc['vals'], ncl)
    if ptt is None or len(ptt['vals']) != ncl:
        return 'SPEC: clusters.peakToTrough %s missing or not one entry per cluster (%d)' % (ptt and ptt['vals'], ncl)
    if not curated:
        # exact-arithmetic domain (cluster waveforms = stored templates)
        if cc['vals'] != pm['peak']:
            return 'SPEC: clusters.channels %s are not the peak channels %s' % (cc['vals'], pm['peak'])
        exp_d = [DC.to_float(x) for x in pm['ptt']]
        if not _close(ptt['vals'], exp_d, 1e-9):
            return 'SPEC: clusters.peakToTrough %s differ from peak-to-trough durations in ms %s' % (ptt['vals'], exp_d)
    else:
        # curated: cluster waveforms are floating-point weighted means. A channel whose exact peak-to-peak is within
        # 2^-40 of the largest one is accepted as peak channel; the duration must be the one measured on the
        # REPORTED channel (NaN for ids without spikes) - both tables come from the Lean executable
        for c in range(ncl):
            if cc['vals'][c] not in pm['near_peaks'][c]:
                return 'SPEC: clusters.channels[%d] = %s is not a channel of largest peak-to-peak %s' % (c, cc['vals'][c], pm['near_peaks'][c])
            if not _close([ptt['vals'][c]], [DC.to_float(pm['ptt_table'][c][cc['vals'][c]])], 1e-9):
                return 'SPEC: clusters.peakToTrough[%d] = %s is not the peak-to-trough duration in ms on the peak channel %s' % (
                    c, ptt['vals'][c], DC.to_float(pm['ptt_table'][c][cc['vals'][c]]))
    # depths: both tables come from the Lean export model (`exportClusterDepths` / `exportSpikeDepths`): NaN exactly for
    # the ids without spikes; per spike the feature-weighted depth when there is a feature row for EVERY spike, the
    # depth of its cluster otherwise
    cd = _find(ok, 'clusters.depths', label)
    exp_cd = [DC.to_float(x) for x in res[I_DEP]['cluster_depths']]
    if cd is None or not _close(cd['vals'], exp_cd, 1e-12):
        return 'SPEC: clusters.depths %s are not the depths of the peak channels (NaN exactly for ids without spikes) %s' % (cd and cd['vals'], exp_cd)
    sd = _find(ok, 'spikes.depths', label)
    exp_sd = [DC.to_float(x) for x in res[I_DEP]['spike_depths']]
    if case.get('probes') and sm['has_features']:
        # (a merged source with a feature store: its feature rows are not an input of this check)
        return raw_finding
    if sd is None or sd['shape'] != [len(sm['spike_clusters'])] or not _close(sd['vals'], exp_sd, 1e-6):
        bad = [i for i, (x, y) in enumerate(zip((sd or {}).get('vals') or [], exp_sd)) if not _close([x], [y], 1e-6)]
        return 'SPEC: spikes.depths differ from %s: shape %s for %d spikes, %d differing spike(s), first at %s: %s vs %s' % (
            'the feature-weighted channel depths (NaN where no positive weight)' if res[I_DEP]['from_features']
            else 'the cluster depths (no feature row for every spike)', sd and sd['shape'], len(exp_sd), len(bad), bad[:3],
            [sd['vals'][i] for i in bad[:3]], [exp_sd[i] for i in bad[:3]])
    return raw_finding


def nontrivial(case):
    return True


def tally(rep, case, impl_res, ans):
    if case.get('long'):
        n = int(case['long']['n_spikes'])
        k, r = (n + DEPTH_BATCH // 2) // DEPTH_BATCH, n - (n + DEPTH_BATCH // 2) // DEPTH_BATCH * DEPTH_BATCH
        rep.count('long_recording: %d x depth batch (%d spikes) %+d, features:%s' % (
            k, DEPTH_BATCH, r, case['spec'].get('pc_features') is not None))
    case = _expand(case)
    if case.get('spec'):
        rep.count('positions_dtype:' + (case['spec'].get('dtypes') or {}).get('channel_positions', 'float64'))
    if case.get('probes'):
        rep.count('merged_probes:%d' % len(case['probes']))
        rep.count('merged source: ' + ('VALUES judged (exact tokens per probe): waveforms, amps, depths, durations'
                                       if case.get('exact_tokens') else 'indices and geometry only (large tokens)'))
        if any(sorted(p['channel_map']) != list(range(len(p['channel_map']))) for p in case['probes']):
            rep.count('merged_with_gapped_maps')
    else:
        rep.count('single_dataset')
        rep.count('features:%s' % ('subset of the spikes' if case['spec'].get('pc_feature_spike_ids') is not None
                                   else case['spec'].get('pc_features') is not None))
        sp_ = case['spec']
        sc_ = sp_.get('spike_clusters') or sp_['spike_templates']
        ncl_ = len(sp_['templates']) if sc_ == sp_['spike_templates'] else max(sc_) + 1
        if set(range(ncl_)) - set(sc_):
            rep.count('ids_without_spikes:%s' % ('curated' if sc_ != sp_['spike_templates'] else 'nothing curated'))
    rep.count('factor:%s' % case.get('factor', 1))
    if case.get('twice'):
        rep.count('two_exports_by_one_creator')
    rep.count('label:%s' % bool(case.get('label')))
    pr = (case.get('spec') or {}).get('channel_probes')
    if pr and pr != sorted(pr):
        rep.count('interleaved_probe_labels')
    r0 = ((ans.get('ok') or {}).get('res') or [{}])[0]
    if 'ordered' in r0 and len(set(pr or [])) > 1:
        rep.count('rawInd of a single dataset with several probes: ' + (
            'labels in channel-map order, judged = per-probe index, none negative' if r0['ordered'] else
            'labels NOT in channel-map order -> negative raw index, reported as open finding (not accepted)'))


def classify(case, impl_res, ans, why):
    if why.startswith('SPEC: channels.rawInd') and 'not in channel-map order' in why:
        return dict(kind='SPEC', site='make_channel_objects', probe_labels='not in channel-map order',
                    observed='negative raw index', merged=False)
    return dict(kind=why.split(':')[0], what=why.split(':')[1].strip()[:40], merged=bool(case.get('probes')),
                nprobes_ge3=len(case.get('probes', [])) >= 3, raised=impl_res.get('raised'), where=impl_res.get('where'))


def shrink(case):
    if case.get('probes') and len(case['probes']) > 1:
        P = case['probes']
        for i in range(len(P)):
            yield dict(case, probes=P[:i] + P[i + 1:])


def _exact_tokens(rng, probes):
    """Replace the value tokens of merge_common (k*1000+i+.1 amplitudes, k*10000.. whitening, large template cells:
    not exact in float32 / through a matrix inverse) by EXACTLY REPRESENTABLE ones that still tell the probes apart:
    small integer template samples with a per-probe peak value, dyadic amplitudes, a diagonal whitening matrix of
    powers of two (its inverse, and the inverse of the merged block-diagonal matrix, are exact). Every float chain of the
    export then stays inside the exact-arithmetic domain the single datasets are judged in."""
    for k, pr in enumerate(probes):
        nc, nt, nsw = pr['n_channels'], len(pr['templates']), len(pr['templates'][0])
        T = [[[float(rng.randrange(-3, 4)) for _ in range(nc)] for _ in range(nsw)] for _ in range(nt)]
        for t in range(nt):
            pc, hi = rng.randrange(nc), rng.randrange(nsw)
            T[t][hi][pc] = float(8 + k)                    # per-probe token: the peak value
            T[t][(hi + 1 + rng.randrange(nsw - 1)) % nsw][pc] = -float(4 + t % 3)
        pr['templates'] = T
        pr['amplitudes'] = [float(2 * (k + 1)) + .25 * (i % 8) for i in range(len(pr['amplitudes']))]
        if pr.get('whitening') is not None:
            pr['whitening'] = [[(rng.pick([.5, 1., 2., 4.]) if i == j else 0.) for j in range(nc)] for i in range(nc)]
    return probes


def long_case(rng, n, feats=True, factor=1, label=''):
    """a narrow, short, un-curated dataset (2..3 templates / channels, 2 samples, no whitening) of `n` spikes"""
    spec = DC.dense_spec(rng, nt=rng.randrange(2, 4), nc=rng.randrange(2, 4), ns=rng.randrange(7, 14), nsw=2, curated=False,
                         whiten='none', feats=feats, empty='none', shanks=False)
    for k in ('extra_npy', 'params_extra', 'template_scaling'):
        spec.pop(k, None)
    return dict(p=PID, spec=spec, long=dict(n_spikes=n), factor=factor, label=label, n_closest=2, rs=0)


def gen(tier, rng):
    q = tier == 'quick'
    for j, ncs in enumerate(((4, 6, 5), (2, 3, 5, 2), (3, 3))):
        probes = [M.probe_spec(rng, k, nc=nc, nt=2 + k % 2, tdtype='uint64', idtype='uint32') for k, nc in enumerate(ncs)]
        yield dict(p=PID, probes=_exact_tokens(rng, probes), exact_tokens=True, factor=[1, 2.5, 1][j], label=['', 'probe01', ''][j])
    # long recordings: spike counts beside a multiple of get_depths' batch. One more than a batch (a last batch of a single
    # spike) is in the corpus, i.e. in every run; the quick tier adds one neighbour of one batch per run, the thorough tier all
    # neighbours of 1 and 2 batches; narrow and short datasets with features (feature-weighted depths; in the thorough tier
    # also without: cluster depths)
    beside = [rng.pick([DEPTH_BATCH - 1, DEPTH_BATCH, DEPTH_BATCH + 1, DEPTH_BATCH + 2])] if q else [
        DEPTH_BATCH + 1, DEPTH_BATCH - 1, DEPTH_BATCH, DEPTH_BATCH + 2, 2 * DEPTH_BATCH - 1, 2 * DEPTH_BATCH,
        2 * DEPTH_BATCH + 1, 2 * DEPTH_BATCH + 2]
    for j, n in enumerate(beside):
        yield long_case(rng, n, feats=(q or j % 4 != 3), factor=[1, 2.5][j % 2], label=['', 'probe00'][j % 3 == 2])
    # one creator object, two conversions in a row with different unit factors
    pairs = [(1, 2.34375e-06), (2.5, 0.5), (1, 0.5), (2.34375e-06, 1), (1, 2.34375e-06 * 4), (0.5, 2.34375e-06 * 2 ** 10)]
    for i in range(12 if q else 200):
        spec = DC.dense_spec(rng, feats=(i % 2 == 0), empty=['none', 'last', 'middle'][i % 3], curated=(i % 4 < 2))
        f1, f2 = pairs[i % len(pairs)]
        if i % 4 == 2:
            A.subset_features(rng, spec)
        yield dict(p=PID, spec=spec, twice=True, factor_first=f1, factor=f2, n_closest=rng.pick([2, 3, 12]), rs=i,
                   label=['', 'imec0'][i % 3 == 1])
    for i in range(90 if q else 2000):
        if i % 3 == 0:
            # every other merged case uses channel maps with holes (dead channels): the raw-index inversion
            # is claimed for arbitrary maps
            c = M.merge_case(rng, nprobes=[1, 2, 3, 4][i % 4], gapped=(i % 2 == 0))
            for pr in c['probes']:
                # every probe gets two distinct x coordinates (single-column probes are C12's open finding)
                if len({xy[0] for xy in pr['channel_positions']}) == 1:
                    pr['channel_positions'][0][0] += 50.
            yield dict(p=PID, probes=_exact_tokens(rng, c['probes']), exact_tokens=True, dirnames=c['dirnames'], factor=[1, 2.5][i % 2],
                       n_closest=rng.pick([2, 3, 12]), label=['', 'probe00', ''][(i // 3) % 3])
        else:
            spec = DC.dense_spec(rng, raw=(i % 4 == 1), feats=(i % 2 == 0), probes=(i % 5 == 0), empty=['none', 'last', 'middle'][i % 3],
                                 cmap=['random', 'identity'][i % 2])
            if spec.get('channel_probes') and i % 10 == 5:
                # probe labels that are neither 0-based nor sorted into blocks (interleaved shanks of two probes)
                spec['channel_probes'] = [rng.pick([1, 3]) for _ in range(spec['n_channels'])]
            elif spec.get('channel_probes') and i % 10 == 0 and spec['channel_map'] != sorted(spec['channel_map']):
                # a PERMUTED channel map whose probe labels nevertheless follow it (every probe owns a range of raw indices;
                # labels not 0-based): the class on which the per-probe re-expression is claimed and judged (`perProbeRawInd`)
                order = sorted(range(spec['n_channels']), key=lambda c: spec['channel_map'][c])
                labs = sorted(2 * x + 1 for x in spec['channel_probes'])
                spec['channel_probes'] = [labs[order.index(c)] for c in range(spec['n_channels'])]
            if i % 3 == 1:     # probe coordinates stored as integers
                spec['dtypes'] = dict(spec.get('dtypes') or {}, channel_positions=['int32', 'uint32', 'int64', 'uint16'][(i // 3) % 4])
            if i % 8 == 2:     # features stored for a subset of the spikes (pc_feature_spike_ids.npy)
                A.subset_features(rng, spec)
            yield dict(p=PID, spec=spec, factor=[1, 2.5][i % 2], label=['', 'probe00', 'imec1'][(i % 7 == 0) + 2 * (i % 7 in (3, 5))], n_closest=rng.pick([2, 3, 12]),
                       reexport=(i % 4 == 1 and i % 7 not in (0, 3, 5)),
                       rs=i)
