"""Shared machinery of the phylib verification checks (see /verif/DESIGN.md §2).

Proof step (lake build + axiom audit + source hygiene), Lean driver pipe, seeded PRNG,
worker pool for the real code, shrinking, replays, known findings, evidence.
"""
import contextlib
import hashlib
import io
import json
import os
import random
import re
import shutil
import subprocess
import sys
import tempfile
import threading
import time
import traceback
from pathlib import Path

VERIF = Path(__file__).resolve().parent.parent
LEAN_DIR = VERIF / 'lean'
DRIVER = LEAN_DIR / '.lake' / 'build' / 'bin' / 'phyverif'
REPO = Path(os.environ.get('PHYLIB_REPO', '/repo'))
if 'PHYLIB_REPO' in os.environ:
    # evaluation of a seeded change in a scratch worktree: the real code is imported from there instead of the
    # editable install of /repo (PYTHONPATH precedes site-packages; worker processes inherit it). Registered
    # checks never set this variable, so they always run /repo's working tree.
    sys.path.insert(0, str(REPO))
    os.environ['PYTHONPATH'] = str(REPO) + os.pathsep + os.environ.get('PYTHONPATH', '')
ALLOWED_AXIOMS = {'propext', 'Classical.choice', 'Quot.sound'}
FORBIDDEN = re.compile(
    r'\bsorry\b|\badmit\b|^\s*axiom\s|native_decide|bv_decide|implemented_by|\bunsafe\s|maxHeartbeats\s+0\b')

os.environ.setdefault('TQDM_DISABLE', '1')


class Infra(Exception):
    """Infrastructure trouble: exit 2, never a VIOLATION."""


# ----------------------------------------------------------------------------------------
# Lean side
# ----------------------------------------------------------------------------------------

def _run(cmd, cwd=None, timeout=3600):
    p = subprocess.run(cmd, cwd=cwd, stdout=subprocess.PIPE, stderr=subprocess.STDOUT,
                       text=True, timeout=timeout)
    return p.returncode, p.stdout


@contextlib.contextmanager
def lake_lock():
    """Serialise `lake build` between checks that run at the same time (several ./check processes started from a
    fresh restore would otherwise build the same .lake directory concurrently and can leave half-written object
    files behind, after which the driver no longer links)."""
    import fcntl
    f = open(LEAN_DIR / '.lake.lock', 'w')
    try:
        fcntl.flock(f, fcntl.LOCK_EX)
        yield
    finally:
        fcntl.flock(f, fcntl.LOCK_UN)
        f.close()


def ensure_built():
    """Build library + driver if needed (fresh restore: .lake is absent)."""
    with lake_lock():
        rc, out = _run(['lake', 'build', 'phyverif'], cwd=LEAN_DIR)
        if rc != 0 and 'undefined symbol' in out:
            # object files left incomplete by an interrupted / concurrent earlier build: rebuild the native part
            shutil.rmtree(LEAN_DIR / '.lake' / 'build' / 'ir', ignore_errors=True)
            shutil.rmtree(LEAN_DIR / '.lake' / 'build' / 'bin', ignore_errors=True)
            rc, out = _run(['lake', 'build', 'phyverif'], cwd=LEAN_DIR)
    if rc != 0 or not DRIVER.exists():
        raise Infra('cannot build the Lean driver:\n' + out[-4000:])


def strip_comments(src):
    src = re.sub(r'/-.*?-/', '', src, flags=re.S)
    src = re.sub(r'--.*', '', src)
    return src


def lean_sources():
    return [p for p in LEAN_DIR.rglob('*.lean') if '.lake' not in p.parts]


def module_closure(mod):
    """Project-local modules transitively imported by `mod` (e.g. PhyVerif.Props.C16)."""
    seen, todo = [], [mod]
    while todo:
        m = todo.pop()
        if m in seen:
            continue
        path = LEAN_DIR / (m.replace('.', '/') + '.lean')
        if not path.exists():
            continue
        seen.append(m)
        for line in strip_comments(path.read_text()).split('\n'):
            mm = re.match(r'\s*import\s+(PhyVerif\.\S+)', line)
            if mm:
                todo.append(mm.group(1))
    return seen


def hygiene(mod=None):
    """grep for forbidden constructs in the non-comment Lean source the property's theorems
    depend on (all project sources when mod is None). Returns list of hits."""
    if mod is None:
        files = lean_sources()
    else:
        files = [LEAN_DIR / (m.replace('.', '/') + '.lean') for m in module_closure(mod)]
    hits = []
    for p in files:
        for i, line in enumerate(strip_comments(p.read_text()).split('\n')):
            if FORBIDDEN.search(line):
                hits.append('%s: %s' % (p.relative_to(LEAN_DIR), line.strip()))
    return hits


def theorems_of(pid):
    """Names of the property theorems in Props/<pid>.lean (namespace-qualified)."""
    path = LEAN_DIR / 'PhyVerif' / 'Props' / ('%s.lean' % pid)
    if not path.exists():
        return []
    src = strip_comments(path.read_text())
    ns = []
    names = []
    for line in src.split('\n'):
        m = re.match(r'\s*namespace\s+(\S+)', line)
        if m:
            ns.append(m.group(1))
            continue
        m = re.match(r'\s*end\s+(\S+)', line)
        if m and ns and ns[-1] == m.group(1):
            ns.pop()
            continue
        m = re.match(r'\s*(?:@\[[^\]]*\]\s*)?(?:private\s+|protected\s+)?theorem\s+(\S+)', line)
        if m:
            names.append('.'.join(ns + [m.group(1)]))
    return names


def proof_step(pid, tier):
    """Returns dict(obligations, discharged, failed:[...], log). Never raises for a failing
    proof (that is a verdict), raises Infra only when lake itself cannot run."""
    t0 = time.time()
    res = dict(obligations=0, discharged=0, failed=[], log='', theorems=[], axioms={})
    mod = 'PhyVerif.Props.%s' % pid
    with lake_lock():
        rc, out = _run(['lake', 'build', mod], cwd=LEAN_DIR)
    names = theorems_of(pid)
    res['theorems'] = names
    res['obligations'] = len(names)
    if rc != 0:
        res['failed'] = ['build of %s' % mod]
        res['log'] = out[-6000:]
        # which theorems fail?  errors name a position; keep the log, mark all as undischarged
        res['wall_s'] = time.time() - t0
        return res
    hits = hygiene(mod)
    if hits:
        res['failed'] = ['hygiene: ' + h for h in hits]
        res['log'] = '\n'.join(hits)
        res['wall_s'] = time.time() - t0
        return res
    if not names:
        res['failed'] = ['no property theorem found for %s' % pid]
        res['wall_s'] = time.time() - t0
        return res
    audit = 'import %s\n' % mod + ''.join('#print axioms %s\n' % n for n in names)
    with tempfile.NamedTemporaryFile('w', suffix='.lean', delete=False, dir=str(LEAN_DIR)) as f:
        f.write(audit)
        apath = f.name
    try:
        rc, out = _run(['lake', 'env', 'lean', apath], cwd=LEAN_DIR)
    finally:
        os.unlink(apath)
    res['log'] = out[-6000:]
    # parse: "'name' depends on axioms: [a, b]" or "'name' does not depend on any axioms"
    flat = re.sub(r'\s+', ' ', out)
    for n in names:
        m = re.search(r"'%s' depends on axioms: \[([^\]]*)\]" % re.escape(n), flat)
        if m:
            ax = {a.strip() for a in m.group(1).split(',') if a.strip()}
        elif re.search(r"'%s' does not depend on any axioms" % re.escape(n), flat):
            ax = set()
        else:
            res['failed'].append('%s: not found by #print axioms' % n)
            continue
        res['axioms'][n] = sorted(ax)
        if ax <= ALLOWED_AXIOMS:
            res['discharged'] += 1
        else:
            res['failed'].append('%s: axioms %s' % (n, sorted(ax - ALLOWED_AXIOMS)))
    if tier == 'thorough' and not res['failed']:
        rc, out = _run(['lake', 'env', 'leanchecker', mod], cwd=LEAN_DIR, timeout=3600)
        res['leanchecker_rc'] = rc
        if rc != 0:
            res['failed'].append('leanchecker %s: rc=%d' % (mod, rc))
            res['log'] += '\n' + out[-3000:]
    res['wall_s'] = time.time() - t0
    return res


class Lean:
    """Line-protocol pipe to the native driver."""

    def __init__(self):
        if not DRIVER.exists():
            ensure_built()
        self.p = subprocess.Popen([str(DRIVER)], stdin=subprocess.PIPE, stdout=subprocess.PIPE,
                                  text=True, bufsize=1 << 20)
        self.n = 0

    def ask_many(self, cases):
        if not cases:
            return []
        lines = [json.dumps(c, separators=(',', ':')) for c in cases]

        def w():
            try:
                self.p.stdin.write('\n'.join(lines) + '\n')
                self.p.stdin.flush()
            except BrokenPipeError:
                pass
        t = threading.Thread(target=w)
        t.start()
        out = []
        for _ in lines:
            l = self.p.stdout.readline()
            if not l:
                t.join()
                raise Infra('Lean driver died after %d answers' % len(out))
            out.append(json.loads(l))
        t.join()
        self.n += len(lines)
        return out

    def ask(self, case):
        return self.ask_many([case])[0]

    def close(self):
        try:
            self.p.stdin.close()
            self.p.wait(timeout=10)
        except Exception:
            self.p.kill()


# ----------------------------------------------------------------------------------------
# Real code side
# ----------------------------------------------------------------------------------------

@contextlib.contextmanager
def quiet():
    """Capture stdout/stderr of the real code (progress reporter, tqdm, logging)."""
    import logging
    logging.disable(logging.CRITICAL)
    so, se = sys.stdout, sys.stderr
    sys.stdout, sys.stderr = io.StringIO(), io.StringIO()
    try:
        yield
    finally:
        sys.stdout, sys.stderr = so, se
        logging.disable(logging.NOTSET)


COV_HITS = set()      # (file under phylib/, line) executed by the real code during this run (harness/codecov.py)


def call_impl(fn, case):
    """Run fn(case) on the real code; exceptions become {'raised': type, 'msg': ...}."""
    import warnings
    if os.environ.get('VERIF_CODECOV', '1') != '0':
        from . import codecov
        codecov.start(REPO)
    try:
        with quiet(), warnings.catch_warnings():
            warnings.simplefilter('ignore')
            return {'ok': fn(case)}
    except BaseException as e:  # noqa
        if isinstance(e, (KeyboardInterrupt, SystemExit)):
            raise
        tb = traceback.extract_tb(e.__traceback__)
        where = ''
        for fr in reversed(tb):
            if 'phylib' in fr.filename:
                where = '%s:%d' % (os.path.basename(fr.filename), fr.lineno)
                break
        return {'raised': type(e).__name__, 'msg': str(e)[:300], 'where': where}


_POOL = None
_POOL_FN = None


def _pool_init():
    os.environ['TQDM_DISABLE'] = '1'


def _pool_call(args):
    modname, fname, case = args
    import importlib
    mod = importlib.import_module(modname)
    r = call_impl(getattr(mod, fname), case)
    if os.environ.get('VERIF_CODECOV', '1') != '0':
        from . import codecov
        new = codecov.drain()
        if new:
            r = dict(r, _cov=new)
    return r


def _take_cov(r):
    if isinstance(r, dict) and '_cov' in r:
        COV_HITS.update(tuple(x) for x in r.pop('_cov'))
    return r


def run_impl_many(modname, fname, cases, workers=None, chunksize=None, timeout=1800):
    """Run the real code on many cases in worker processes (isolation: a crash of the
    interpreter in the real code cannot take the verdict-writing process down)."""
    import concurrent.futures as cf
    import multiprocessing as mp
    workers = workers or min(16, os.cpu_count() or 1)
    if len(cases) <= 2 or workers == 1:
        workers = 1
    ctx = mp.get_context('forkserver')
    out = [None] * len(cases)
    args = [(modname, fname, c) for c in cases]
    try:
        with cf.ProcessPoolExecutor(max_workers=workers, mp_context=ctx,
                                    initializer=_pool_init) as ex:
            cs = chunksize or max(1, len(cases) // (workers * 8))
            for i, r in enumerate(ex.map(_pool_call, args, chunksize=cs, timeout=timeout)):
                out[i] = _take_cov(r)
    except (cf.process.BrokenProcessPool, cf.TimeoutError) as e:
        # find the culprit one by one
        for i, a in enumerate(args):
            if out[i] is not None:
                continue
            try:
                with cf.ProcessPoolExecutor(max_workers=1, mp_context=ctx) as ex:
                    out[i] = _take_cov(ex.submit(_pool_call, a).result(timeout=900))
            except cf.TimeoutError:
                out[i] = {'raised': 'Timeout', 'msg': 'no answer within 900 s', 'where': ''}
            except Exception as e2:
                out[i] = {'raised': 'WorkerCrash', 'msg': repr(e2)[:200], 'where': ''}
    return out


@contextlib.contextmanager
def scratch_dir():
    d = tempfile.mkdtemp(prefix='phyverif_')
    try:
        yield Path(d)
    finally:
        shutil.rmtree(d, ignore_errors=True)


def repo_head():
    rc, out = _run(['git', '-C', str(REPO), 'rev-parse', 'HEAD'])
    rc2, st = _run(['git', '-C', str(REPO), 'status', '--porcelain', '--untracked-files=no'])
    import phylib
    where = Path(phylib.__file__).resolve().parent.parent
    if where != REPO.resolve():
        raise Infra('the real code was imported from %s, not from %s' % (where, REPO))
    return out.strip() + ('+dirty' if st.strip() else '')


# ----------------------------------------------------------------------------------------
# Verdict plumbing
# ----------------------------------------------------------------------------------------

def digest(obj):
    return hashlib.sha1(json.dumps(obj, sort_keys=True, default=str).encode()).hexdigest()[:16]


def load_known():
    p = VERIF / 'known_findings.json'
    if not p.exists():
        return []
    return json.loads(p.read_text())


def match_known(pid, case, known):
    """An open known finding matches when every key of its `match` equals the case's
    (after applying the property's classifier, the case carries a 'class' dict)."""
    for k in known:
        if k.get('status') != 'open' or k.get('property') != pid:
            continue
        m = k.get('match', {})
        cls = case.get('_class', {})
        if m and all(cls.get(a) == b for a, b in m.items()):
            return k
    return None


class Report:
    """Collects what one run did; writes evidence, replays, prints verdict lines."""

    def __init__(self, pid, tier, seed):
        self.pid, self.tier, self.seed = pid, tier, seed
        self.t0 = time.time()
        self.evaluations = 0
        self.distinct = set()
        self.samples = []
        self.hist = {}
        self.violations = []      # (replay path, suffix)
        self.known_hits = {}
        self.rule = ''
        self.assumptions = []
        self.proof = None
        self.extra = {}

    def count(self, key, n=1):
        self.hist[key] = self.hist.get(key, 0) + n

    def seen(self, case, nontrivial=True, sample_every=None):
        self.evaluations += 1
        if nontrivial:
            self.distinct.add(digest(case))
        if len(self.samples) < 6 and (self.evaluations in (1, 7, 50, 333, 2000, 9000)):
            self.samples.append(case)

    def violation(self, case, impl, model, why, shrunk_from=None, no_input=False, broken=None):
        d = VERIF / 'replays' / self.pid
        d.mkdir(parents=True, exist_ok=True)
        body = dict(property=self.pid, case=case, impl=impl, model=model, why=why, seed=self.seed,
                    tier=self.tier, shrunk_from=shrunk_from, repo_head=repo_head(),
                    how='./check %s --replay <this file>' % self.pid)
        if broken:
            body['broken'] = broken
        path = d / ('%s.json' % digest([case, why, broken]))
        path.write_text(json.dumps(body, indent=1, default=str))
        rel = path.relative_to(VERIF)
        line = 'VIOLATION property=%s replay=%s' % (self.pid, rel)
        if no_input:
            line += ' no-failing-input-found'
        print(line, flush=True)
        self.violations.append(str(rel))

    def known(self, k):
        key = k.get('what', '?')
        if key not in self.known_hits:
            print('KNOWN-FINDING: property=%s %s' % (self.pid, key), flush=True)
        self.known_hits[key] = self.known_hits.get(key, 0) + 1

    def write_evidence(self):
        pr = self.proof or {}
        cov = dict(
            obligations=pr.get('obligations', 0), discharged=pr.get('discharged', 0),
            checker_cmd='cd lean && lake build PhyVerif.Props.%s && lake env lean <audit: #print axioms of every theorem in Props/%s.lean>%s' % (
                self.pid, self.pid, ' && lake env leanchecker PhyVerif.Props.%s' % self.pid if self.tier == 'thorough' else ''),
            trusted_base=[
                'Lean 4.33.0 kernel/elaborator, lake' + (', leanchecker re-check' if self.tier == 'thorough' else ''),
                'axioms allowed in property theorems: propext, Classical.choice, Quot.sound (audited by #print axioms this run)',
                'hand-written Lean model; tie to /repo checked by the correspondence run below on the generated cases only',
                'Python harness (generators, canonicalisation, comparison); native Lean driver (compiler)',
            ] + self.assumptions,
            theorems=pr.get('theorems', []), axioms=pr.get('axioms', {}),
            proof_failures=pr.get('failed', []),
            evaluations=self.evaluations, distinct_nontrivial=len(self.distinct),
            rule=self.rule, samples=self.samples[:6] or ['(no correspondence case ran)'],
            traces_validated_against_impl=self.evaluations,
            input_distribution=dict(sorted(self.hist.items())),
            known_findings_hit=self.known_hits,
        )
        if os.environ.get('VERIF_CODECOV', '1') != '0':
            try:
                from . import codecov
                COV_HITS.update(codecov.drain())
                cov['code_coverage'] = codecov.report(self.pid, COV_HITS, REPO)
            except Exception as e:  # a measurement, never a reason to fail a run
                cov['code_coverage'] = 'not measured: %r' % e
        cov.update(self.extra)
        ev = dict(property_id=self.pid, tier=self.tier, seed=self.seed, level='proof',
                  coverage=cov, assumptions=self.assumptions,
                  wall_s=round(time.time() - self.t0, 2), violations=len(self.violations),
                  repo_head=repo_head())
        (VERIF / 'evidence').mkdir(exist_ok=True)
        (VERIF / 'evidence' / ('%s.json' % self.pid)).write_text(json.dumps(ev, indent=1, default=str))


class Rng(random.Random):
    def pick(self, seq):
        return seq[self.randrange(len(seq))]


def model_value(ans):
    """Answer of the driver -> ('ok', value) | ('err', msg)"""
    if 'ok' in ans:
        return ('ok', ans['ok'])
    return ('err', ans.get('err'))
