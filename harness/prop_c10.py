"""C10 — saved curation state survives any save/reload history (DESIGN.md §5 C10)."""
import csv
import io
from fractions import Fraction
import numpy as np
from . import common as C
from . import dataset as D
from . import dense_common as DC

PID = 'C10'
PARALLEL = True
BATCH = 60
BUDGET_S = {'quick': 90, 'thorough': 1500}
RULE = ('histories over {save_spike_clusters(random reassignment), save_metadata(field, mapping with ints / '
        'floats / non-numeric strings incl. tabs, commas, quotes / None), write foreign TSV/CSV (valid / empty / '
        'ragged / unterminated quote / repeated cluster_id column; also files carrying a field that save_metadata '
        'writes, as .csv and as .tsv), save_spikes_subset_waveforms(unit factor 1, 2, 0.5), close, reload} on generated '
        'datasets with raw data; after every reload the loaded model is compared with the Lean disk model (metadata in '
        'the visiting order of the real directory, spike templates / times, subset store ids, channel rows and '
        'waveforms) and with the abstract last-write-wins state; after close only reload follows. '
        'non-trivial = history with >= 2 saves of metadata or clusters and >= 1 reload')
ASSUMPTIONS = ['csv parsing and number parsing/formatting are transport: foreign file texts are parsed with the csv module '
               'and cells classified with int()/float() by the harness before they reach the Lean model',
               'the metadata field name "info" is outside the domain (cluster_info.tsv is deliberately ignored on load)',
               'the order in which glob lists the directory is observed at each reload and given to the Lean loader model '
               '(the code does not determine it); the last saved mapping of a field is claimed when the saved file is the '
               'last visited file saying anything about the field (Lean: view_field_eq_last / metadata_last_saved_among_files)',
               'the spike selection of save_spikes_subset_waveforms (random, C17) and get_template().channel_ids (C05) are '
               'observed on the real model and given to the Lean model']
FIELDS = ['group', 'quality', 'n_x', 'in', 'ks.label', 'ks.contam', 'ks', 'info.x']   # 'in': cluster_in.tsv is a prefix of the ignored cluster_info.tsv; dotted names: the part after the last dot is not a suffix
TEXTS = ['good', 'mua', 'a\tb', 'x,y', 'say "hi"', 'noise ']


def cell_of(v):
    if isinstance(v, bool):
        return {'text': str(v)}
    if isinstance(v, int):
        return {'int': v}
    if isinstance(v, float):
        return {'float': abs(hash(repr(v))) % 1000000}
    return {'text': v}


def tag(s):
    """classification of a cell string as _try_make_number does (transport)"""
    if s == '':
        return ''
    try:
        return 'I%d' % int(s)
    except ValueError:
        try:
            return 'F%d' % (abs(hash(repr(float(s)))) % 1000000)
        except ValueError:
            return 'T' + s


def parse_foreign(text, ext):
    """what read_tsv sees: None when it raises (empty file), else (header, rows of tagged cells)"""
    lines = io.StringIO(text, newline='')
    first = text.split('\n')[0] if text else ''
    delim = '\t' if '\t' in first else ','
    try:
        rd = csv.reader(io.StringIO(text, newline=''), delimiter=delim)
        header = list(next(rd))
        rows = [list(r) for r in rd]
    except Exception:
        return None
    return dict(header=header, rows=[[tag(c) for c in r] for r in rows])


def impl(case):
    from phylib.io.model import load_model
    views, sels = [], []
    with C.scratch_dir() as d:
        params = D.write_dataset(d, case['spec'])
        m = load_model(params)
        used = sorted(int(t) for t in np.unique(m.spike_templates))
        init = dict(orders={str(t): [int(c) for c in m.get_template(t).channel_ids] for t in used},
                    closest=int(m.n_closest_channels), n_templates=int(m.n_templates), nsw=int(m.n_samples_waveforms),
                    chunks=[[int(a), int(b)] for a, b in m.traces.iter_chunks()])
        closed = False
        for o in case['ops']:
            k = o['k']
            if k == 'save_clusters':
                m.save_spike_clusters(np.array(o['sc'], dtype=np.int32))
            elif k == 'save_meta':
                m.save_metadata(o['field'], {int(i): v for i, v in o['m']})
            elif k == 'write_file':
                (d / (o['stem'] + '.' + o['ext'])).write_text(o['text'])
            elif k == 'save_subset':
                np.random.seed(o.get('rs', 0))
                m.save_spikes_subset_waveforms(max_n_spikes_per_template=o['nst'], max_n_channels=o['max_n'],
                                               sample2unit=case.get('factor', 1.))
                # the selection (random): read back from the file the call wrote
                sels.append([int(x) for x in np.load(d / '_phy_spikes_subset.spikes.npy').ravel()])
            elif k == 'close':
                m.close(); closed = True
            elif k == 'reload':
                if not closed:
                    m.close()
                m = load_model(params)
                closed = False
                v = dict(clusters=[int(x) for x in m.spike_clusters],
                         metadata={f: {repr(kk): [type(vv).__name__, vv] for kk, vv in dd.items()} for f, dd in m.metadata.items()},
                         templates=[int(x) for x in m.spike_templates], samples=[int(x) for x in m.spike_samples],
                         files=sorted(p.name for p in d.iterdir()),
                         # the order in which the loader's two globs list this directory
                         order=[[p.stem, p.suffix == '.tsv'] for p in list(d.glob('*.csv')) + list(d.glob('*.tsv'))])
                sw = m.spike_waveforms
                if sw is not None:
                    ids = np.atleast_1d(np.asarray(sw.spike_ids))
                    query = ids[::-1] if len(views) % 2 else ids
                    ch = list(range(m.n_channels))
                    got = m.get_waveforms(query, ch)
                    v['store'] = dict(ids=[int(x) for x in ids],
                                      channels=np.asarray(sw.spike_channels).astype(np.int64).tolist(),
                                      query=[int(x) for x in query], chq=ch,
                                      wf=np.asarray(got, dtype=np.float64).tolist(), dtype=str(got.dtype))
                views.append(v)
        if not closed:
            m.close()
    return dict(views=views, sels=sels, init=init)


def _frac(x):
    f = Fraction(x)
    return f.numerator if f.denominator == 1 else [f.numerator, f.denominator]


def model_query(case, impl_res):
    spec = case['spec']
    ok = impl_res.get('ok') or {}
    init = ok.get('init') or dict(orders={}, closest=12, n_templates=len(spec['templates']),
                                  nsw=len(spec['templates'][0]), chunks=[])
    sels = list(ok.get('sels') or [])
    views = list(ok.get('views') or [])
    ops = []
    n_sub = n_rel = 0
    for o in case['ops']:
        k = o['k']
        if k == 'save_meta':
            ops.append(dict(k=k, field=o['field'], m=[[int(i), None if v is None else cell_of(v)] for i, v in o['m']]))
        elif k == 'write_file':
            ops.append(dict(k=k, stem=o['stem'], tsv=(o['ext'] == 'tsv'), file=parse_foreign(o['text'], o['ext'])))
        elif k == 'save_subset':
            ops.append(dict(k=k, sel=sels[n_sub] if n_sub < len(sels) else [], max_n=o['max_n']))
            n_sub += 1
        elif k == 'reload':
            q = dict(k=k)
            if n_rel < len(views):
                q['order'] = views[n_rel]['order']
                if views[n_rel].get('store'):
                    q['query'] = views[n_rel]['store']['query']
                    q['chq'] = views[n_rel]['store']['chq']
            n_rel += 1
            ops.append(q)
        else:
            ops.append({kk: vv for kk, vv in o.items() if kk in ('k', 'sc')})
    sc0 = spec.get('spike_clusters') or spec['spike_templates']
    raw = np.array([row for part in spec['raw'] for row in part])[:, spec['channel_map']]
    orders = [init['orders'].get(str(t), []) for t in range(init['n_templates'])]
    return dict(p=PID, op='history', clusters0=sc0, ops=ops, factor=_frac(case.get('factor', 1.)),
                spike_templates=spec['spike_templates'], spike_samples=spec['spike_samples'], raw=raw.tolist(),
                chunks=init['chunks'], orders=orders, nsw=init['nsw'], closest=init['closest'])


def _cells(arr3):
    return [[[float(Fraction(c[0], c[1])) if isinstance(c, list) else float(c) for c in row] for row in w]
            for w in arr3]


def _val(c):
    if 'int' in c:
        return ('int', c['int'])
    if 'float' in c:
        return ('float', c['float'])
    return ('str', c['text'])


def _real(tv):
    t, v = tv
    if t == 'int':
        return ('int', v)
    if t == 'float':
        return ('float', abs(hash(repr(v))) % 1000000)
    return ('str', v)


def judge(case, impl_res, ans):
    if 'err' in ans:
        return 'MACHINERY: driver error %s' % ans['err']
    if 'raised' in impl_res:
        return 'SPEC: real code raised %s (%s) at %s during an in-domain history (loading must never fail)' % (
            impl_res['raised'], impl_res['msg'], impl_res['where'])
    views = impl_res['ok']['views']
    mv = ans['ok']['views']
    if len(views) != len(mv):
        return 'MACHINERY: number of reloads'
    spec = case['spec']
    for i, (v, m) in enumerate(zip(views, mv)):
        # the property, against the abstract last-write-wins state
        if v['clusters'] != m['abs_clusters']:
            return 'SPEC: reload %d shows spike clusters %s, last saved %s' % (i, v['clusters'], m['abs_clusters'])
        real_meta = {f: {k: _real(tv) for k, tv in dd.items()} for f, dd in v['metadata'].items()}
        for f, vals in m['abs_fields']:
            if f not in m['claimed']:
                # an emptied field, or another file visited later by THIS directory order carries the field
                # (the code does not determine which wins): only the correspondence below applies
                continue
            exp = {repr(int(cid)): _val(c) for cid, c in vals}
            if real_meta.get(f) != exp:
                return 'SPEC: reload %d: metadata field %r is %s, last saved mapping %s' % (i, f, real_meta.get(f), exp)
        if m['templates'] != spec['spike_templates'] or m['samples'] != spec['spike_samples']:
            return 'MACHINERY: the disk model changed spike templates / times (contradicts templates_times_unchanged)'
        if v['templates'] != spec['spike_templates'] or v['samples'] != spec['spike_samples']:
            return 'SPEC: reload %d: spike templates / times changed' % i
        st = v.get('store')
        if st is not None:
            ms = m['store']
            if ms is None:
                return 'CORR: reload %d: the real model has a subset store, the disk model has none' % i
            sel = st['ids']
            if m['tile'] and all(a < b for a, b in zip(sel, sel[1:])) and m['wf_spec'] is not None \
                    and m['wf_spec'] != m['wf']:
                return 'MACHINERY: Lean store lookup differs from its spec (contradicts subset_eq_raw)'
            if st['ids'] != ms['ids']:
                return 'SPEC: reload %d: the subset store holds spikes %s, the last export selected %s' % (i, st['ids'], ms['ids'])
            if st['channels'] != ms['channels']:
                return 'SPEC: reload %d: the subset store does not hold the best channels of each spike\'s template (%s, model %s)' % (
                    i, st['channels'], ms['channels'])
            got = np.array(st['wf'], dtype=np.float64)
            if m['wf_spec'] is None:
                return 'MACHINERY: stored spikes not stored in the disk model'
            exp = np.array(_cells(m['wf_spec']), dtype=np.float64)
            if got.shape != exp.shape:
                return 'SPEC: reload %d: get_waveforms on the stored spikes returned shape %s' % (i, list(got.shape))
            rows = dict(zip(st['ids'], st['channels']))
            for a, q in enumerate(st['query']):
                for b, c in enumerate(st['chq']):
                    if c in rows[q] and not np.array_equal(got[a, :, b], exp[a, :, b]):
                        return ('SPEC: reload %d: subset-store waveforms differ from the unit factor times the raw data '
                                '(spike %d, channel %d)' % (i, q, c))
            if not np.array_equal(got, np.array(_cells(m['wf']), dtype=np.float64)):
                return 'CORR: reload %d: get_waveforms differs from the disk model on a channel the store does not hold' % i
        # correspondence with the disk model (foreign files included), in the visiting order of the real directory
        mm = {f: {repr(_cid(c)): _val(val) for c, val in rows} for f, rows in m['view']['metadata']}
        # "next to metadata found in other TSV/CSV files": a well-formed foreign file contributes its field
        for o in case['ops']:
            if o['k'] == 'write_file' and o['kind'] == 'valid':
                f = o.get('field') or o['stem'][len('foreign_'):]
                last = [x for x in case['ops'] if x['k'] == 'write_file' and x['stem'] == o['stem']][-1]
                if last['kind'] == 'valid' and real_meta.get(f) != mm.get(f):
                    return 'SPEC: reload %d: field %r of the well-formed foreign file %s.%s is %s, the file says %s' % (
                        i, f, o['stem'], o['ext'], real_meta.get(f), mm.get(f))
        if real_meta != mm:
            return 'CORR: reload %d: metadata %s differs from the disk model %s' % (i, real_meta, mm)
        if m['subset'] and '_phy_spikes_subset.waveforms.npy' not in v['files'] and spec.get('raw'):
            return 'CORR: subset files missing'
        if not m['subset'] and '_phy_spikes_subset.waveforms.npy' in v['files']:
            return 'CORR: subset files present without an export'
        real_tables = sorted(x for x in v['files'] if x.endswith('.tsv') or x.endswith('.csv'))
        if real_tables != sorted(m['files']):
            return 'CORR: reload %d: metadata files in the directory %s, in the disk model %s' % (i, real_tables, sorted(m['files']))
    return None


def _cid(c):
    if 'int' in c:
        return c['int']
    if 'float' in c:
        return ('float', c['float'])
    return c['text']


def nontrivial(case):
    ks = [o['k'] for o in case['ops']]
    return ks.count('save_meta') + ks.count('save_clusters') >= 2 and 'reload' in ks


def tally(rep, case, impl_res, ans):
    for o in case['ops']:
        rep.count('op:' + o['k'] + ((':' + o['kind'] + ('(delimiter!=suffix)' if o.get('mismatch') else '')) if o['k'] == 'write_file' else ''))
    rep.count('history_len:%d' % len(case['ops']))
    rep.count('unit_factor:%s' % case.get('factor', 1.))
    rep.count('spike_times_stored_as:%s' % ('seconds (spikes.times.npy)' if case['spec'].get('times_in_seconds') else 'samples (spike_times.npy)'))
    if 'ok' in impl_res and 'ok' in ans:
        for v, m in zip(impl_res['ok']['views'], ans['ok']['views']):
            rep.count('reload:store_%s' % ('queried%s' % ((' (single spike)' if len(v['store']['ids']) == 1 else '') + (' (single column)' if len(v['store']['channels'][0]) == 1 else '')) if v.get('store') else 'absent'))
            nf = len([f for f, vals in m['abs_fields'] if vals])
            rep.count('saved_fields:claimed', len(m['claimed']))
            rep.count('saved_fields:another_file_visited_later_or_overwritten', nf - len(m['claimed']))


def classify(case, impl_res, ans, why):
    return dict(kind=why.split(':')[0], what=why.split(':')[1].strip()[:40], raised=impl_res.get('raised'),
                ops=sorted({o['k'] for o in case['ops']}))


def shrink(case):
    ops = case['ops']
    for i in range(len(ops)):
        c = ops[:i] + ops[i + 1:]
        # keep legality: after close only reload
        ok = True
        closed = False
        for o in c:
            if closed and o['k'] != 'reload':
                ok = False
            closed = o['k'] == 'close'
        if ok and any(o['k'] == 'reload' for o in c):
            yield dict(case, ops=c)


def rand_history(rng, spec, L):
    ns = len(spec['spike_samples'])
    sc = spec.get('spike_clusters') or spec['spike_templates']
    ops = []
    closed = False
    foreign_fields = ['ffa', 'ffb', 'ffc']
    legacy_stem = {}
    seen_sc = [list(sc)]
    seen_meta = {}
    for _ in range(L):
        if closed:
            ops.append(dict(k='reload')); closed = False
            continue
        k = rng.pick(['save_clusters', 'save_meta', 'save_meta', 'write_file', 'save_subset', 'close', 'reload', 'reload'])
        if k == 'save_clusters':
            ncl = rng.randrange(1, 6)
            if rng.random() < .4:
                # an "undo": exactly an assignment seen before (the one on disk when the model was
                # opened, or an earlier save) — not a fresh random vector
                new = list(rng.pick(seen_sc))
            else:
                new = [rng.randrange(ncl) for _ in range(ns)]
                seen_sc.append(new)
            ops.append(dict(k=k, sc=new))
        elif k == 'save_meta':
            ids = rng.sample(range(0, 8), rng.randrange(0, 5))
            kind = rng.randrange(4)
            m = []
            for i in ids:
                v = [rng.pick([1, -3, 0, 12]), rng.pick([2.5, 3.0, -0.125, 1e-6]), rng.pick(TEXTS), None][kind if rng.random() < .7 else rng.randrange(4)]
                m.append([i, v])
            field = rng.pick(FIELDS)
            if seen_meta.get(field) and rng.random() < .3:
                m = [list(x) for x in rng.pick(seen_meta[field])]       # re-save an earlier mapping of this field
            else:
                seen_meta.setdefault(field, []).append(m)
            ops.append(dict(k=k, field=field, m=m))
        elif k == 'write_file':
            kind = rng.pick(['valid', 'empty', 'ragged', 'quote', 'no_cluster_id', 'cluster_info', 'legacy_csv', 'legacy_csv',
                             'same_field', 'same_field', 'dup_id'])
            ext = rng.pick(['tsv', 'csv'])
            dl = '\t' if ext == 'tsv' else ','
            ff = rng.pick(foreign_fields)
            # one stem per foreign field; two of them are fragments of the ignored name `cluster_info`
            stem = {'ffa': 'foreign_ffa', 'ffb': 'info', 'ffc': 'cluster'}[ff]
            if kind == 'valid':
                text = dl.join(['cluster_id', ff]) + '\n' + ''.join('%d%s%s\n' % (i, dl, rng.pick(['7', '1.5', 'abc', ''])) for i in rng.sample(range(9), 3))
            elif kind == 'empty':
                text = ''
            elif kind == 'ragged':
                text = dl.join(['cluster_id', ff, ff + '2']) + '\n' + '1%s5\n' % dl + '2%s6%s7%s8\n' % (dl, dl, dl) + '3\n'
            elif kind == 'quote':
                text = dl.join(['cluster_id', ff]) + '\n' + '1%s"unterminated\n2%sx\n' % (dl, dl)
            elif kind == 'legacy_csv':
                # an old-style CSV carrying a field that save_metadata also writes: the saved TSV must win
                ext, dl = 'csv', ','
                ff = rng.pick(FIELDS)
                # several legacy files may name the same field: the loader visits them in the directory order, which
                # is observed at each reload and given to the Lean loader model
                stem = rng.pick(['cluster_%ss' % ff, 'zz_legacy_' + ff, 'cluster_' + ff])
                text = dl.join(['cluster_id', ff]) + '\n' + ''.join('%d%sLEGACY%d\n' % (i, dl, i) for i in rng.sample(range(9), 3))
            elif kind == 'same_field':
                # a foreign file (tsv or csv) carrying a field that save_metadata also writes, before or after the save:
                # which file is shown is decided by the order of the loader's visit (csv before tsv, directory order)
                ff = rng.pick(FIELDS)
                stem = rng.pick(['zz_', 'aa_', 'Cluster_']) + ff
                text = dl.join(['cluster_id', ff]) + '\n' + ''.join('%d%sFOREIGN%d\n' % (i, dl, i) for i in rng.sample(range(9), 3))
            elif kind == 'dup_id':
                # a repeated cluster_id column: read_tsv builds a dict per row, the last non-empty cell is the id
                text = dl.join(['cluster_id', ff, 'cluster_id']) + '\n' + '1%sA%s2\n' % (dl, dl) + '3%sB%s\n' % (dl, dl) + '4%sC\n' % dl
            elif kind == 'no_cluster_id':
                text = dl.join(['id', ff]) + '\n' + '1%s5\n' % dl
            else:
                stem = 'cluster_info'
                text = dl.join(['cluster_id', 'group', 'zz']) + '\n' + '1%sxx%s3\n' % (dl, dl)
            ops.append(dict(k=k, stem=stem, ext=ext, text=text, kind=kind, field=ff, mismatch=(kind == 'valid' and rng.random() < .4)))
        elif k == 'save_subset':
            # store width = max(max_n or n_closest, n_closest); a width of ONE column arises with n_closest_channels = 1
            # (the reloaded channel table was once squeezed to 1-D, corpus/C10/pf_c10a_*); n_closest_channels is 12
            # unless params.py sets it
            widths = [spec['n_channels'], 14, 0, 0, 1, 2]
            ops.append(dict(k=k, nst=rng.randrange(1, 3), rs=rng.randrange(1000), max_n=rng.pick(widths)))
        elif k == 'close':
            ops.append(dict(k=k)); closed = True
        else:
            ops.append(dict(k='reload'))
    if closed or not ops or ops[-1]['k'] != 'reload':
        ops.append(dict(k='reload'))
    # a foreign stem must keep one extension (otherwise two files with the same stem)
    seen = {}
    for o in ops:
        if o['k'] == 'write_file' and o['kind'] == 'legacy_csv':
            continue
        if o['k'] == 'write_file':
            o['ext'] = seen.setdefault(o['stem'], o['ext'])
            if o['kind'] == 'valid' and o.get('mismatch'):
                # a tab-separated .csv / comma-separated .tsv (old phy files): the header line decides
                want = ',' if o['ext'] == 'tsv' else '\t'
                other = '\t' if want == ',' else ','
                if want not in o['text'].split('\n')[0]:
                    o['text'] = o['text'].replace(other, want)
                continue
            if o['kind'] != 'empty':
                dl_old, dl_new = ('\t', ',') if o['ext'] == 'csv' else (',', '\t')
                if ('\t' in o['text'].split('\n')[0]) != (o['ext'] == 'tsv'):
                    o['text'] = o['text'].replace(dl_old, dl_new)
    return ops


def gen(tier, rng):
    q = tier == 'quick'
    for i in range(500 if q else 6000):
        spec = DC.dense_spec(rng, raw=True, feats=False, curated=(i % 2 == 0), ns=rng.randrange(4, 12))
        if rng.random() < .5:
            # a narrow channel neighbourhood (params.py): the subset store then holds only the first 2..3 channels of
            # each template, so WHICH channels are stored matters
            spec['params_extra'] = dict(spec.get('params_extra') or {}, n_closest_channels=rng.pick([1, 2, 3]))
        if i % 5 == 3:
            # spike times given in seconds only (spikes.times.npy next to KiloSort-named files): the samples every
            # reload shows are the ones recovered by rounding
            rate = float(spec['sample_rate'])
            if all(int(np.round(np.float64(x / rate) * rate)) == x for x in spec['spike_samples']):
                spec['times_in_seconds'] = True
        yield dict(p=PID, spec=spec, ops=rand_history(rng, spec, rng.randrange(2, 7 if q else 9)),
                   factor=rng.pick([1., 1., 2., 0.5]))
