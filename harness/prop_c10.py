"""C10 — saved curation state survives any save/reload history (DESIGN.md §5 C10)."""
import csv
import fnmatch
import hashlib
import io
import zlib
from fractions import Fraction
import numpy as np
from . import common as C
from . import dataset as D
from . import dense_common as DC

PID = 'C10'
PARALLEL = True
BATCH = 60
BUDGET_S = {'quick': 90, 'thorough': 1500}
RULE = ('histories over {save_spike_clusters(random reassignment), save_metadata(field, mapping with ints / '
        'floats / non-numeric strings incl. tabs, commas, quotes / None), write foreign TSV/CSV (valid / empty / '
        'ragged / unterminated quote / repeated cluster_id column / ids written differently but numerically equal '
        '(1, 01, 1.0, 1e0), fractional and text ids; also files carrying a field that save_metadata '
        'writes, as .csv and as .tsv, incl. cluster_<field>.tsv itself), save_spikes_subset_waveforms(unit factor 1, 2, '
        '0.5), close, reload} on generated datasets: assignments in spike_clusters.npy / spikes.clusters.npy / a labelled '
        'spikes.clusters.<label>.npy / no file (created by the first load); with and without raw data; recordings of ONE '
        'trace chunk and recordings spanning SEVERAL (a sample rate in params.py so low that 600 s of it is shorter than the '
        'recording, down to one sample per chunk, and / or raw data split over 2..3 files: the export walks the chunks, the '
        'selected spikes lie in any of them, the templates have different best-channel rows); directories that '
        'start with KiloSort\'s own cluster_*.tsv files and / or with the subset store of an earlier session. After every '
        'reload the loaded model is compared with the Lean disk model (metadata in the visiting order of the real '
        'directory, ids with their key type, spike templates / times, subset store PRESENCE, ids, channel rows and '
        'waveforms, names of the assignment files) and with the abstract last-write-wins state; after EVERY step the '
        'bytes of every file in the directory are compared with those before the step: only the files the Lean model '
        'names (touched) may differ; after close only reload follows. '
        'non-trivial = history with >= 2 saves of metadata or clusters and >= 1 reload')
ASSUMPTIONS = ['csv parsing and number parsing/formatting are transport: foreign file texts are parsed with the csv module '
               'and cells classified with int()/float() by the harness before they reach the Lean model (for a float id also '
               'the integer it equals, if any: Python dict keys compare by numeric value); the codec hypotheses of the Lean '
               'theorems (parse(render c) = c, render c nonempty) are required of the SAVED cells only, str / csv quoting / '
               '_try_make_number meet them on the generated values (ints, floats, non-empty strings that are no numerals), '
               'and the type and value of every shown cell is judged',
               'the metadata field name "info" is outside the domain (cluster_info.tsv is deliberately ignored on load)',
               'the order in which glob lists the directory is observed at each reload and given to the Lean loader model '
               '(the code does not determine it); the last saved mapping of a field is claimed when the saved file is the '
               'last visited file saying anything about the field (Lean: view_field_eq_last / metadata_last_saved_among_files)',
               'the spike selection of save_spikes_subset_waveforms (random, C17) and get_template().channel_ids (C05) are '
               'observed on the real model and given to the Lean model',
               'the assignment files present when the history starts (names, contents) are read from the real directory; '
               'whitening_mat_inv.npy, which a load creates when it is absent, is outside the C10 model (the byte '
               'comparison allows exactly that creation)',
               'ids that parse to nan are not generated (a nan key equals no key, the Lean key classes do not cover it)']
FIELDS = ['group', 'quality', 'n_x', 'in', 'ks.label', 'ks.contam', 'ks', 'info.x', 'KSLabel']   # 'in': cluster_in.tsv is a prefix of the ignored cluster_info.tsv; dotted names: the part after the last dot is not a suffix
TEXTS = ['good', 'mua', 'a\tb', 'x,y', 'say "hi"', 'noise ']


def ftok(x):
    """token of a float value (identity of the value; repr round-trips)"""
    return zlib.crc32(repr(float(x)).encode()) % 1000000


def cell_of(v):
    if isinstance(v, bool):
        return {'text': str(v)}
    if isinstance(v, int):
        return {'int': v}
    if isinstance(v, float):
        return {'float': ftok(v)}
    return {'text': v}


def tag(s, fints=None):
    """classification of a cell string as _try_make_number does (transport); `fints` collects, for every float
    token, the integer its value equals when there is one (what decides whether it is the same dict key as an int)"""
    if s == '':
        return ''
    try:
        return 'I%d' % int(s)
    except ValueError:
        try:
            x = float(s)
        except ValueError:
            return 'T' + s
        if fints is not None and x == x and abs(x) != float('inf') and x.is_integer():
            fints[ftok(x)] = int(x)
        return 'F%d' % ftok(x)


def parse_foreign(text, ext, fints=None):
    """what read_tsv sees: None when it raises (empty file), else (header, rows of tagged cells)"""
    first = text.split('\n')[0] if text else ''
    delim = '\t' if '\t' in first else ','
    try:
        rd = csv.reader(io.StringIO(text, newline=''), delimiter=delim)
        header = list(next(rd))
        rows = [list(r) for r in rd]
    except Exception:
        return None
    return dict(header=header, rows=[[tag(c, fints) for c in r] for r in rows])


ASSIGN_PATTERNS = ('spike_clusters.npy', 'spikes.clusters*.npy')      # the loader's _find_path patterns
SUBSET_FILES = ('_phy_spikes_subset.spikes.npy', '_phy_spikes_subset.channels.npy', '_phy_spikes_subset.waveforms.npy')
TIMES_FILES = ('spike_templates.npy', 'spikes.templates.npy', 'spike_times.npy', 'spikes.times.npy', 'spikes.samples.npy')


def _snap(d):
    """name -> digest of the bytes, for everything in the dataset directory"""
    out = {}
    for p in sorted(d.iterdir()):
        out[p.name] = hashlib.sha1(p.read_bytes()).hexdigest()[:16] if p.is_file() else 'dir'
    return out


def _assign_files(d):
    out = []
    for p in sorted(d.iterdir()):
        if fnmatch.fnmatchcase(p.name, ASSIGN_PATTERNS[0]):
            out.append([None, [int(x) for x in np.load(p).ravel()]])
        elif fnmatch.fnmatchcase(p.name, ASSIGN_PATTERNS[1]):
            out.append([p.name[len('spikes.clusters'):-len('.npy')], [int(x) for x in np.load(p).ravel()]])
    return out


def impl(case):
    from phylib.io.model import load_model
    views, sels, snaps = [], [], []
    factor = case.get('factor', 1.)
    with C.scratch_dir() as d:
        params = D.write_dataset(d, case['spec'])
        pre_sel = None
        pre = case.get('pre_export')
        if pre:
            # an earlier session of phy on this dataset exported the subset: the history starts with its files
            m0 = load_model(params)
            np.random.seed(pre['rs'])
            m0.save_spikes_subset_waveforms(max_n_spikes_per_template=pre['nst'], max_n_channels=pre['max_n'],
                                            sample2unit=factor)
            m0.close()
            if (d / SUBSET_FILES[0]).exists():
                pre_sel = [int(x) for x in np.load(d / SUBSET_FILES[0]).ravel()]
        assign0 = _assign_files(d)          # the assignment files the history starts with (names, contents)
        snaps.append(_snap(d))
        m = load_model(params)
        snaps.append(_snap(d))
        used = sorted(int(t) for t in np.unique(m.spike_templates))
        has_raw = m.traces is not None
        init = dict(orders={str(t): [int(c) for c in m.get_template(t).channel_ids] for t in used},
                    closest=int(m.n_closest_channels), n_templates=int(m.n_templates), nsw=int(m.n_samples_waveforms),
                    chunks=[[int(a), int(b)] for a, b in m.traces.iter_chunks()] if has_raw else [],
                    has_raw=has_raw, assign0=assign0, pre_sel=pre_sel)
        closed = False
        for o in case['ops']:
            k = o['k']
            if k == 'save_clusters':
                m.save_spike_clusters(np.array(o['sc'], dtype=np.int32))
            elif k == 'save_meta':
                m.save_metadata(o['field'], {int(i): v for i, v in o['m']})
            elif k == 'write_file':
                (d / (o['stem'] + '.' + o['ext'])).write_text(o['text'])
            elif k == 'save_subset':
                np.random.seed(o.get('rs', 0))
                m.save_spikes_subset_waveforms(max_n_spikes_per_template=o['nst'], max_n_channels=o['max_n'],
                                               sample2unit=factor)
                # the selection (random): read back from the file the call wrote (without raw data nothing is written)
                sels.append([int(x) for x in np.load(d / SUBSET_FILES[0]).ravel()] if has_raw else [])
            elif k == 'close':
                m.close(); closed = True
            elif k == 'reload':
                if not closed:
                    m.close()
                m = load_model(params)
                closed = False
                v = dict(clusters=[int(x) for x in m.spike_clusters],
                         # (key, value) pairs with their Python types, in the order of the dict
                         metadata=[[f, [[[type(kk).__name__, kk], [type(vv).__name__, vv]] for kk, vv in dd.items()]]
                                   for f, dd in m.metadata.items()],
                         templates=[int(x) for x in m.spike_templates], samples=[int(x) for x in m.spike_samples],
                         files=sorted(p.name for p in d.iterdir()),
                         # the order in which the loader's two globs list this directory
                         order=[[p.stem, p.suffix == '.tsv'] for p in list(d.glob('*.csv')) + list(d.glob('*.tsv'))])
                sw = m.spike_waveforms
                if sw is not None:
                    ids = np.atleast_1d(np.asarray(sw.spike_ids))
                    query = ids[::-1] if len(views) % 2 else ids
                    ch = list(range(m.n_channels))
                    got = m.get_waveforms(query, ch)
                    v['store'] = dict(ids=[int(x) for x in ids],
                                      channels=np.asarray(sw.spike_channels).astype(np.int64).tolist(),
                                      query=[int(x) for x in query], chq=ch,
                                      wf=np.asarray(got, dtype=np.float64).tolist(), dtype=str(got.dtype))
                views.append(v)
            snaps.append(_snap(d))
        if not closed:
            m.close()
    return dict(views=views, sels=sels, init=init, snaps=snaps)


def _frac(x):
    f = Fraction(x)
    return f.numerator if f.denominator == 1 else [f.numerator, f.denominator]


def model_query(case, impl_res):
    spec = case['spec']
    ok = impl_res.get('ok') or {}
    # when the real code raised, the verdict does not depend on the model: a well-formed default query
    init = ok.get('init') or dict(orders={}, closest=12, n_templates=len(spec['templates']),
                                  nsw=len(spec['templates'][0]), chunks=[], has_raw=False,
                                  assign0=[[lb, list(sc)] for lb, sc in case.get('assign0', [])], pre_sel=None)
    sels = list(ok.get('sels') or [])
    views = list(ok.get('views') or [])
    fints = {}
    ops = []
    n_sub = n_rel = 0
    for o in case['ops']:
        k = o['k']
        if k == 'save_meta':
            ops.append(dict(k=k, field=o['field'], m=[[int(i), None if v is None else cell_of(v)] for i, v in o['m']]))
        elif k == 'write_file':
            ops.append(dict(k=k, stem=o['stem'], tsv=(o['ext'] == 'tsv'), file=parse_foreign(o['text'], o['ext'], fints)))
        elif k == 'save_subset':
            ops.append(dict(k=k, sel=sels[n_sub] if n_sub < len(sels) else [], max_n=o['max_n']))
            n_sub += 1
        elif k == 'reload':
            q = dict(k=k)
            if n_rel < len(views):
                q['order'] = views[n_rel]['order']
                if views[n_rel].get('store'):
                    q['query'] = views[n_rel]['store']['query']
                    q['chq'] = views[n_rel]['store']['chq']
            n_rel += 1
            ops.append(q)
        else:
            ops.append({kk: vv for kk, vv in o.items() if kk in ('k', 'sc')})
    if init['has_raw']:
        raw = np.array([row for part in spec['raw'] for row in part])[:, spec['channel_map']].tolist()
    else:
        raw = []
    orders = [init['orders'].get(str(t), []) for t in range(init['n_templates'])]
    files0 = []
    for name, text in sorted((spec.get('text_files') or {}).items()):
        stem, _, ext = name.rpartition('.')
        if ext in ('tsv', 'csv'):
            files0.append(dict(stem=stem, tsv=(ext == 'tsv'), file=parse_foreign(text, ext, fints)))
    q = dict(p=PID, op='history', assign0=init['assign0'], files0=files0, ops=ops, factor=_frac(case.get('factor', 1.)),
             spike_templates=spec['spike_templates'], spike_samples=spec['spike_samples'], raw=raw,
             chunks=init['chunks'], orders=orders, nsw=init['nsw'], closest=init['closest'], has_raw=init['has_raw'],
             fints=sorted([t, n] for t, n in fints.items()))
    if init.get('pre_sel') is not None:
        q['subset0'] = dict(sel=init['pre_sel'], max_n=case['pre_export']['max_n'])
    return q


def _cells(arr3):
    return [[[float(Fraction(c[0], c[1])) if isinstance(c, list) else float(c) for c in row] for row in w]
            for w in arr3]


def _val(c):
    if 'int' in c:
        return ('int', c['int'])
    if 'float' in c:
        return ('float', c['float'])
    return ('str', c['text'])


def _real(tv):
    t, v = tv
    if t == 'int':
        return ('int', v)
    if t == 'float':
        return ('float', ftok(v))
    return ('str', v)


def _frame(case, impl_ok, ans_ok):
    """bytes of every file before / after every step (the opening load, then each operation): only the files the Lean
    model names for that step (`touched`, theorem step_writes_only) may differ"""
    steps, snaps = ans_ok['steps'], impl_ok['snaps']
    ks = ['load'] + [o['k'] for o in case['ops']]
    if len(steps) != len(ks) or len(snaps) != len(ks) + 1:
        return 'MACHINERY: number of steps'
    for i, k in enumerate(ks):
        before, after = snaps[i], snaps[i + 1]
        changed = {n for n in set(before) | set(after) if before.get(n) != after.get(n)}
        allowed = set(steps[i])
        if k in ('load', 'reload') and 'whitening_mat_inv.npy' not in before:
            allowed.add('whitening_mat_inv.npy')       # outside the C10 model: a load computes and stores the inverse
        extra = sorted(changed - allowed)
        if extra:
            what = 'step %d (%s) changed %s; the disk model writes only %s' % (i, k, extra, sorted(steps[i]))
            if set(extra) & set(TIMES_FILES):
                return 'SPEC: spike templates / times files rewritten: ' + what
            return 'CORR: ' + what
        if k == 'load' and steps[i] and not set(steps[i]) <= set(after):
            return 'CORR: the opening load did not create %s' % steps[i]
    return None


def judge(case, impl_res, ans):
    if 'err' in ans:
        return 'MACHINERY: driver error %s' % ans['err']
    if 'raised' in impl_res:
        return 'SPEC: real code raised %s (%s) at %s during an in-domain history (no save, export, close or load of such a history may fail)' % (
            impl_res['raised'], impl_res['msg'], impl_res['where'])
    views = impl_res['ok']['views']
    mv = ans['ok']['views']
    if len(views) != len(mv):
        return 'MACHINERY: number of reloads'
    spec = case['spec']
    has_raw = impl_res['ok']['init']['has_raw']
    why = _frame(case, impl_res['ok'], ans['ok'])
    if why and not why.startswith('CORR'):
        return why
    frame_corr = why
    for i, (v, m) in enumerate(zip(views, mv)):
        # the property, against the abstract last-write-wins state
        if v['clusters'] != m['abs_clusters']:
            return 'SPEC: reload %d shows spike clusters %s, last saved %s' % (i, v['clusters'], m['abs_clusters'])
        real_meta = {}
        for f, pairs in v['metadata']:
            real_meta[f] = {_real(kk): _real(vv) for kk, vv in pairs}
            if len(real_meta[f]) != len(pairs):
                return 'MACHINERY: two ids of field %r with the same type and value in one dict (nan ids are not generated)' % f
        for f, vals in m['abs_fields']:
            if f not in m['claimed']:
                # an emptied field, or another file visited later by THIS directory order carries the field
                # (the code does not determine which wins): only the correspondence below applies
                continue
            exp = {('int', int(cid)): _val(c) for cid, c in vals}
            if real_meta.get(f) != exp:
                return 'SPEC: reload %d: metadata field %r is %s, last saved mapping %s' % (i, f, real_meta.get(f), exp)
        if m['templates'] != spec['spike_templates'] or m['samples'] != spec['spike_samples']:
            return 'MACHINERY: the disk model changed spike templates / times (contradicts templates_times_unchanged)'
        if v['templates'] != spec['spike_templates'] or v['samples'] != spec['spike_samples']:
            return 'SPEC: reload %d: spike templates / times changed' % i
        st = v.get('store')
        ms = m['store']
        if st is None and ms is not None:
            # theorem subset_present: once exported (dataset with raw data), every later reload finds the store
            return ('SPEC: reload %d shows no subset store (spike_waveforms is None) although the subset was exported '
                    'before (spikes %s): the exported waveforms cannot be shown' % (i, ms['ids']))
        if st is not None:
            if ms is None:
                return 'CORR: reload %d: the real model has a subset store, the disk model has none' % i
            sel = st['ids']
            if m['tile'] and all(a < b for a, b in zip(sel, sel[1:])) and m['wf_spec'] is not None \
                    and m['wf_spec'] != m['wf']:
                return 'MACHINERY: Lean store lookup differs from its spec (contradicts subset_eq_raw)'
            if st['ids'] != ms['ids']:
                return 'SPEC: reload %d: the subset store holds spikes %s, the last export selected %s' % (i, st['ids'], ms['ids'])
            if st['channels'] != ms['channels']:
                return 'SPEC: reload %d: the subset store does not hold the best channels of each spike\'s template (%s, model %s)' % (
                    i, st['channels'], ms['channels'])
            got = np.array(st['wf'], dtype=np.float64)
            if m['wf_spec'] is None:
                return 'MACHINERY: stored spikes not stored in the disk model'
            exp = np.array(_cells(m['wf_spec']), dtype=np.float64)
            if got.shape != exp.shape:
                return 'SPEC: reload %d: get_waveforms on the stored spikes returned shape %s' % (i, list(got.shape))
            rows = dict(zip(st['ids'], st['channels']))
            for a, q in enumerate(st['query']):
                for b, c in enumerate(st['chq']):
                    if c in rows[q] and not np.array_equal(got[a, :, b], exp[a, :, b]):
                        return ('SPEC: reload %d: subset-store waveforms differ from the unit factor times the raw data '
                                '(spike %d, channel %d)' % (i, q, c))
            if not np.array_equal(got, np.array(_cells(m['wf']), dtype=np.float64)):
                return 'CORR: reload %d: get_waveforms differs from the disk model on a channel the store does not hold' % i
        # correspondence with the disk model (foreign files included), in the visiting order of the real directory;
        # ids with their key type (an id written 1.0 after an id written 1 is the SAME key, shown as the int 1)
        mm = {f: {_val(c): _val(val) for c, val in rows} for f, rows in m['view']['metadata']}
        # "next to metadata found in other TSV/CSV files": a well-formed foreign file contributes its field
        for o in case['ops']:
            if o['k'] == 'write_file' and o['kind'] == 'valid':
                f = o.get('field') or o['stem'][len('foreign_'):]
                last = [x for x in case['ops'] if x['k'] == 'write_file' and x['stem'] == o['stem']][-1]
                if last['kind'] == 'valid' and real_meta.get(f) != mm.get(f):
                    return 'SPEC: reload %d: field %r of the well-formed foreign file %s.%s is %s, the file says %s' % (
                        i, f, o['stem'], o['ext'], real_meta.get(f), mm.get(f))
        if real_meta != mm:
            return 'CORR: reload %d: metadata %s differs from the disk model %s' % (i, real_meta, mm)
        if m['subset'] and SUBSET_FILES[2] not in v['files']:
            return 'CORR: subset files missing'
        if not m['subset'] and SUBSET_FILES[2] in v['files']:
            return 'CORR: subset files present without an export' + ('' if has_raw else ' (dataset without raw data)')
        real_tables = sorted(x for x in v['files'] if x.endswith('.tsv') or x.endswith('.csv'))
        if real_tables != sorted(m['files']):
            return 'CORR: reload %d: metadata files in the directory %s, in the disk model %s' % (i, real_tables, sorted(m['files']))
        real_assign = sorted(x for x in v['files'] if any(fnmatch.fnmatchcase(x, pt) for pt in ASSIGN_PATTERNS))
        if real_assign != sorted(m['assign_files']):
            return 'CORR: reload %d: assignment files in the directory %s, in the disk model %s' % (i, real_assign, sorted(m['assign_files']))
    return frame_corr


def nontrivial(case):
    ks = [o['k'] for o in case['ops']]
    return ks.count('save_meta') + ks.count('save_clusters') >= 2 and 'reload' in ks


def tally(rep, case, impl_res, ans):
    for o in case['ops']:
        rep.count('op:' + o['k'] + ((':' + o['kind'] + ('(delimiter!=suffix)' if o.get('mismatch') else '')) if o['k'] == 'write_file' else ''))
    rep.count('history_len:%d' % len(case['ops']))
    rep.count('unit_factor:%s' % case.get('factor', 1.))
    rep.count('spike_times_stored_as:%s' % ('seconds (spikes.times.npy)' if case['spec'].get('times_in_seconds') else 'samples (spike_times.npy)'))
    rep.count('assignments_in:%s' % case.get('layout', 'ks'))
    rep.count('raw_data:%s' % ('present, %d file(s)' % len(case['spec']['raw']) if case['spec'].get('raw') else 'absent'))
    if 'ok' in impl_res and impl_res['ok']['init']['has_raw']:
        chunks = impl_res['ok']['init']['chunks']
        rep.count('trace_chunks:%s' % (len(chunks) if len(chunks) < 3 else '3..20' if len(chunks) <= 20 else
                                       '>20 (the spike selector keeps 20 of them)'))
        ss = case['spec']['spike_samples']
        pre = impl_res['ok']['init'].get('pre_sel')
        for sel in impl_res['ok']['sels'] + ([pre] if pre else []):
            # where the exported spikes lie: from the second chunk with spikes on, the position of a spike within
            # its chunk is no longer its row in the selection
            per = [[j for j, x in enumerate(sel) if a <= ss[x] < b] for a, b in chunks]
            per = [c for c in per if c]
            rep.count('export:selected_spikes_in_%s' % ('one chunk' if len(per) <= 1 else 'several chunks'))
    rep.count('starts_with:%s' % ('+'.join((['subset store of an earlier session'] if case.get('pre_export') else []) +
                                             (['metadata files'] if case['spec'].get('text_files') else [])) or 'neither store nor metadata files'))
    if 'ok' in impl_res and 'ok' in ans:
        saved_before = False
        n = 0
        exported = bool(case.get('pre_export')) and bool(case['spec'].get('raw'))
        for o in case['ops']:
            exported = exported or (o['k'] == 'save_subset' and bool(case['spec'].get('raw')))
            if o['k'] != 'reload':
                continue
            v, m = impl_res['ok']['views'][n], ans['ok']['views'][n]
            n += 1
            rep.count('reload:store_%s' % ('queried%s' % ((' (single spike)' if len(v['store']['ids']) == 1 else ' (no spike: none of the chunks the selector kept holds one)' if not v['store']['ids'] else '') + (' (single column)' if v['store']['channels'] and len(v['store']['channels'][0]) == 1 else '')) if v.get('store') else 'absent'))
            if exported:
                rep.count('reload:after_an_export(store presence judged)')
            nf = len([f for f, vals in m['abs_fields'] if vals])
            rep.count('saved_fields:claimed', len(m['claimed']))
            rep.count('saved_fields:another_file_visited_later_or_overwritten', nf - len(m['claimed']))
            for f, pairs in v['metadata']:
                if any(kk[0] != 'int' for kk, vv in pairs):
                    rep.count('reload:field_with_float_or_text_ids')


def classify(case, impl_res, ans, why):
    return dict(kind=why.split(':')[0], what=why.split(':')[1].strip()[:40], raised=impl_res.get('raised'),
                where=impl_res.get('where'), layout=case.get('layout', 'ks'),
                ops=sorted({o['k'] for o in case['ops']}))


def shrink(case):
    ops = case['ops']
    for i in range(len(ops)):
        c = ops[:i] + ops[i + 1:]
        # keep legality: after close only reload
        ok = True
        closed = False
        for o in c:
            if closed and o['k'] != 'reload':
                ok = False
            closed = o['k'] == 'close'
        if ok and any(o['k'] == 'reload' for o in c):
            yield dict(case, ops=c)
    if case.get('pre_export'):
        yield {k: v for k, v in case.items() if k != 'pre_export'}
    if case['spec'].get('text_files'):
        yield dict(case, spec={k: v for k, v in case['spec'].items() if k != 'text_files'})


def rand_history(rng, spec, L):
    ns = len(spec['spike_samples'])
    sc = spec.get('spike_clusters') or spec['spike_templates']
    ops = []
    closed = False
    foreign_fields = ['ffa', 'ffb', 'ffc']
    legacy_stem = {}
    seen_sc = [list(sc)]
    seen_meta = {}
    for _ in range(L):
        if closed:
            ops.append(dict(k='reload')); closed = False
            continue
        k = rng.pick(['save_clusters', 'save_meta', 'save_meta', 'write_file', 'save_subset', 'close', 'reload', 'reload'])
        if k == 'save_clusters':
            ncl = rng.randrange(1, 6)
            if rng.random() < .4:
                # an "undo": exactly an assignment seen before (the one on disk when the model was
                # opened, or an earlier save) — not a fresh random vector
                new = list(rng.pick(seen_sc))
            else:
                new = [rng.randrange(ncl) for _ in range(ns)]
                seen_sc.append(new)
            ops.append(dict(k=k, sc=new))
        elif k == 'save_meta':
            ids = rng.sample(range(0, 8), rng.randrange(0, 5))
            kind = rng.randrange(4)
            m = []
            for i in ids:
                v = [rng.pick([1, -3, 0, 12]), rng.pick([2.5, 3.0, -0.125, 1e-6]), rng.pick(TEXTS), None][kind if rng.random() < .7 else rng.randrange(4)]
                m.append([i, v])
            field = rng.pick(FIELDS)
            if seen_meta.get(field) and rng.random() < .3:
                m = [list(x) for x in rng.pick(seen_meta[field])]       # re-save an earlier mapping of this field
            else:
                seen_meta.setdefault(field, []).append(m)
            ops.append(dict(k=k, field=field, m=m))
        elif k == 'write_file':
            kind = rng.pick(['valid', 'empty', 'ragged', 'quote', 'no_cluster_id', 'cluster_info', 'legacy_csv', 'legacy_csv',
                             'same_field', 'same_field', 'dup_id', 'mixed_ids', 'mixed_ids'])
            # a field this history has saved (more often than a random one: the file then competes with the saved one)
            saved_ff = rng.pick(sorted(seen_meta)) if seen_meta and rng.random() < .6 else None
            ext = rng.pick(['tsv', 'csv'])
            dl = '\t' if ext == 'tsv' else ','
            ff = rng.pick(foreign_fields)
            # one stem per foreign field; two of them are fragments of the ignored name `cluster_info`
            stem = {'ffa': 'foreign_ffa', 'ffb': 'info', 'ffc': 'cluster'}[ff]
            if kind == 'valid':
                text = dl.join(['cluster_id', ff]) + '\n' + ''.join('%d%s%s\n' % (i, dl, rng.pick(['7', '1.5', 'abc', ''])) for i in rng.sample(range(9), 3))
            elif kind == 'empty':
                text = ''
            elif kind == 'ragged':
                text = dl.join(['cluster_id', ff, ff + '2']) + '\n' + '1%s5\n' % dl + '2%s6%s7%s8\n' % (dl, dl, dl) + '3\n'
            elif kind == 'quote':
                text = dl.join(['cluster_id', ff]) + '\n' + '1%s"unterminated\n2%sx\n' % (dl, dl)
            elif kind == 'legacy_csv':
                # an old-style CSV carrying a field that save_metadata also writes: the saved TSV must win
                ext, dl = 'csv', ','
                ff = saved_ff or rng.pick(FIELDS)
                # several legacy files may name the same field: the loader visits them in the directory order, which
                # is observed at each reload and given to the Lean loader model
                stem = rng.pick(['cluster_%ss' % ff, 'zz_legacy_' + ff, 'cluster_' + ff])
                text = dl.join(['cluster_id', ff]) + '\n' + ''.join('%d%sLEGACY%d\n' % (i, dl, i) for i in rng.sample(range(9), 3))
            elif kind == 'same_field':
                # a foreign file (tsv or csv) carrying a field that save_metadata also writes, before or after the save:
                # which file is shown is decided by the order of the loader's visit (csv before tsv, directory order)
                # (also under the very name save_metadata uses: written before the save it is saved over, after it it
                # replaces the saved file)
                ff = saved_ff or rng.pick(FIELDS)
                stem = rng.pick(['zz_', 'aa_', 'Cluster_', 'cluster_']) + ff
                text = dl.join(['cluster_id', ff]) + '\n' + ''.join('%d%sFOREIGN%d\n' % (i, dl, i) for i in rng.sample(range(9), 3))
            elif kind == 'dup_id':
                # a repeated cluster_id column: read_tsv builds a dict per row, the last non-empty cell is the id
                text = dl.join(['cluster_id', ff, 'cluster_id']) + '\n' + '1%sA%s2\n' % (dl, dl) + '3%sB%s\n' % (dl, dl) + '4%sC\n' % dl
            elif kind == 'mixed_ids':
                # ids written differently but numerically equal (one dict key: the first row's key object, the last
                # row's value), fractional ids, text ids
                ids = rng.sample(['1', '1.0', '01', '1e0', '2', '2.0', '2e0', '+2', '1.5', '0', '-0', '0.0', '-0.0', 'x', '3', '3.',
                                  ' 3', '10', '1_0', '1e1', '0.5', '5e-1'], rng.randrange(2, 7))
                text = dl.join(['cluster_id', ff]) + '\n' + ''.join('%s%s%s\n' % (i, dl, rng.pick('ABCDEFG')) for i in ids)
            elif kind == 'no_cluster_id':
                text = dl.join(['id', ff]) + '\n' + '1%s5\n' % dl
            else:
                stem = 'cluster_info'
                text = dl.join(['cluster_id', 'group', 'zz']) + '\n' + '1%sxx%s3\n' % (dl, dl)
            ops.append(dict(k=k, stem=stem, ext=ext, text=text, kind=kind, field=ff, mismatch=(kind == 'valid' and rng.random() < .4)))
        elif k == 'save_subset':
            # store width = max(max_n or n_closest, n_closest); a width of ONE column arises with n_closest_channels = 1
            # (the reloaded channel table was once squeezed to 1-D, corpus/C10/pf_c10a_*); n_closest_channels is 12
            # unless params.py sets it
            widths = [spec['n_channels'], 14, 0, 0, 1, 2]
            ops.append(dict(k=k, nst=rng.randrange(1, 3), rs=rng.randrange(1000), max_n=rng.pick(widths)))
        elif k == 'close':
            ops.append(dict(k=k)); closed = True
        else:
            ops.append(dict(k='reload'))
    if closed or not ops or ops[-1]['k'] != 'reload':
        ops.append(dict(k='reload'))
    # a foreign stem must keep one extension (otherwise two files with the same stem)
    seen = {}
    for o in ops:
        if o['k'] == 'write_file' and o['kind'] == 'legacy_csv':
            continue
        if o['k'] == 'write_file':
            o['ext'] = seen.setdefault(o['stem'], o['ext'])
            if o['kind'] == 'valid' and o.get('mismatch'):
                # a tab-separated .csv / comma-separated .tsv (old phy files): the header line decides
                want = ',' if o['ext'] == 'tsv' else '\t'
                other = '\t' if want == ',' else ','
                if want not in o['text'].split('\n')[0]:
                    o['text'] = o['text'].replace(other, want)
                continue
            if o['kind'] != 'empty':
                dl_old, dl_new = ('\t', ',') if o['ext'] == 'csv' else (',', '\t')
                if ('\t' in o['text'].split('\n')[0]) != (o['ext'] == 'tsv'):
                    o['text'] = o['text'].replace(dl_old, dl_new)
    return ops


KS_TABLES = {   # what KiloSort / phy leave in a sorted directory before the first curation
    'cluster_KSLabel.tsv': 'cluster_id\tKSLabel\n0\tgood\n1\tmua\n2\tgood\n',
    'cluster_Amplitude.tsv': 'cluster_id\tAmplitude\n0\t12.5\n1\t7.0\n2\t31.25\n',
    'cluster_ContamPct.tsv': 'cluster_id\tContamPct\n0\t0.0\n1\t12.5\n2\t100.0\n',
    'cluster_group.tsv': 'cluster_id\tgroup\n0\tgood\n2\tnoise\n',
    'cluster_groups.csv': 'cluster_id,group\n1,unsorted\n',          # older phy
    'cluster_info.tsv': 'cluster_id\tgroup\tn_spikes\n0\tzz\t5\n',  # ignored by the loader
}


def gen(tier, rng):
    q = tier == 'quick'
    for i in range(500 if q else 6000):
        no_raw = (i % 11 == 7)
        spec = DC.dense_spec(rng, raw=not no_raw, feats=False, curated=(i % 2 == 0), ns=rng.randrange(4, 12))
        if rng.random() < .5:
            # a narrow channel neighbourhood (params.py): the subset store then holds only the first 2..3 channels of
            # each template, so WHICH channels are stored matters
            spec['params_extra'] = dict(spec.get('params_extra') or {}, n_closest_channels=rng.pick([1, 2, 3]))
        if not no_raw and i % 3 != 0:
            # a recording that spans SEVERAL trace chunks (the export of the subset goes chunk by chunk, traces.py
            # iter_waveforms): chunks last 600 s, so either the sample rate of params.py is so low that a chunk is
            # shorter than the recording (down to ONE sample per chunk), or the raw data come in several files (a
            # chunk never crosses a file boundary), or both
            rows = spec['raw'][0]
            how = rng.pick(['rate', 'rate', 'files', 'both'])
            if how in ('rate', 'both'):
                k = rng.randrange(1, max(2, len(rows) // 2))
                spec['sample_rate'] = k / 600.
                assert int(round(600. * spec['sample_rate'])) == k
            if how in ('files', 'both'):
                cuts = sorted(rng.sample(range(1, len(rows)), rng.randrange(1, 3)))
                spec['raw'] = [rows[a:b] for a, b in zip([0] + cuts, cuts + [len(rows)])]
        if i % 5 == 3:
            # spike times given in seconds only (spikes.times.npy next to KiloSort-named files): the samples every
            # reload shows are the ones recovered by rounding
            rate = float(spec['sample_rate'])
            if all(int(np.round(np.float64(x / rate) * rate)) == x for x in spec['spike_samples']):
                spec['times_in_seconds'] = True
        # where the assignments live: spike_clusters.npy, the ALF name, a LABELLED ALF name (the loader globs
        # spikes.clusters*.npy), or nowhere (the first load creates spike_clusters.npy from the templates)
        layout = 'ks' if spec.get('spike_clusters') is not None else 'none'
        assign0 = [[None, list(spec['spike_clusters'])]] if layout == 'ks' else []
        if layout == 'ks' and rng.random() < .5:
            label = rng.pick(['', '.probe00', '.probe01', '.a1b2c3', '_v2'])
            layout = 'alf' if label == '' else 'alf_labelled'
            sc = spec.pop('spike_clusters')
            spec['extra_npy'] = dict(spec.get('extra_npy') or {}, **{'spikes.clusters%s.npy' % label: ['int32', list(sc)]})
            assign0 = [[label, list(sc)]]
        if rng.random() < .4:
            # a directory as KiloSort / an earlier phy leaves it: `group` and `KSLabel` are also fields the history saves
            spec['text_files'] = {k: KS_TABLES[k] for k in rng.sample(sorted(KS_TABLES), rng.randrange(1, 5))}
        ops = rand_history(rng, spec, rng.randrange(2, 7 if q else 9))
        if i % 7 == 4:
            # a contest for one field between the saved cluster_<f>.tsv and a foreign .tsv, in both orders of writing:
            # the file the directory lists LAST wins (view_field_eq_last) - the branch where the judge claims the saved
            # mapping only if the saved file is that one
            f = rng.pick(FIELDS)
            stem = rng.pick(['zz_', 'aa_', 'Cluster_', 'Zcluster_']) + f
            pair = [dict(k='save_meta', field=f, m=[[i2, rng.pick([1, 2.5, 'good'])] for i2 in rng.sample(range(8), rng.randrange(1, 4))]),
                    dict(k='write_file', stem=stem, ext='tsv', kind='same_field', field=f, mismatch=False,
                         text='cluster_id\t%s\n' % f + ''.join('%d\tFOREIGN%d\n' % (i2, i2) for i2 in rng.sample(range(9), 3)))]
            if rng.random() < .5:
                pair.reverse()
            ops = [o for o in ops if not (o['k'] == 'write_file' and o['stem'] == stem)]
            ops = pair + ([dict(k='reload')] if rng.random() < .5 else []) + ops
        case = dict(p=PID, spec=spec, ops=ops,
                    factor=rng.pick([1., 1., 2., 0.5]), layout=layout, assign0=assign0)
        if not no_raw and rng.random() < .2:
            # the directory already holds the subset store an earlier session exported
            case['pre_export'] = dict(nst=rng.randrange(1, 3), rs=rng.randrange(1000), max_n=rng.pick([spec['n_channels'], 0, 0, 1, 2]))
        yield case
