"""C05 — template records are aligned with their channel list (DESIGN.md §5 C05)."""
import numpy as np
from . import common as C
from . import dataset as D
from . import dense_common as DC

PID = 'C05'
PARALLEL = True
BATCH = 100
BUDGET_S = {'quick': 80, 'thorough': 1200}
RULE = ('dense datasets: small-integer templates (amplitude ties, ties at the maximum, flat channels), whitening '
        'absent / diagonal dyadic / supplied inverse, geometries with more and fewer channels than the '
        'neighbourhood size (n_closest 1..5 and 12), 1..2 shanks, thresholds {0, 1/4, 1/2, 1}, explicit channel '
        'lists (the empty one included), whitened and unwhitened requests; a third of the dense datasets on a '
        'probe-like layout of 16..24 sites (20..100 um pitch) whose coordinates are stored in every integer dtype '
        '(int8 .. uint64) and float32/64 - squared distances beyond the range of the 8- and 16-bit types; sparse '
        'datasets: column tables (int16 .. int64, uint16 .. uint64: unused = the dtype\'s -1, all-ones when unsigned) '
        'with unused and all-zero columns, arbitrary values under unused columns, and stored columns whose size '
        'relative to the template maximum is spread over 2^-27 .. 1 on both sides of the 1e-6 "signal-free" line. '
        'Floating-point class (one extra dense dataset in nine): the unwhitened product is NOT exact - diagonal whitening '
        'with non-dyadic gains (0.7, 1.3, 3, ...: inverse stored, stored alone, or computed by the loader), full 24-bit '
        'single precision templates with almost-tied channels, or templates.npy in double precision holding values single '
        'precision cannot hold (baseline + 2^-28 ripple); the Lean model rounds the product to double and then to single '
        'precision (roundNE) and the record must be the C05 record OF THE RETURNED single precision waveform: amplitude '
        'vector = peak-to-peak of the returned columns, order and threshold test on those; judged where `max - min` is '
        'exact on every channel (one-sided / one-sign columns) and the dot product has one term per entry. '
        'One case = one loaded TemplateModel, every template queried in several variants; the Lean executable '
        'decides the C05 predicate on each real record. non-trivial = record with >= 2 listed channels')
ASSUMPTIONS = ['float32 cast and matrix product are exact on the generated values (small integers x dyadic diagonal), except in the '
               'floating-point class: there np.dot(x, diagonal) * scaling is one correctly rounded double product followed by one '
               'correctly rounded scaling, astype(float32) is round-to-nearest-even (Lean roundNE, compared value by value with '
               'the returned columns), and the per-channel subtraction max - min is exact (checked by the Lean driver on the '
               'model waveform: ptp_exact; a record where it is not is not judged)',
               'the float32 comparison `max|column| > max * 1e-6` of sparse storage agrees with the exact one on the '
               'generated values: no column lies within 2^-20 (relative) of the line',
               'np.argsort tie order is not modelled: the predicate accepts any order among equal keys; the exact '
               'comparison with the model is made on tie-free inputs only']


def _rec(b):
    return dict(template=np.asarray(b.template, dtype=np.float64).tolist(),
                channels=[int(x) for x in np.asarray(b.channel_ids).ravel()],
                amplitude=[float(x) for x in np.asarray(b.amplitude, dtype=np.float64).ravel()],
                best=int(b.best_channel))


def impl(case):
    with C.scratch_dir() as d:
        m = D.load(D.write_dataset(d, case['spec']), reopen=bool(case.get('reopen')))
        try:
            m.n_closest_channels = case['n_closest']
            m.amplitude_threshold = case['thr_default']
            out = dict(wmi=np.asarray(m.wmi, dtype=np.float64).tolist(), recs=[])
            for v in case['variants']:
                kw = dict(unwhiten=v['unwhiten'])
                if v.get('thr') is not None:
                    kw['amplitude_threshold'] = v['thr']
                if v.get('explicit') is not None:
                    ek = v.get('ekind', 'int64')      # how the caller hands over the explicit channel list
                    kw['channel_ids'] = (list(v['explicit']) if ek == 'list' else tuple(v['explicit']) if ek == 'tuple'
                                         else np.array(v['explicit'], dtype=ek))
                try:
                    b = m.get_template(v['t'], **kw)
                    r = _rec(b)
                    if v.get('accessors'):
                        r['acc_channels'] = [int(x) for x in m.get_template_channels(v['t'])]
                        r['acc_waveforms'] = np.asarray(m.get_template_waveforms(v['t']), dtype=np.float64).tolist()
                        r['default'] = _rec(m.get_template(v['t']))
                    out['recs'].append(r)
                except Exception as e:  # noqa
                    import traceback
                    tb = traceback.extract_tb(e.__traceback__)
                    out['recs'].append(dict(raised=type(e).__name__, msg=str(e)[:200],
                                            where='%s:%d' % (tb[-1].filename.split('/')[-1], tb[-1].lineno)))
            out['cluster_channels'] = {}
            for c in case.get('clusters', []):
                out['cluster_channels'][str(c)] = [int(x) for x in m.get_cluster_channels(c)]
        finally:
            m.close()
    return out


def _q(case, v, wmi, impl_rec=None):
    spec = case['spec']
    Tw = DC.fracs(spec['templates'][v['t']])
    # `template_scaling` of params.py: part of the Lean model of _unwhiten
    q = dict(p=PID, wmi=wmi, Tw=Tw, unwhiten=v['unwhiten'], scaling=DC.frac(float(spec.get('template_scaling') or 1.)))
    if spec.get('template_ind') is not None:
        dt = np.dtype((spec.get('dtypes') or {}).get('template_ind', 'int32'))
        q.update(op='sparse', cols=spec['template_ind'][v['t']], cols_dtype=dict(unsigned=dt.kind == 'u', bits=8 * dt.itemsize))
    else:
        thr = v.get('thr')
        if thr is None:
            thr = case['thr_default']
        q.update(op='dense', positions=DC.fracs(spec['channel_positions']), shanks=spec.get('channel_shanks'),
                 n_closest=case['n_closest'], thr=DC.frac(thr), explicit=v.get('explicit'))
    if spec.get('_float_store') and spec.get('template_ind') is None:
        q['float_store'] = int(spec['_float_store'])
    if impl_rec is not None and 'raised' not in impl_rec:
        q['impl'] = dict(template=DC.fracs(impl_rec['template']), channels=impl_rec['channels'],
                         amplitude=DC.fracs(impl_rec['amplitude']), best=impl_rec['best'])
    return q


def model_query(case, impl_res):
    # the inverse whitening matrix shown by the model (the judge checks it against the stored matrices)
    wmi = DC.fracs(impl_res['ok']['wmi'] if 'ok' in impl_res else DC.wmi_of(case['spec']))
    qs = []
    for i, v in enumerate(case['variants']):
        rec = impl_res['ok']['recs'][i] if 'ok' in impl_res else None
        qs.append(_q(case, v, wmi, rec))
    return dict(p=PID, op='multi', qs=qs)


def _tie_free(m):
    a = [DC.to_fraction(x) for x in m['model']['amplitude']]
    return len(set(a)) == len(a) and m.get('determined', True)


def judge(case, impl_res, ans):
    if 'err' in ans:
        return 'MACHINERY: driver error %s' % ans['err']
    if 'raised' in impl_res:
        return 'SPEC: real code raised %s (%s) at %s on an in-domain dataset' % (
            impl_res['raised'], impl_res['msg'], impl_res['where'])
    ok = impl_res['ok']
    bad = DC.check_wmi(case['spec'], ok['wmi'])
    if bad:
        return 'SPEC: ' + bad
    for i, (v, r, m) in enumerate(zip(case['variants'], ok['recs'], ans['ok']['res'])):
        if _outside(case, v):
            continue
        if m.get('ptp_exact') is False or (v['unwhiten'] and m.get('one_term') is False):
            continue        # floating-point class: the subtraction / the dot product rounds on this waveform - no exact verdict
        if m.get('raises') is True:
            # no stored column in use carries signal (hypothesis `hk` of sparse_record_ok fails): outside the property - there
            # is no record; the model (`sparseRaises`, sparse_raises_of_no_signal) says the real code raises ValueError
            if r.get('raised') != 'ValueError':
                return 'CORR: sparse template %d without a kept column: the model says ValueError, the real code %s' % (
                    v['t'], ('raised ' + r['raised']) if 'raised' in r else 'returned a record')
            continue
        if m['model_spec'] is not True:
            return 'MACHINERY: model record rejected by its own spec (contradicts the theorem), variant %d' % i
        if 'raised' in r:
            return 'SPEC: get_template(%d, %s) raised %s (%s) at %s' % (v['t'], {k: v[k] for k in v if k != 't'}, r['raised'], r['msg'], r['where'])
        if m['impl_spec'] is not True:
            return ('SPEC: record of template %d (%s) violates the C05 predicate%s: channels %s amplitude %s best %d' % (
                v['t'], 'explicit list' if v.get('explicit') is not None else ('sparse' if case['spec'].get('template_ind') is not None else 'dense'),
                ' (stored channels in use that carry signal: %s)' % m['kept'] if 'kept' in m else
                ' (the number of listed channels among those tied at the edge of the neighbourhood does not fit a set of n_closest nearest channels)' if m.get('impl_count') is False and m.get('impl_base') is True else '',
                r['channels'], r['amplitude'], r['best']))
        if v.get('accessors'):
            if r['acc_channels'] != r['default']['channels'] or r['acc_waveforms'] != r['default']['template']:
                return 'SPEC: get_template_channels / get_template_waveforms disagree with get_template'
        if _tie_free(m):
            mm = m['model']
            got = dict(template=DC.fracs(r['template']), channels=r['channels'], amplitude=DC.fracs(r['amplitude']), best=r['best'])
            if got != mm:
                return 'CORR: tie-free record differs from the model (variant %d)' % i
    return None


def _outside(case, v):
    """Inputs outside the quantifier that a hand-made / shrunk case may hold (never generated): a sparse row that stores
    the same channel in two columns in use - "the template on that channel" is then not defined (hypothesis `hdist` of
    sparse_record_ok).  No verdict on such a variant."""
    spec = case['spec']
    if spec.get('template_ind') is None:
        return False
    dt = np.dtype((spec.get('dtypes') or {}).get('template_ind', 'int32'))
    m1 = int(np.iinfo(dt).max) if dt.kind == 'u' else -1
    used = [c for c in spec['template_ind'][v['t']] if c != m1]
    return len(set(used)) != len(used)


def model_query_multi_supported():
    return True


def nontrivial(case):
    return case['spec']['n_channels'] >= 2


def tally(rep, case, impl_res, ans):
    rep.count('template_scaling:%s' % (case['spec'].get('template_scaling') or 1))
    rep.count('positions_dtype:' + (case['spec'].get('dtypes') or {}).get('channel_positions', 'float64'))
    if case.get('reopen'):
        rep.count('second_model_on_the_directory')
    spec = case['spec']
    if spec.get('_float_store'):
        rep.count('inexact_float_path:templates.npy %s, whitening %s' % ('float64' if spec['_float_store'] == 53 else 'float32 (24-bit values)',
                                                                         spec.get('_float_whitening')))
        if 'ok' in ans:
            for v, m in zip(case['variants'], ans['ok']['res']):
                judged = not (m.get('ptp_exact') is False or (v['unwhiten'] and m.get('one_term') is False))
                rep.count('inexact_float_path_records:%s%s' % ('unwhitened (rounded to single precision)' if v['unwhiten'] else 'as stored',
                                                               '' if judged else ', NOT judged (max - min or the dot product rounds)'))
    rep.count('storage:%s' % ('sparse' if spec.get('template_ind') is not None else 'dense'))
    if spec.get('template_ind') is not None:
        rep.count('column_table_dtype:' + (spec.get('dtypes') or {}).get('template_ind', 'int32'))
        for k, n in (spec.get('_levels') or {}).items():
            rep.count('stored_column_relative_size:' + k, n)
    if spec.get('_probe_layout'):
        rep.count('probe_layout:%s' % spec['_probe_layout'])
    if spec.get('_wraps'):
        rep.count('squared_distances_beyond_the_range_of_the_positions_dtype')
    rep.count('file_names:%s%s' % ('ALF' if spec.get('alf') else 'KiloSort', ', shanks' if spec.get('channel_shanks') is not None else ''))
    rep.count('n_closest:%d' % case['n_closest'])
    if spec.get('_scaled_template'):
        rep.count('one_template_2^%d_times_larger_than_the_others' % spec['_scaled_template'])
    rep.count('shanks:%s' % (spec.get('channel_shanks') is not None))
    rep.count('records', len(case['variants']))
    for v in case['variants']:
        if v.get('explicit') is not None:
            rep.count('explicit_list:' + v.get('ekind', 'int64') + (' (empty)' if not v['explicit'] else ''))
        rep.count('unwhiten:%s' % v['unwhiten'])
    if 'ok' in ans:
        for m in ans['ok']['res']:
            if not _tie_free(m):
                rep.count('amplitude_tie')


def classify(case, impl_res, ans, why):
    import re
    spec = case['spec']
    dts = spec.get('dtypes') or {}
    sparse = spec.get('template_ind') is not None
    m = re.search(r'raised (\w+)', why)
    pdt = dts.get('channel_positions', 'float64')
    return dict(kind=why.split(':')[0], storage='sparse' if sparse else 'dense',
                explicit=('explicit list' in why), raised=impl_res.get('raised'),
                # narrower: the exception of the single request, integer-typed coordinates, the dtype of the column table
                request_raised=m.group(1) if m and 'raised' not in impl_res else None,
                integer_positions=pdt if (not sparse and np.dtype(pdt).kind in 'iu') else None,
                column_table=dts.get('template_ind', 'int32') if sparse else None)


def shrink(case):
    if len(case['variants']) > 1:
        for i in range(len(case['variants'])):
            yield dict(case, variants=[case['variants'][i]])


SIGNED_TABLES = ['int32', 'int32', 'int64', 'int16']
UNSIGNED_TABLES = ['uint32', 'uint32', 'uint16', 'uint64']


def _level(rng):
    """size of a stored column relative to the template maximum: an exactly representable number 2^-e * m/1024
    (1024 <= m < 2048) between 2^-27 and 1, at least 2^-20 (relative) away from 1e-6 -> (value, label)"""
    r = rng.random()
    if r < .35:        # next to the line: 1e-6 = 2^-20 * 1.048576
        e, m = 20, rng.pick([1024, 1056, 1072, 1073, 1074, 1075, 1088, 1152, 1536, 2047])
    elif r < .5:
        e, m = rng.pick([19, 21]), rng.randrange(1024, 2048)
    else:
        e, m = rng.randrange(0, 28), rng.pick([1024, 1024, rng.randrange(1024, 2048)])
    x = 2.0 ** -e * m / 1024
    assert abs(x - 1e-6) > 1e-6 * 2.0 ** -20
    lab = ('below 1e-8' if x < 1e-8 else '1e-8..1e-7' if x < 1e-7 else '1e-7..9e-7' if x < 9e-7 else '9e-7..1e-6' if x < 1e-6 else
           '1e-6..1.1e-6' if x < 1.1e-6 else '1.1e-6..1e-5' if x < 1e-5 else '1e-5..1e-3' if x < 1e-3 else '1e-3..1')
    return x, lab


def _sparse_case(rng, nc, q):
    nt = rng.randrange(2, 5); nsw = rng.randrange(2, 6); nloc = rng.randrange(2, nc + 1)
    spread = rng.random() < .6
    spec = DC.dense_spec(rng, nt=nt, nc=nc, nsw=nsw, feats=False, curated=False, shanks=False,
                         whiten=rng.pick(['none', 'diag', 'diag+inv', 'diag-invonly']) if spread else None)
    # the dtype of the column table decides what "unused (-1)" looks like in the file
    tdt = rng.pick(SIGNED_TABLES if rng.random() < .5 else UNSIGNED_TABLES)
    m1 = int(np.iinfo(tdt).max) if np.dtype(tdt).kind == 'u' else -1
    ind, tm, levels = [], [], {}
    for t in range(nt):
        row = rng.sample(range(nc), nloc)
        data = [[float(rng.randrange(-8, 9)) for _ in range(nloc)] for _ in range(nsw)]
        for j in range(nloc):
            r = rng.random()
            if r < .2:
                row[j] = m1           # unused column: whatever it holds (left as drawn, sometimes huge) is ignored
                if rng.random() < .4:
                    for s_ in range(nsw):
                        data[s_][j] *= 2.0 ** rng.pick([6, 12, 20])
            elif r < .35:
                for s_ in range(nsw):
                    data[s_][j] = 0.
        if all(all(x == 0 for x in col) for col in zip(*data)):
            data[0][0] = 4.
        # at least one stored channel that is used and carries signal
        if not any(row[j] != m1 and any(data[s_][j] != 0 for s_ in range(nsw)) for j in range(nloc)):
            used = [c for c in row if c != m1]
            row[0] = next(c for c in range(nc) if c not in used)
            data[0][0] = 4.
        if spread:
            # one used column holds the template maximum 8 = 2^3; the other used non-zero columns are scaled to a
            # chosen size relative to it: entries 0 / +-(8 x level), so that every float32 operation stays exact
            usedj = [j for j in range(nloc) if row[j] != m1 and any(data[s_][j] != 0 for s_ in range(nsw))]
            top = rng.pick(usedj)
            data[rng.randrange(nsw)][top] = rng.pick([8., -8.])
            for j in usedj:
                if j == top or rng.random() < .25:
                    continue
                x, lab = _level(rng)
                levels[lab] = levels.get(lab, 0) + 1
                for s_ in range(nsw):
                    data[s_][j] = 0. if data[s_][j] == 0 else (8. * x if data[s_][j] > 0 else -8. * x)
        ind.append(row); tm.append(data)
    if rng.random() < .35:
        # templates of very different overall size (one unit a few million times larger than another):
        # "signal-free" is relative to the template's own peak, never to the other templates
        big = rng.randrange(nt)
        k = rng.pick([10, 22])
        tm[big] = [[x * 2.0 ** k for x in r] for r in tm[big]]
        spec['_scaled_template'] = k
    spec['templates'] = tm
    spec['template_ind'] = ind
    spec['dtypes'] = dict(spec.get('dtypes') or {}, template_ind=tdt)
    spec['_levels'] = levels
    variants = [dict(t=t, unwhiten=u) for t in range(nt) for u in (True, False)]
    return dict(p=PID, spec=spec, n_closest=12, thr_default=0, variants=variants)


def _wraps(positions, dtype):
    dt = np.dtype(dtype)
    if dt.kind not in 'iu':
        return False
    p = np.asarray(positions, dtype=np.float64)
    d2 = ((p[:, None, :] - p[None, :, :]) ** 2).sum(axis=2)
    return bool(d2.max() > np.iinfo(dt).max)


def _float_case(rng):
    """dense dataset of the floating-point class (DC.inexact_float_spec): the same requests as on the exact datasets"""
    nc = rng.randrange(2, 9)
    spec = DC.inexact_float_spec(rng, DC.dense_spec(rng, nc=nc, feats=False, curated=False, whiten='none',
                                                    shanks=rng.random() < .4, nt=rng.randrange(2, 4)))
    variants = []
    for t in range(len(spec['templates'])):
        variants.append(dict(t=t, unwhiten=True, accessors=True))
        variants.append(dict(t=t, unwhiten=rng.random() < .75, thr=rng.pick([0, .25, .5, 1.])))
        variants.append(dict(t=t, unwhiten=rng.random() < .75,
                             explicit=rng.sample(range(nc), 0 if rng.random() < .1 else rng.randrange(1, nc + 1)),
                             ekind=rng.pick(['int64', 'list', 'int32'])))
    return dict(p=PID, spec=spec, n_closest=rng.pick([1, 2, 3, 5, 12]), thr_default=rng.pick([0, 0, .25, .5]),
                variants=variants, reopen=rng.random() < .2)


def gen(tier, rng):
    q = tier == 'quick'
    for i in range(220 if q else 4000):
        if i % 9 == 4:
            yield _float_case(rng)      # floating-point class, in addition to the exact datasets
        nc = rng.randrange(2, 9)
        if i % 4 == 3:
            yield _sparse_case(rng, nc, q)      # sparse storage
            continue
        probe = i % 3 == 1
        if probe:
            nc = rng.pick([16, 16, 20, 24])
        spec = DC.dense_spec(rng, nc=nc, feats=False, shanks=None if probe else (i % 3 == 0), nt=rng.randrange(2, 4) if probe else None)
        if i % 4 == 2:
            spec['alf'] = True            # the same dataset under its ALF file names (channels.shanks.npy, ...)
        nt = len(spec['templates'])
        if i % 5 == 0:     # force amplitude ties / flat channels
            for t in spec['templates']:
                for row in t:
                    row[rng.randrange(nc)] = row[rng.randrange(nc)]
        variants = []
        for t in range(nt):
            variants.append(dict(t=t, unwhiten=True, accessors=True))
            variants.append(dict(t=t, unwhiten=rng.random() < .5, thr=rng.pick([0, .25, .5, 1.])))
            variants.append(dict(t=t, unwhiten=rng.random() < .5,
                                 explicit=rng.sample(range(nc), 0 if rng.random() < .12 else rng.randrange(1, min(nc, 8) + 1)),
                                 ekind=rng.pick(['int64', 'list', 'uint32', 'int32', 'tuple'])))
        # probe coordinates stored as floats or as (un)signed integers: the geometry is the same
        if probe:
            pdt = rng.pick(list(DC.INT_POSITION_DTYPES) + ['int16', 'uint16', 'float32', 'float64'])
            spec['channel_positions'] = DC.probe_positions(rng, nc, pdt)
            spec['_probe_layout'] = '%d sites' % nc
            if _wraps(spec['channel_positions'], pdt):
                spec['_wraps'] = True
        else:
            pdt = rng.pick(['float64', 'float64', 'float32', 'int32', 'int64', 'uint32', 'uint64', 'uint16', 'int16'])
        spec.setdefault('dtypes', {})
        spec['dtypes'] = dict(spec['dtypes'], channel_positions=pdt)
        yield dict(p=PID, spec=spec, n_closest=rng.pick([1, 2, 3, 5, 12]), thr_default=rng.pick([0, 0, .25, .5]),
                   variants=variants, reopen=rng.random() < .3)
