"""C05 — template records are aligned with their channel list (DESIGN.md §5 C05)."""
import numpy as np
from . import common as C
from . import dataset as D
from . import dense_common as DC

PID = 'C05'
PARALLEL = True
BATCH = 100
BUDGET_S = {'quick': 80, 'thorough': 1200}
RULE = ('dense datasets: small-integer templates (amplitude ties, ties at the maximum, flat channels), whitening '
        'absent / diagonal dyadic / supplied inverse, geometries with more and fewer channels than the '
        'neighbourhood size (n_closest 1..5 and 12), 1..2 shanks, thresholds {0, 1/4, 1/2, 1}, explicit channel '
        'lists, whitened and unwhitened requests; sparse datasets: column tables with -1 and all-zero columns. '
        'One case = one loaded TemplateModel, every template queried in several variants; the Lean executable '
        'decides the C05 predicate on each real record. non-trivial = record with >= 2 listed channels')
ASSUMPTIONS = ['float32 cast and matrix product are exact on the generated values (small integers x dyadic diagonal)',
               'np.argsort tie order is not modelled: the predicate accepts any order among equal keys; the exact '
               'comparison with the model is made on tie-free inputs only']


def _rec(b):
    return dict(template=np.asarray(b.template, dtype=np.float64).tolist(),
                channels=[int(x) for x in np.asarray(b.channel_ids).ravel()],
                amplitude=[float(x) for x in np.asarray(b.amplitude, dtype=np.float64).ravel()],
                best=int(b.best_channel))


def impl(case):
    with C.scratch_dir() as d:
        m = D.load(D.write_dataset(d, case['spec']), reopen=bool(case.get('reopen')))
        try:
            m.n_closest_channels = case['n_closest']
            m.amplitude_threshold = case['thr_default']
            out = dict(wmi=np.asarray(m.wmi, dtype=np.float64).tolist(), recs=[])
            for v in case['variants']:
                kw = dict(unwhiten=v['unwhiten'])
                if v.get('thr') is not None:
                    kw['amplitude_threshold'] = v['thr']
                if v.get('explicit') is not None:
                    ek = v.get('ekind', 'int64')      # how the caller hands over the explicit channel list
                    kw['channel_ids'] = (list(v['explicit']) if ek == 'list' else tuple(v['explicit']) if ek == 'tuple'
                                         else np.array(v['explicit'], dtype=ek))
                try:
                    b = m.get_template(v['t'], **kw)
                    r = _rec(b)
                    if v.get('accessors'):
                        r['acc_channels'] = [int(x) for x in m.get_template_channels(v['t'])]
                        r['acc_waveforms'] = np.asarray(m.get_template_waveforms(v['t']), dtype=np.float64).tolist()
                        r['default'] = _rec(m.get_template(v['t']))
                    out['recs'].append(r)
                except Exception as e:  # noqa
                    import traceback
                    tb = traceback.extract_tb(e.__traceback__)
                    out['recs'].append(dict(raised=type(e).__name__, msg=str(e)[:200],
                                            where='%s:%d' % (tb[-1].filename.split('/')[-1], tb[-1].lineno)))
            out['cluster_channels'] = {}
            for c in case.get('clusters', []):
                out['cluster_channels'][str(c)] = [int(x) for x in m.get_cluster_channels(c)]
        finally:
            m.close()
    return out


def _q(case, v, wmi, impl_rec=None):
    spec = case['spec']
    Tw = DC.fracs(spec['templates'][v['t']])
    q = dict(p=PID, wmi=wmi, Tw=Tw, unwhiten=v['unwhiten'])
    if spec.get('template_ind') is not None:
        q.update(op='sparse', cols=spec['template_ind'][v['t']])
    else:
        thr = v.get('thr')
        if thr is None:
            thr = case['thr_default']
        q.update(op='dense', positions=DC.fracs(spec['channel_positions']), shanks=spec.get('channel_shanks'),
                 n_closest=case['n_closest'], thr=DC.frac(thr), explicit=v.get('explicit'))
    if impl_rec is not None and 'raised' not in impl_rec:
        q['impl'] = dict(template=DC.fracs(impl_rec['template']), channels=impl_rec['channels'],
                         amplitude=DC.fracs(impl_rec['amplitude']), best=impl_rec['best'])
    return q


def model_query(case, impl_res):
    wmi = impl_res['ok']['wmi'] if 'ok' in impl_res else DC.wmi_of(case['spec'])
    # params.py may carry `template_scaling`: unwhitened templates are (template . wmi) x scaling
    sc = float(case['spec'].get('template_scaling') or 1.)
    wmi = DC.fracs((np.asarray(wmi, dtype=np.float64) * sc).tolist())
    qs = []
    for i, v in enumerate(case['variants']):
        rec = impl_res['ok']['recs'][i] if 'ok' in impl_res else None
        qs.append(_q(case, v, wmi, rec))
    return dict(p=PID, op='multi', qs=qs)


def _tie_free(m):
    a = [DC.to_fraction(x) for x in m['model']['amplitude']]
    return len(set(a)) == len(a) and m.get('determined', True)


def judge(case, impl_res, ans):
    if 'err' in ans:
        return 'MACHINERY: driver error %s' % ans['err']
    if 'raised' in impl_res:
        return 'SPEC: real code raised %s (%s) at %s on an in-domain dataset' % (
            impl_res['raised'], impl_res['msg'], impl_res['where'])
    ok = impl_res['ok']
    bad = DC.check_wmi(case['spec'], ok['wmi'])
    if bad:
        return 'SPEC: ' + bad
    for i, (v, r, m) in enumerate(zip(case['variants'], ok['recs'], ans['ok']['res'])):
        if m['model_spec'] is not True:
            return 'MACHINERY: model record rejected by its own spec (contradicts the theorem), variant %d' % i
        if 'raised' in r:
            return 'SPEC: get_template(%d, %s) raised %s (%s) at %s' % (v['t'], {k: v[k] for k in v if k != 't'}, r['raised'], r['msg'], r['where'])
        if m['impl_spec'] is not True:
            return ('SPEC: record of template %d (%s) violates the C05 predicate: channels %s amplitude %s best %d' % (
                v['t'], 'explicit list' if v.get('explicit') is not None else ('sparse' if case['spec'].get('template_ind') is not None else 'dense'),
                r['channels'], r['amplitude'], r['best']))
        if v.get('accessors'):
            if r['acc_channels'] != r['default']['channels'] or r['acc_waveforms'] != r['default']['template']:
                return 'SPEC: get_template_channels / get_template_waveforms disagree with get_template'
        if _tie_free(m):
            mm = m['model']
            got = dict(template=DC.fracs(r['template']), channels=r['channels'], amplitude=DC.fracs(r['amplitude']), best=r['best'])
            if got != mm:
                return 'CORR: tie-free record differs from the model (variant %d)' % i
    return None


def model_query_multi_supported():
    return True


def nontrivial(case):
    return case['spec']['n_channels'] >= 2


def tally(rep, case, impl_res, ans):
    rep.count('template_scaling:%s' % (case['spec'].get('template_scaling') or 1))
    rep.count('positions_dtype:' + (case['spec'].get('dtypes') or {}).get('channel_positions', 'float64'))
    if case.get('reopen'):
        rep.count('second_model_on_the_directory')
    spec = case['spec']
    rep.count('storage:%s' % ('sparse' if spec.get('template_ind') is not None else 'dense'))
    rep.count('file_names:%s%s' % ('ALF' if spec.get('alf') else 'KiloSort', ', shanks' if spec.get('channel_shanks') is not None else ''))
    rep.count('n_closest:%d' % case['n_closest'])
    if spec.get('_scaled_template'):
        rep.count('one_template_2^%d_times_larger_than_the_others' % spec['_scaled_template'])
    rep.count('shanks:%s' % (spec.get('channel_shanks') is not None))
    rep.count('records', len(case['variants']))
    for v in case['variants']:
        if v.get('explicit') is not None:
            rep.count('explicit_list:' + v.get('ekind', 'int64'))
        rep.count('unwhiten:%s' % v['unwhiten'])
    if 'ok' in ans:
        for m in ans['ok']['res']:
            if not _tie_free(m):
                rep.count('amplitude_tie')


def classify(case, impl_res, ans, why):
    spec = case['spec']
    return dict(kind=why.split(':')[0], storage='sparse' if spec.get('template_ind') is not None else 'dense',
                explicit=('explicit list' in why), raised=impl_res.get('raised'))


def shrink(case):
    if len(case['variants']) > 1:
        for i in range(len(case['variants'])):
            yield dict(case, variants=[case['variants'][i]])


def gen(tier, rng):
    q = tier == 'quick'
    for i in range(220 if q else 4000):
        nc = rng.randrange(2, 9)
        if i % 4 == 3:
            # sparse storage
            nt = rng.randrange(2, 5); nsw = rng.randrange(2, 6); nloc = rng.randrange(2, nc + 1)
            spec = DC.dense_spec(rng, nt=nt, nc=nc, nsw=nsw, feats=False, curated=False, shanks=False)
            ind, tm = [], []
            for t in range(nt):
                row = rng.sample(range(nc), nloc)
                data = [[float(rng.randrange(-8, 9)) for _ in range(nloc)] for _ in range(nsw)]
                for j in range(nloc):
                    r = rng.random()
                    if r < .2:
                        row[j] = -1
                    elif r < .35:
                        for s in range(nsw):
                            data[s][j] = 0.
                if all(all(x == 0 for x in col) for col in zip(*data)):
                    data[0][0] = 4.
                # at least one stored channel that is used and carries signal
                if not any(row[j] != -1 and any(data[s][j] != 0 for s in range(nsw)) for j in range(nloc)):
                    used = [c for c in row if c != -1]
                    row[0] = next(c for c in range(nc) if c not in used)
                    data[0][0] = 4.
                ind.append(row); tm.append(data)
            if rng.random() < .35:
                # templates of very different overall size (one unit a few million times larger than another):
                # "signal-free" is relative to the template's own peak, never to the other templates
                big = rng.randrange(nt)
                k = rng.pick([10, 22])
                tm[big] = [[x * 2.0 ** k for x in r] for r in tm[big]]
                spec['_scaled_template'] = k
            spec['templates'] = tm
            spec['template_ind'] = ind
            variants = [dict(t=t, unwhiten=u) for t in range(nt) for u in (True, False)]
            yield dict(p=PID, spec=spec, n_closest=12, thr_default=0, variants=variants)
            continue
        spec = DC.dense_spec(rng, nc=nc, feats=False, shanks=(i % 3 == 0))
        if i % 4 == 2:
            spec['alf'] = True            # the same dataset under its ALF file names (channels.shanks.npy, ...)
        nt = len(spec['templates'])
        if i % 5 == 0:     # force amplitude ties / flat channels
            for t in spec['templates']:
                for row in t:
                    row[rng.randrange(nc)] = row[rng.randrange(nc)]
        variants = []
        for t in range(nt):
            variants.append(dict(t=t, unwhiten=True, accessors=True))
            variants.append(dict(t=t, unwhiten=rng.random() < .5, thr=rng.pick([0, .25, .5, 1.])))
            variants.append(dict(t=t, unwhiten=rng.random() < .5, explicit=rng.sample(range(nc), rng.randrange(1, nc + 1)),
                                 ekind=rng.pick(['int64', 'list', 'uint32', 'int32', 'tuple'])))
        # probe coordinates stored as floats or as (un)signed integers: the geometry is the same
        pdt = rng.pick(['float64', 'float64', 'float32', 'int32', 'int64', 'uint32', 'uint64', 'uint16'])
        spec.setdefault('dtypes', {})
        spec['dtypes'] = dict(spec['dtypes'], channel_positions=pdt)
        yield dict(p=PID, spec=spec, n_closest=rng.pick([1, 2, 3, 5, 12]), thr_default=rng.pick([0, 0, .25, .5]),
                   variants=variants, reopen=rng.random() < .3)
