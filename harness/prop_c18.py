"""C18 — JSON, TSV/CSV and parameter-file serialisation round-trips (DESIGN.md §5 C18)."""
import json
import math
import os
import re
import subprocess
import sys
from fractions import Fraction
import numpy as np
from . import common as C

PID = 'C18'
PARALLEL = True
BATCH = 1200
BUDGET_S = {'quick': 70, 'thorough': 900}
RULE = ('JSON: dictionaries with int (incl. negative, zero) and non-integer-like str top-level keys, nested '
        'values {None, bool, int, float, str, list, nested dict, NumPy scalars (incl. long double and complex ones, which '
        'have no JSON number form), ndarrays of every numeric dtype incl. bool/float16/complex/big-endian/long double/'
        'complex long double, rank 0..3, empty, C / Fortran / transposed / strided / reversed / '
        'offset views (sent to the model with their real strides and offset), 1-D of 9/10/11 items, NaN inside '
        'arrays}; str values, nested keys and top-level keys over EVERY class of Python str code point (ASCII controls '
        'incl. NUL/DEL, quote and backslash, Latin-1, BMP incl. U+2028 / noncharacters, astral, and LONE SURROGATES - '
        'what os.listdir / os.fsdecode return for a file name that is not valid UTF-8, PEP 383 - which no text encoding '
        'of the file can hold; only a high surrogate directly followed by a low one is left out: the json library '
        'itself joins the two - the text-layer cases (op jsonstr) include them and compare with what the model scanner of '
        'Model/C18j gives); the same dictionaries also saved and loaded by a CHILD PROCESS of the real code '
        'running under a non-UTF-8 locale (LC_ALL=C, UTF-8 mode off: the locale encoding of path.open(\'w\') / '
        'read_text() is ASCII there). TSV/CSV: row lists over a field alphabet (>= 2 columns in the union; names with spaces, commas, '
        'quotes, a tab in .tsv files) with missing fields and fully empty rows, both delimiters, random integers, '
        'floats (float / float32 / float64; exact ties of %.4f included) and random string cells that int()/float() '
        'reject incl. tabs, commas, quotes; two-column cluster tables with negative and large ids and mixed value '
        'kinds (also read again after blank lines - LF / CRLF / CR; trailing, between rows, after the header - were inserted '
        'into the written file: _read_tsv_simple skips empty rows); the number grammar of _try_make_number on random strings incl. the Unicode decimal digits and white space '
        'int() / float() convert first (the tables of the model compared with the real int() over ALL code points: op uniclass); '
        'look-alikes int() rejects (superscripts, circled digits, zero-width space) inside string cells; the csv module on random records; '
        'parameter files with scalars, lists and tuples, quotes and backslashes inside lists, upper-case names. '
        'non-trivial = at least one array or nested container (JSON) / at least two rows (tables)')
ASSUMPTIONS = ['json / base64 / repr of floats are transport: exercised through the real libraries here, hypotheses in '
               'the theorems; csv, universal newlines, int()/float(), %.nf and the literal fragment of the Python '
               'parser are modelled (Model/C18c, C18p) and compared with the real libraries on every case',
               'the written files are compared with the model text character by character only as a tally (never an '
               'alarm); load_metadata on a two-column file is checked on the Python side against the Lean spec of the file',
               'the text written for a str, the strict codecs of the file and the string scanner are modelled code point by '
               'code point (Model/C18j: json_string_text_ascii, json_string_encodable, json_string_roundtrip) and compared '
               'with the json library as save_json / load_json use it on every jsonstr case; the file text itself is a tally',
               'strings travel to the Lean driver through an injective escape (tok) of the code points a Lean String / '
               'the JSON pipe cannot carry (surrogates, astral); the model treats str values as opaque',
               'nested dictionaries have str keys only: the statement speaks of integer TOP-LEVEL keys (JSON object keys are '
               'strings, and sort_keys=True raises TypeError on a nested dictionary mixing int and str keys): nested integer keys '
               'are outside the claim and never generated',
               'write_tsv is called with n_significant_figures in {default, 1, 2, 3, 4, 6, 10}; 0 is outside (no decimal point is '
               'written: the cell IS an integer literal); exclude_fields is outside (the rows are then meant to come back '
               'different); None / bool values of two-column tables are outside the value list of the statement (integer, float, '
               'non-numeric string); a np.float32 parameter is generated when it holds the same number as the float (str() of '
               'np.float32(0.1) is the literal 0.1, another number: outside "reads back equal" by construction of the file format)',
               'table and parameter files are text in the locale encoding by construction (write_tsv / write_python under '
               'LC_ALL=C raise UnicodeEncodeError on a non-ASCII cell): the locale is varied for the JSON layer only, '
               'whose file text is pure ASCII whatever the strings']
DTYPES = ['bool', 'int8', 'uint8', 'int16', 'int32', 'int64', 'uint64', 'float16', 'float32', 'float64',
          'complex64', 'complex128', '>f4', '>i2', '<u4', 'longdouble', 'clongdouble']
# NumPy scalar types without a JSON number form: .item() is a Python complex, or the NumPy scalar itself (long double)
EXOTIC_SCALARS = ['longdouble', 'clongdouble', 'complex64', 'complex128']


# ---- strings ---------------------------------------------------------------------------------
ESC = '\u0378'       # an unassigned BMP code point used as escape character by tok()


def tok(s):
    """injective image of a str inside the strings a Lean `String` and the driver's JSON pipe carry faithfully: every
    code point >= U+D800 (surrogates - lone ones included -, private use, noncharacters, astral) and ESC itself become
    ESC + 6 hex digits; everything else stays (so `tok` is the identity on the strings used before, and a string is
    integer-like / equal to '__ndarray__' iff its image is)"""
    if not isinstance(s, str):
        return s
    return ''.join(c if ord(c) < 0xD800 and c != ESC else ESC + '%06x' % ord(c) for c in s)


def asc(x):
    """text of a verdict: ASCII only (a VIOLATION line with a lone surrogate could not even be printed)"""
    return x if x is None else x.encode('ascii', 'backslashreplace').decode('ascii')


# code points by class (JSON string values, nested keys, top-level keys)
CP = {
    'ascii': list('aZ09 _-.'),
    'ctrl': ['\x00', '\x01', '\x08', '\t', '\n', '\x0b', '\x0c', '\r', '\x1b', '\x1f', '\x7f'],
    'json_special': ['"', '\\', '/', "'", '{', ']', ':', ','],
    'latin1': ['\x80', '\x85', '\xa0', '\xe9', '\xb5', '\xff'],
    'bmp': ['\u03b1', '\u0663', '\u2013', '\u2028', '\u2029', '\u795e', '\u7d30', '\ud7ff', '\ue000', '\ufdd0', '\ufeff',
            '\ufffd', '\ufffe', '\uffff', ESC],
    'astral': ['\U00010000', '\U0001f9e0', '\U0002a6d6', '\U000e0001', '\U0010fffd', '\U0010ffff'],
    # U+DC80..U+DCFF: the bytes 0x80..0xFF of an undecodable file name (PEP 383 surrogateescape)
    'low_surrogate': ['\udc80', '\udce9', '\udcff', '\udc00', '\udde0', '\udfff'],
    'high_surrogate': ['\ud800', '\ud83e', '\udbff'],
}
CP_CLASS_OF = {c: k for k, v in CP.items() for c in v}
INT_LIKE = re.compile(r'-?[0-9]+\Z')
WORDS = ['rec_caf\udce9_2019.dat', 'caf\xe9 \xb5V \u03b1\u03b2\u03b3', '\u795e\u7d4c\u7d30\u80de', 'neuron \U0001f9e0', 'mua \u2013 na\xefve',
         '\udde0\ud83e', '\ud83ex\udde0', '/data/\udcff\udc80/x.bin', 'a\x00b', '\\ud83e', '"\\u00e9"', '\x7f\x80']


def joins(s):
    """a high surrogate directly followed by a low one: json.loads(json.dumps(s)) is the ONE astral character (the json
    library, not phylib) - the only strings left out"""
    return any(0xD800 <= ord(a) <= 0xDBFF and 0xDC00 <= ord(b) <= 0xDFFF for a, b in zip(s, s[1:]))


def rand_ustr(rng):
    """a random str over all classes of code points"""
    if rng.random() < .15:
        return rng.pick(WORDS)
    while True:
        classes = rng.sample(sorted(CP), rng.randrange(1, 4))
        s = ''.join(rng.pick(CP[rng.pick(classes)]) for _ in range(rng.randrange(1, 7)))
        if not joins(s):
            return s


def str_classes(s):
    return {CP_CLASS_OF.get(c, 'ascii' if ord(c) < 128 else 'other') for c in s}


# ---- value <-> python ------------------------------------------------------------------------
def build(v):
    """case value description -> python object handed to save_json"""
    t = v['t']
    if t == 'none':
        return None
    if t in ('bool', 'int', 'str'):
        return v['v']
    if t == 'float':
        return float(v['f'])
    if t == 'np':
        if v['dt'] in EXOTIC_SCALARS:
            x = getattr(np, v['dt'])(v['v'])
            return x / 3 if v.get('third') else x       # a third: not representable as a double (long double keeps more bits)
        return getattr(np, v['dt'])(v['v'])
    if t == 'arr':
        n = int(np.prod(v['shape'])) if v['shape'] else 1
        base = (np.arange(n) % 7 - 3)
        a = base.astype(v['dtype']) if np.dtype(v['dtype']).kind != 'c' else (base + 1j * (base + 1)).astype(v['dtype'])
        if v.get('nan') and a.dtype.kind in 'fc' and n:
            a[0] = np.nan
        a = a.reshape(v['shape'])
        lay = v.get('layout', 'C')
        if lay == 'F':
            a = np.asfortranarray(a)
        elif lay == 'strided' and a.ndim >= 1 and a.shape[0] > 0:
            big = np.zeros((a.shape[0] * 2,) + a.shape[1:], dtype=a.dtype)
            big[::2] = a
            a = big[::2]
        elif lay == 'T' and a.ndim == 2:
            a = np.ascontiguousarray(a.T).T
        elif lay == 'rev' and a.ndim >= 1:
            a = np.ascontiguousarray(a[::-1])[::-1]                 # negative stride, offset at the last row
        elif lay == 'off' and a.ndim >= 1:
            big = np.zeros((a.shape[0] + 2,) + a.shape[1:], dtype=a.dtype)
            big[1:-1] = a
            a = big[1:-1]                                            # non-zero offset into the buffer
        return a
    if t == 'list':
        return [build(x) for x in v['v']]
    if t == 'dict':
        return {k: build(x) for k, x in v['v']}
    raise ValueError(t)


def mem_layout(a):
    """the array as NumPy has it: strides and offset in items, and the owner's buffer in memory order"""
    if a.size == 0:
        return [0] * a.ndim, 0, a.reshape(-1)
    b = a
    while isinstance(b.base, np.ndarray):
        b = b.base
    isz = a.itemsize
    off = (a.__array_interface__['data'][0] - b.__array_interface__['data'][0]) // isz
    flat = np.lib.stride_tricks.as_strided(b, (b.size,), (isz,))
    return [st // isz for st in a.strides], off, flat


def _r(x):
    """canonical text of one element (Python scalar of the element)"""
    return repr(x.item() if isinstance(x, np.generic) else x)


def to_lean(v, mem):
    """case value -> Lean value. Arrays are sent with their real memory layout; the items of the k-th array's
    buffer are the tokens (k+1)*10**6 + memory position, and `mem[k]` keeps the text of the value stored there"""
    t = v['t']
    if t == 'float':
        return dict(t='float', v=abs(hash(repr(v['f']))) % 100000)
    if t == 'np' and v['dt'] in EXOTIC_SCALARS:
        x = build(v)
        k = len(mem)
        mem.append([_r(x)])
        return dict(t='npx', dtype=str(x.dtype), v=(k + 1) * 1000000)
    if t == 'np':
        if v['dt'].startswith(('float',)):
            return dict(t='float', v=abs(hash(repr(float(v['v'])))) % 100000)
        return dict(t='np', v=int(v['v']))
    if t == 'arr':
        a = build(v)        # the array actually handed to save_json (layout tricks may change its strides)
        strides, off, flat = mem_layout(a)
        k = len(mem)
        mem.append([_r(x) for x in flat])
        return dict(t='arr', dtype=str(a.dtype), shape=list(a.shape), strides=strides, offset=off,
                    mem=[(k + 1) * 1000000 + i for i in range(len(flat))])
    if t == 'list':
        return dict(t='list', v=[to_lean(x, mem) for x in v['v']])
    if t == 'dict':
        return dict(t='dict', v=[[tok(k), to_lean(x, mem)] for k, x in v['v']])
    if t == 'str':
        return dict(t='str', v=tok(v['v']))
    return v


def shape_of(x):
    """structural summary of a loaded python value, comparable with the Lean result"""
    if x is None:
        return dict(t='none')
    if isinstance(x, bool):
        return dict(t='bool', v=x)
    if isinstance(x, int):
        return dict(t='int', v=x)
    if isinstance(x, float):
        return dict(t='float')
    if isinstance(x, str):
        return dict(t='str', v=tok(x))
    if isinstance(x, np.ndarray):
        return dict(t='arr', dtype=str(x.dtype), shape=list(x.shape), vals=[_r(y) for y in x.reshape(-1)])
    if isinstance(x, list):
        d = dict(t='list', v=[shape_of(y) for y in x])
        if all(isinstance(y, (bool, int, float, complex)) for y in x):
            d['vals'] = [_r(y) for y in x]
        return d
    if isinstance(x, dict):
        return dict(t='dict', v=sorted([[tok(k), shape_of(y)] for k, y in x.items()], key=lambda e: str(e[0])))
    return dict(t='other', v=type(x).__name__)


def lean_shape(v):
    t = v['t']
    if t == 'float':
        return dict(t='float')
    if t == 'arr':
        return dict(t='arr', dtype=v['dtype'], shape=v['shape'], items=v['items'])
    if t == 'list':
        return dict(t='list', v=[lean_shape(x) for x in v['v']])
    if t == 'dict':
        return dict(t='dict', v=sorted([[k, lean_shape(x)] for k, x in v['v']], key=lambda e: e[0]))
    if t == 'np':
        return dict(t='int', v=v['v'])
    return v


def _vals(items, mem):
    return [mem[i // 1000000 - 1][i % 1000000] for i in items]


def match_shape(real, lean, mem):
    """structure and array contents of the really loaded value vs the Lean result (`mem`: text of the value at
    each buffer position of each saved array)"""
    if lean['t'] == 'list' and lean['v'] and all(x.get('t') == 'int' and 10 ** 6 <= x['v'] < 10 ** 9 for x in lean['v']):
        # a short 1-D array: comes back as the list of its elements in index order
        return real['t'] == 'list' and real.get('vals') == _vals([x['v'] for x in lean['v']], mem)
    if lean['t'] != real['t']:
        return False
    if lean['t'] == 'list':
        return len(lean['v']) == len(real['v']) and all(match_shape(r, l, mem) for r, l in zip(real['v'], lean['v']))
    if lean['t'] == 'dict':
        return [k for k, _ in lean['v']] == [k for k, _ in real['v']] and \
            all(match_shape(r[1], l[1], mem) for r, l in zip(real['v'], lean['v']))
    if lean['t'] == 'arr':
        return real['dtype'] == lean['dtype'] and real['shape'] == lean['shape'] and \
            real['vals'] == _vals(lean['items'], mem)
    return real == lean


def same(a, b):
    """the property's equality: arrays by dtype/shape/values (NaN-aware), small 1-D arrays vs lists"""
    if isinstance(a, np.ndarray):
        if a.ndim == 1 and a.shape[0] <= 10 and not isinstance(b, np.ndarray):
            return isinstance(b, list) and len(b) == len(a) and all(same(x.item(), y) for x, y in zip(a, b))
        return isinstance(b, np.ndarray) and b.dtype == a.dtype and b.shape == a.shape and \
            np.array_equal(a, b, equal_nan=a.dtype.kind in 'fc')
    if isinstance(a, np.generic):
        if isinstance(a.item(), (np.generic, complex)):
            # no JSON number holds it: preserved = the same dtype and value (a 0-d array or a NumPy scalar)
            return isinstance(b, (np.ndarray, np.generic)) and b.shape == () and b.dtype == a.dtype and bool(b == a)
        return same(a.item(), b)
    if isinstance(a, float):
        return isinstance(b, float) and ((a == b and math.copysign(1, a) == math.copysign(1, b)) or (math.isnan(a) and math.isnan(b)))
    if isinstance(a, (list, tuple)):
        return isinstance(b, list) and len(a) == len(b) and all(same(x, y) for x, y in zip(a, b))
    if isinstance(a, dict):
        return isinstance(b, dict) and set(map(str, a.keys())) == set(b.keys()) and all(same(a[k], b[str(k)]) for k in a)
    return type(a) is type(b) and a == b


def _numeric_like(s):
    for f in (int, float):
        try:
            f(s)
            return True
        except ValueError:
            pass
    return False


def param_py(v):
    """case value of a parameter file -> Python object ({'tuple': [...]} stands for a tuple)"""
    if isinstance(v, dict):
        return tuple(v['tuple'])
    return v


def param_enc(v):
    """a parameter value (saved or read back) in the form the Lean driver uses"""
    if v is None:
        return None
    if isinstance(v, (bool, np.bool_)):
        return {'bool': bool(v)}
    if isinstance(v, (int, np.integer)):
        return {'int': int(v)}
    if isinstance(v, float):
        return {'lit': repr(float(v))}
    if isinstance(v, str):
        return {'str': v}
    if isinstance(v, list):
        return {'list': [param_enc(x) for x in v]}
    if isinstance(v, tuple):
        return {'tuple': [param_enc(x) for x in v]}
    return {'other': repr(v)}


def py_enc(v):
    """a cell value read back by the real code, as (type name, canonical text)"""
    if type(v) is int:
        return ['int', v]
    if type(v) is float:
        return ['float', repr(v)]
    if type(v) is str:
        return ['str', v]
    return [type(v).__name__, repr(v)]


def num_py(n):
    """a value of the Lean model (`Num`) in the same form; a float ±mant·10^exp is the double nearest to it"""
    if 'int' in n:
        return ['int', n['int']]
    if 'float' in n:
        neg, mant, e = n['float']
        try:
            f = float(Fraction(mant) * Fraction(10) ** e)
        except OverflowError:
            f = math.inf
        return ['float', repr(-f if neg else f)]
    if 'inf' in n:
        return ['float', '-inf' if n['inf'] else 'inf']
    if 'nan' in n:
        return ['float', 'nan']
    return ['str', n['text']]


def dbl(x):
    """a finite float as the exact ±m·2^e the Lean model computes with"""
    num, den = abs(float(x)).as_integer_ratio()
    return [math.copysign(1.0, x) < 0, num, -(den.bit_length() - 1)]


# the real code in a child process whose locale encoding is not UTF-8 (what `path.open('w')` / `read_text()` use)
CHILD_ENV = {'C': dict(LC_ALL='C', LANG='C', PYTHONUTF8='0', PYTHONCOERCECLOCALE='0')}


def run_child(env_name, dicts):
    """save_json / load_json of each dictionary, one after the other, by ONE fresh interpreter running under the locale
    `env_name`; the cases go in and the results come out as ASCII JSON on the binary pipes"""
    env = dict(os.environ)
    env.update(CHILD_ENV[env_name])
    env.pop('PYTHONIOENCODING', None)
    env['VERIF_CODECOV'] = '0'
    code = 'import sys; sys.path.insert(0, %r); from harness import prop_c18; prop_c18.child_main()' % str(C.VERIF)
    try:
        r = subprocess.run([sys.executable, '-c', code], input=json.dumps(dict(dicts=dicts)).encode('ascii'), env=env,
                           stdout=subprocess.PIPE, stderr=subprocess.PIPE, timeout=600)
    except (OSError, subprocess.SubprocessError) as e:
        return dict(child_failed=repr(e)[:300])
    try:
        out = json.loads(r.stdout.decode('ascii'))
        assert r.returncode == 0 and len(out['results']) == len(dicts)
        return out
    except Exception:  # noqa  (the child itself could not run: machinery, never an alarm)
        return dict(child_failed='rc=%s stdout=%r stderr=%r' % (r.returncode, r.stdout[-300:], r.stderr[-600:]))


def child_main():
    import locale
    req = json.loads(sys.stdin.buffer.read().decode('ascii'))
    res = [C.call_impl(impl, dict(p=PID, op='json', dict=d)) for d in req['dicts']]
    out = dict(encoding=locale.getpreferredencoding(False), utf8_mode=sys.flags.utf8_mode, results=res)
    sys.__stdout__.buffer.write(json.dumps(out).encode('ascii'))
    sys.__stdout__.buffer.flush()


def impl(case):
    op = case['op']
    if op == 'json_env':
        return run_child(case['env'], case['dicts'])
    from phylib.utils import _misc as M
    with C.scratch_dir() as d:
        if case.get('stale'):
            # the SAME path held other contents before, written and read back once (str and Path spellings): what is read
            # after the judged write is the file as it is now
            try:
                if op == 'json':
                    M.save_json(d / 'x.json', {'stale': [1, 2, 3], 5: 'old'}); M.load_json(str(d / 'x.json'))
                elif op == 'tsv':
                    M.write_tsv(d / ('t.' + case['ext']), [{'id': 1, 'old': 'x'}, {'id': 2, 'old': 'y'}]); M.read_tsv(str(d / ('t.' + case['ext'])))
                elif op == 'simple':
                    M._write_tsv_simple(d / ('s.' + case['ext']), 'old', {7: 'x', 8: 2}); M._read_tsv_simple(d / ('s.' + case['ext']))
                    if case.get('metadata'):
                        from phylib.io.model import load_metadata as _lm
                        _lm(d / ('s.' + case['ext']))
                elif op == 'params':
                    M.write_python(d / 'params.py', {'stale_entry': 1, 'n_channels_dat': 32}); M.read_python(str(d / 'params.py')); M.read_python(d / 'params.py')
            except Exception:  # noqa
                pass
        if op == 'json':
            data = {(k['int'] if 'int' in k else k['str']): build(v) for k, v in case['dict']}
            M.save_json(d / 'x.json', data)
            out = M.load_json(d / 'x.json')
            return dict(keys=[[type(k).__name__, tok(k)] for k in out.keys()],
                        same=bool(set(out.keys()) == set(data.keys()) and all(type(k) in (int, str) for k in out) and
                                  all(same(data[k], out[k]) for k in data)),
                        shape={tok(str(k)): shape_of(out[k]) for k in out})
        if op == 'jsonstr':
            # the text layer: each str (given by its code points) alone as a value; the file text as the real reader
            # decodes it, and the value that comes back
            res = []
            for cps in case['strings']:
                sv = ''.join(map(chr, cps))
                try:
                    M.save_json(d / 's.json', {'k': sv})
                    text = (d / 's.json').read_text()
                    out = M.load_json(d / 's.json')
                    back = out.get('k')
                    res.append(dict(text=[ord(c) for c in text], keys=[tok(k) for k in out],
                                    back=[ord(c) for c in back] if isinstance(back, str) else None))
                except Exception as e:  # noqa
                    res.append(dict(raised=type(e).__name__, msg=str(e)[:200]))
            return res
        if op == 'tsv':
            npf = {'32': np.float32, '64': np.float64}.get(str(case.get('npfloat')), float)
            rows = [{f: (c['int'] if 'int' in c else (npf(c['float']) if 'float' in c else c['text'])) for f, c in r}
                    for r in case['rows']]
            p = d / ('t.' + case['ext'])
            if case.get('nsf'):
                M.write_tsv(p, rows, first_field=case.get('first'), n_significant_figures=case['nsf'])
            else:
                M.write_tsv(p, rows, first_field=case.get('first'))
            with p.open(newline='') as fh:          # the text as written (no newline translation)
                text = fh.read()
            back = M.read_tsv(p)
            return dict(text=text, back=[[[k, py_enc(v)] for k, v in r.items()] for r in back])
        if op == 'simple':
            p = d / ('s.' + case['ext'])
            data = {int(k): v for k, v in case['data']}
            M._write_tsv_simple(p, case['field'], data)
            with p.open(newline='') as fh:
                text = fh.read()
            f, back = M._read_tsv_simple(p)
            meta = None
            if case.get('metadata'):
                # the same file through the cluster-table reader (phylib.io.model.load_metadata)
                from phylib.io.model import load_metadata
                meta = [[fld, [[k, py_enc(v)] for k, v in dd.items()]] for fld, dd in load_metadata(p).items()]
            res = dict(text=text, field=f, back=[[k, py_enc(v)] for k, v in back.items()], meta=meta)
            if case.get('blank'):
                # the written file with blank lines inserted (an editor's trailing newline, a blank line between two rows;
                # LF or CRLF), read again
                b = case['blank']
                lines = text.split('\r\n')[:-1]
                out = []
                for i, ln in enumerate(lines):
                    out.append(ln + '\r\n')
                    out.extend([b['eol']] * sum(1 for x in b['after'] if x % len(lines) == i))
                out.extend([b['eol']] * b['trailing'])
                res['edited'] = ''.join(out)
                with p.open('w', newline='') as fh:
                    fh.write(res['edited'])
                try:
                    f2, back2 = M._read_tsv_simple(p)
                    res['blank_field'], res['blank_back'] = f2, [[k, py_enc(v)] for k, v in back2.items()]
                except Exception as e:  # noqa  (judged against the model of the reader: CORR, the file is not a written one)
                    res['blank_raised'] = '%s: %s' % (type(e).__name__, str(e)[:120])
            return res
        if op == 'number':
            return [py_enc(M._try_make_number(x)) for x in case['strings']]
        if op == 'uniclass':
            # which non-ASCII characters the real _try_make_number takes for a decimal digit (alone: an int) / for white
            # space (in front of '7': 7), over ALL code points
            digits, spaces = [], []
            for c in range(128, 0x110000):
                if 0xD800 <= c <= 0xDFFF:
                    continue
                v = M._try_make_number(chr(c))
                if type(v) is int:
                    digits.append([c, v])
                elif M._try_make_number(chr(c) + '7') == 7:
                    spaces.append(c)
            return dict(digits=digits, spaces=spaces)
        if op == 'csv':
            # the csv module called the way _misc.py calls it (transport contract of the model)
            import csv
            p = d / 'c.txt'
            delim = '\t' if case['tsv'] else ','
            with p.open('w', newline='') as fh:
                csv.writer(fh, delimiter=delim).writerows(case['rows'])
            with p.open(newline='') as fh:
                text = fh.read()
            with p.open('r') as fh:
                back = [list(r) for r in csv.reader(fh, delimiter=delim)]
            return dict(text=text, back=back)
        if op == 'params':
            p = d / 'params.py'

            def wrap(v):
                # numbers and flags as NumPy scalars (what arithmetic on loaded arrays hands back)
                if case.get('npvalues') and isinstance(v, bool):
                    return np.bool_(v)
                if case.get('npvalues') and isinstance(v, int):
                    return np.int32(v) if case['npvalues'] == 32 and abs(v) < 2 ** 31 else np.int64(v) if abs(v) < 2 ** 63 else v
                if case.get('npvalues') == 32 and isinstance(v, float) and float(np.float32(v)) == v:
                    return np.float32(v)        # a float32 holding the same number: str() writes a literal of that number
                if case.get('npvalues') and isinstance(v, float):
                    return np.float64(v)
                return v
            M.write_python(p, {k: wrap(param_py(v)) for k, v in case['data']})
            with p.open(newline='') as fh:
                text = fh.read()
            back = M.read_python(p)
            return dict(text=text, back=[[k, param_enc(v)] for k, v in back.items()])
    raise ValueError(op)


# the file json.dump(..., indent=2) writes for {'k': <str>}: prefix, the string literal, suffix
STR_PREFIX = [ord(c) for c in '{\n  "k": ']
STR_SUFFIX = [ord(c) for c in '\n}']


def lean_key(k):
    return k if 'int' in k else {'str': tok(k['str'])}


def model_query(case, impl_res):
    if case['op'] == 'json':
        case['_mem'] = mem = []
        return dict(p=PID, op='json', dict=[[lean_key(k), to_lean(v, mem)] for k, v in case['dict']])
    if case['op'] == 'json_env':
        case['_mems'] = [[] for _ in case['dicts']]
        return dict(p=PID, op='json_many', dicts=[[[lean_key(k), to_lean(v, mem)] for k, v in d]
                                                  for d, mem in zip(case['dicts'], case['_mems'])])
    if case['op'] == 'jsonstr':
        bodies = [None] * len(case['strings'])
        if isinstance(impl_res.get('ok'), list):
            # the text after the opening quote of the value
            n = len(STR_PREFIX) + 1
            bodies = [r['text'][n:] if r.get('text') and r['text'][:n] == STR_PREFIX + [34] else None for r in impl_res['ok']]
        return dict(p=PID, op='jsonstr', strings=case['strings'], impl_bodies=bodies)
    text = impl_res['ok'].get('text') if isinstance(impl_res.get('ok'), dict) else None
    if case['op'] == 'tsv':
        npf = {'32': np.float32, '64': np.float64}.get(str(case.get('npfloat')), float)
        rows = [[[f, ({'float': dbl(npf(c['float']))} if 'float' in c else c)] for f, c in r] for r in case['rows']]
        return dict(p=PID, op='table', rows=rows, first=case.get('first'), tsv=case['ext'] == 'tsv', impl_text=text,
                    nsf=case.get('nsf') or 4)
    if case['op'] == 'simple':
        data = [[int(k), ({'int': v} if type(v) is int else ({'lit': repr(v)} if type(v) is float else {'text': v}))]
                for k, v in case['data']]
        edited = impl_res['ok'].get('edited') if isinstance(impl_res.get('ok'), dict) else None
        return dict(p=PID, op='simple', field=case['field'], data=data, tsv=case['ext'] == 'tsv', impl_text=text, impl_edited=edited)
    if case['op'] == 'number':
        return dict(p=PID, op='number', strings=case['strings'])
    if case['op'] == 'uniclass':
        return dict(p=PID, op='uniclass')
    if case['op'] == 'csv':
        return dict(p=PID, op='csv', rows=case['rows'], tsv=case['tsv'], impl_text=text)
    if case['op'] == 'params':
        return dict(p=PID, op='params', data=[[k, param_enc(param_py(v))] for k, v in case['data']], impl_text=text)
    raise ValueError(case['op'])


def judge_json(entries, impl_res, m, mem):
    """one dictionary saved and loaded by the real code (`impl_res`) against the Lean round trip `m`"""
    if 'raised' in impl_res:
        return 'SPEC: real code raised %s (%s) at %s on an in-domain value' % (
            impl_res['raised'], impl_res['msg'], impl_res['where'])
    ok = impl_res['ok']
    if m['model'] != m['spec']:
        return 'MACHINERY: model round trip differs from its spec (contradicts the theorem)'
    if not ok['same']:
        exp_keys = [[('int' if 'int' in k else 'str'), (k['int'] if 'int' in k else tok(k['str']))] for k, v in entries]
        return 'SPEC: loaded dictionary differs from the saved one (keys loaded %s, saved %s)' % (ok['keys'], exp_keys)
    exp = {str(k['int'] if 'int' in k else k['str']): lean_shape(v) for k, v in m['model']}
    if set(ok['shape']) != set(exp) or not all(match_shape(ok['shape'][k], exp[k], mem) for k in exp):
        return 'CORR: structure / array contents of the loaded value differ from the model'
    return None


def judge_jsonstr(cps, r, mm):
    """one str through the real save_json / load_json (`r`) against the text-layer model (`mm`, Model/C18j)"""
    sv = ''.join(map(chr, cps))
    in_dom = mm['valid'] and mm['nojoin']
    if mm['nojoin'] == joins(sv) or not mm['valid']:
        return 'MACHINERY: the Lean spec NoJoin / ValidStr and the generator disagree'
    if in_dom and (mm['scanned'] != [cps, STR_SUFFIX] or mm['via_ascii_file'] != [cps, []]):
        return 'MACHINERY: model scanner does not give the string back (contradicts json_string_roundtrip)'
    if mm['ascii'] != mm['literal'] or not mm['utf8_ok'] or not all(32 <= b <= 126 for b in mm['literal']):
        return 'MACHINERY: model literal is not printable ASCII (contradicts json_string_text_ascii)'
    if mm['scanned'] is None:
        return 'MACHINERY: model scanner rejects the model literal'
    if 'raised' in r:
        # the model says: the literal can be encoded with every codec, so nothing raises
        return '%s: real code raised %s (%s) saving / loading a one-str dictionary' % (
            'SPEC' if in_dom else 'CORR', r['raised'], r['msg'])
    if in_dom and (r['back'] != cps or r['keys'] != ['k']):
        return 'SPEC: the str did not come back: loaded code points %s, saved %s' % (r['back'], cps)
    if r['back'] != mm['scanned'][0]:
        return 'CORR: loaded code points %s, the model scanner gives %s' % (r['back'], mm['scanned'][0])
    if mm['real_scanned'] is not None and mm['real_scanned'] != [r['back'], STR_SUFFIX]:
        return 'CORR: the text written by the real code, read by the model scanner, is %s; the real reader gave %s' % (
            mm['real_scanned'], r['back'])
    return None


def judge(case, impl_res, ans):
    if 'err' in ans:
        return 'MACHINERY: driver error %s' % ans['err']
    m = ans['ok']
    op = case['op']
    if op == 'json':
        return asc(judge_json(case['dict'], impl_res, m, case['_mem']))
    if op == 'json_env' and 'raised' in impl_res:
        return asc('MACHINERY: the harness could not start the child process: %s %s' % (impl_res['raised'], impl_res['msg']))
    if 'raised' in impl_res:
        return 'SPEC: real code raised %s (%s) at %s on an in-domain value' % (
            impl_res['raised'], impl_res['msg'], impl_res['where'])
    ok = impl_res['ok']
    if op == 'json_env':
        # each dictionary of the batch as saved and loaded by the child process under the other locale
        if 'child_failed' in ok:
            return asc('MACHINERY: the child process of the real code could not run: %s' % ok['child_failed'])
        if len(m['results']) != len(case['dicts']):
            return 'MACHINERY: driver answered %d of %d dictionaries' % (len(m['results']), len(case['dicts']))
        verdicts = [judge_json(d, r, mm, mem) for d, r, mm, mem in zip(case['dicts'], ok['results'], m['results'], case['_mems'])]
        for kind in ('MACHINERY', 'SPEC', 'CORR'):
            for i, w in enumerate(verdicts):
                if w and w.startswith(kind):
                    return asc('%s: in a process with locale encoding %s (%s, UTF-8 mode %s), dictionary %d: %s' % (
                        kind, ok.get('encoding'), case['env'], ok.get('utf8_mode'), i, w.split(': ', 1)[1]))
        return None
    if op == 'jsonstr':
        for cps, r, mm in zip(case['strings'], ok, m['results']):
            sv = ''.join(map(chr, cps))
            w = judge_jsonstr(cps, r, mm)
            if w:
                return asc('%s (str %a)' % (w, sv))
        return None
    if op == 'tsv':
        if m.get('header') is None:
            return 'MACHINERY: the generator produced an empty table'
        if m['back'] != m['expected']:
            return 'MACHINERY: model table round trip differs from its spec (contradicts the theorem)'
        fields = []
        for r in case['rows']:
            for f, c in r:
                if f not in fields:
                    fields.append(f)
        exp = [[[f, num_py(v)] for f, v in r] for r in m['expected']]
        first = case.get('first')
        real_hdr = m['real_header']          # first record of the real file (read by the model's csv reader)
        if first in fields and (not real_hdr or real_hdr[0] != first):
            return 'SPEC: requested first column %r is not first (header %s)' % (first, real_hdr)
        if ok['back'] != exp:
            return 'SPEC: table read back as %s, written %s' % (ok['back'], exp)
        if m['real_parsed'] != m['expected']:
            return 'CORR: the file written by the real code, read by the model reader, differs from the table'
        if real_hdr != m['header']:
            return 'CORR: header order differs from the model'
        return None
    if op == 'simple':
        if m['back'] != m['expected']:
            return 'MACHINERY: model two-column round trip differs from its spec (contradicts the theorem)'
        exp = [[k, num_py(v)] for k, v in m['expected']['data']]
        if ok['field'] != case['field'] or sorted(ok['back']) != exp:
            return 'SPEC: two-column table read back as %s %s, written %s %s' % (ok['field'], ok['back'], case['field'], exp)
        if ok.get('meta') is not None:
            # the same file through load_metadata: in the domain of Props.metadata_roundtrip (no empty value, field
            # not called cluster_id) the Lean spec says what must come back; outside, the model of load_metadata
            in_dom = case['field'] != 'cluster_id' and all(v != '' for _, v in case['data'])
            if in_dom and m['meta'] != m['meta_expected']:
                return 'MACHINERY: model load_metadata differs from its spec (contradicts the theorem)'
            want = [[f, [[num_py(k), num_py(v)] for k, v in dd]] for f, dd in m['meta']]
            got = [[f, [[['int', k] if type(k) is int else py_enc(k), v] for k, v in dd]] for f, dd in ok['meta']]
            if got != want:
                return '%s: metadata file loaded as %s, expected %s' % ('SPEC' if in_dom else 'CORR', got, want)
        if m['real_parsed'] != m['expected']:
            return 'CORR: the file written by the real code, read by the model reader, differs from the table'
        if ok.get('edited') is not None:
            # blank lines are not rows (_read_tsv_simple skips empty rows): the edited file reads as the written one.  Not a
            # file "written as TSV" in the words of the property: real code against the model of the reader, CORR
            if m['edited_parsed'] != m['expected']:
                return 'MACHINERY: the model reader does not read the file with blank lines as the written one'
            if 'blank_raised' in ok:
                return 'CORR: _read_tsv_simple raised %s on the written file with blank lines inserted; the model reads the table' % ok['blank_raised']
            if ok['blank_field'] != case['field'] or sorted(ok['blank_back']) != exp:
                return 'CORR: the file with blank lines read back as %s %s, the model reads %s' % (ok['blank_field'], ok['blank_back'], exp)
        return None
    if op == 'number':
        exp = [num_py(v) for v in m['values']]
        if ok != exp:
            bad = [(x, r, e) for x, r, e in zip(case['strings'], ok, exp) if r != e]
            return 'CORR: _try_make_number differs from the model on %s' % bad[:3]
        return None
    if op == 'uniclass':
        if ok['digits'] != m['digits'] or ok['spaces'] != m['spaces']:
            dd = [x for x in ok['digits'] if x not in m['digits']] + [x for x in m['digits'] if x not in ok['digits']]
            ss = sorted(set(ok['spaces']) ^ set(m['spaces']))
            return 'CORR: the Unicode digit / white-space tables of the model differ from int() / float(): digits %s spaces %s' % (dd[:5], ss[:5])
        return None
    if op == 'csv':
        if m['back'] != case['rows']:
            return 'MACHINERY: csv model does not round-trip its own text (contradicts the theorem)'
        if ok['back'] != case['rows'] or m['real_parsed'] != case['rows'] or ok['text'] != m['text']:
            return 'MACHINERY: the csv transport model differs from the csv module (text %r vs %r)' % (ok['text'], m['text'])
        return None
    if op == 'params':
        if m['back'] != m['expected']:
            return 'MACHINERY: model parameter-file round trip differs from its spec (contradicts the theorem)'
        if ok['back'] != m['expected']:
            return 'SPEC: parameter file read back as %s, written %s' % (ok['back'], m['expected'])
        if m['real_parsed'] != m['expected']:
            return 'CORR: the file written by the real code, read by the model reader, differs from the dictionary'
        return None


def nontrivial(case):
    if case['op'] == 'json':
        return any(v['t'] in ('arr', 'list', 'dict') for k, v in case['dict'])
    if case['op'] == 'json_env':
        return any(v['t'] in ('arr', 'list', 'dict') for d in case['dicts'] for k, v in d)
    if case['op'] in ('number', 'jsonstr', 'uniclass'):
        return True
    return len(case.get('rows', case.get('data', []))) >= 2


def tally(rep, case, impl_res, ans):
    rep.count('op:' + case['op'])
    if case['op'] == 'number':
        for x in case['strings']:
            if any(ord(c) > 127 and (c.isdecimal() or c.isspace()) for c in x):
                rep.count('number:unicode_digit_or_space')
                if isinstance(impl_res.get('ok'), list) and impl_res['ok'][case['strings'].index(x)][0] != 'str':
                    rep.count('number:unicode_numeric_literal')
    if case['op'] == 'uniclass' and isinstance(impl_res.get('ok'), dict):
        rep.count('uniclass:decimal_digits', len(impl_res['ok']['digits']))
        rep.count('uniclass:white_space', len(impl_res['ok']['spaces']))
    if case.get('stale') and case['op'] in ('json', 'tsv', 'simple', 'params'):
        rep.count('path_held_other_contents_read_before')
    if case['op'] == 'jsonstr' and isinstance(impl_res.get('ok'), list) and isinstance(ans.get('ok'), dict):
        for cps, r, mm in zip(case['strings'], impl_res['ok'], ans['ok']['results']):
            rep.count('jsonstr:strings')
            for c in str_classes(''.join(map(chr, cps))) - {'ascii'}:
                rep.count('jsonstr:' + c)
            if not mm['nojoin']:
                rep.count('jsonstr:high_then_low_surrogate(outside:json_joins_them)')
            if not mm['raw_utf8_ok']:
                rep.count('jsonstr:str_not_encodable_as_utf8')
            if not mm['raw_ascii_ok']:
                rep.count('jsonstr:str_not_encodable_as_ascii')
            # mechanism-level tie, never an alarm: is the file the text the model writes, character by character?
            if 'text' in r:
                rep.count('jsonstr:file_text_equals_model' if r['text'] == STR_PREFIX + mm['literal'] + STR_SUFFIX
                          else 'jsonstr:file_text_DIFFERS_from_model')
    if case['op'] == 'json_env':
        ok = impl_res.get('ok') if isinstance(impl_res.get('ok'), dict) else {}
        rep.count('json_env:%s:child_locale_encoding:%s' % (case['env'], ok.get('encoding', 'child_failed')))
        rep.count('json_env:dictionaries_saved_and_loaded_by_child', len(case['dicts']))
    if case['op'] in ('json', 'json_env'):
        pre = '' if case['op'] == 'json' else 'json_env:'

        def strcls(where, text):
            cl = str_classes(text) - {'ascii'}
            for c in cl:
                rep.count('%sstr_%s:%s' % (pre, where, c))
            if cl & {'low_surrogate', 'high_surrogate'}:
                rep.count('%sstr_with_lone_surrogate' % pre)

        for k, v in (case['dict'] if case['op'] == 'json' else [e for d in case['dicts'] for e in d]):
            rep.count(pre + 'key:%s' % ('int' if 'int' in k else 'str'))
            if 'int' in k and k['int'] < 0:
                rep.count(pre + 'negative_int_key')
            if 'str' in k:
                strcls('key', k['str'])

            def walk(x):
                rep.count(pre + 'value:' + x['t'])
                if x['t'] == 'np':
                    rep.count(pre + 'np_scalar:' + x['dt'])
                if x['t'] == 'float' and isinstance(x['f'], str):
                    rep.count(pre + 'float:' + x['f'])
                if x['t'] == 'arr' and x['dtype'] in ('longdouble', 'clongdouble'):
                    rep.count(pre + 'arr_dtype:' + x['dtype'])
                if x['t'] == 'arr':
                    rep.count(pre + 'arr_rank:%d' % len(x['shape']))
                    rep.count(pre + 'arr_layout:' + x.get('layout', 'C'))
                if x['t'] == 'str':
                    strcls('value', x['v'])
                if x['t'] == 'list':
                    [walk(y) for y in x['v']]
                if x['t'] == 'dict':
                    [strcls('nested_key', kk) for kk, _ in x['v']]
                    [walk(y) for _, y in x['v']]
            walk(v)
    elif case['op'] in ('tsv', 'simple', 'csv', 'params'):
        if case['op'] != 'params':
            rep.count('ext:' + case.get('ext', 'tsv' if case.get('tsv') else 'csv'))
        if case['op'] == 'tsv':
            rep.count('n_significant_figures:%s' % (case.get('nsf') or 'default'))
        if case['op'] == 'simple' and case.get('blank'):
            b = case['blank']
            rep.count('simple:blank_lines_inserted')
            rep.count('simple:blank_eol:%r' % b['eol'])
            if b['trailing']:
                rep.count('simple:blank_trailing')
            if b['after']:
                rep.count('simple:blank_between_rows_or_after_header')
        # mechanism-level tie, never an alarm: is the written file the text the model writes, character by character?
        if isinstance(impl_res.get('ok'), dict) and isinstance(ans.get('ok'), dict) and 'text' in ans['ok']:
            rep.count('file_text_equals_model' if impl_res['ok'].get('text') == ans['ok']['text']
                      else 'file_text_DIFFERS_from_model')


def classify(case, impl_res, ans, why):
    d = dict(op=case['op'], kind=why.split(':')[0], raised=impl_res.get('raised'))
    if case['op'] == 'json':
        d['negative_key'] = any('int' in k and k['int'] < 0 for k, v in case['dict'])
    if case['op'] == 'json_env':
        d['env'] = case['env']
    return d


def shrink(case):
    if case['op'] == 'uniclass':
        return
    key = {'json': 'dict', 'json_env': 'dicts', 'jsonstr': 'strings', 'tsv': 'rows', 'simple': 'data', 'params': 'data', 'number': 'strings', 'csv': 'rows'}[case['op']]
    v = case[key]
    if case['op'] == 'json_env' and len(v) > 2:
        yield dict(case, dicts=v[:len(v) // 2])        # every candidate costs one child process: halve first
        yield dict(case, dicts=v[len(v) // 2:])
    if len(v) > 1:
        for i in range(len(v)):
            c = dict(case); c[key] = v[:i] + v[i + 1:]
            if case['op'] != 'tsv' or len({f for r in c['rows'] for f, _ in r}) >= 2:
                yield c
    elif case['op'] == 'json_env' and len(v) == 1 and len(v[0]) > 1:
        for i in range(len(v[0])):
            yield dict(case, dicts=[v[0][:i] + v[0][i + 1:]])


TEXTS = ['abc', 'a\tb', 'x,y', 'say "hi"', "it's", 'tab\tand,comma', 'good', 'mua', 'ünï', 'a b ', '#1', '1e', '--', 'e5']
# strings close to Python's int()/float() grammar (accepted and rejected ones)
NUMBERISH = ['1e', '--', 'e5', '+3', ' 2', '1_0', '1.', '.5', 'nan', 'inf', '-Infinity', '1e5', '0x10', '1__0', '_1', '1_',
             '1_0.5', '1._5', '1e_5', '1e1_0', ' 1.5 ', '1 2', '', '-', '+', '.', 'e', '1e+', '- 1', '+-1', '1\n', '\t7\x0c',
             'infinit', 'nAn', '-nan', '+inf', '1.5e-3', '007', '-0', '1E5', '1.e5', '.e5', '0.0001', 'in f', '1_000e1_0',
             '1d5', '0b1', '1j', '-.5', '+.5e+2', '5.', '5.e', '1e-0', '00.0', '-00', '1_.5', '._5', 'Inf', 'iNfInItY',
             'infinity_', 'na n', '1e5 ', ' \t-12\r\n', '12abc', 'abc12', '1,5', '1\t2', '"5"', "'5'", '1e400', '-1e-400',
             '123456789012345678901234567890', '0.1e1', '1.0000', '-0.0000', '\x0b3', '3\x0b\x0c', '3-', '3+4', '3e4e5', '..1']
CELL_ALPHABET = list('abcxyzQ 09.-+e_,\t"\'#') + ['é', 'ß', 'ab', 'inf', 'nan', '1', '""', ', '] + \
    ['\u0663', '\uff11', '\xa0', '\u2003', '\xb2', '\u2460', '\u200b']      # Unicode digits / spaces int() accepts, and look-alikes it rejects
# strings with the Unicode decimal digits and white space that int() / float() convert before parsing
NUMBERISH_U = ['\u0661\u0662', '\uff11.\uff15', '1\u0662', '\xa012', '12\x85', '\u20031e5\u3000', '\u06f1_\u06f2', '\xb2', '\u2460', '\u0b72',
               '\U0001d7ce', '\u3007', '-\u0967', '1e\u0663', '\u2002inf', '\u200b12', '\u180e12', '\ufeff12', 'na\u0274', '\x1c12', '12\x1f',
               '\u0661.\u0662e-\u0663', '\U0001e950\U0001e951', '\u0e51\u0e52\u0e53', '+\uff10', '\u0661 \u0662', '\u2028-5\u2029', '\u202f1_0\u205f',
               '\u1680.5', '\uff0d1', '\uff11\uff45\uff15', 'in\uff46', '\u0660x', '\u0661,\u0662', '\U0001fbf0\U0001fbf9', '\ua9d0']


def rand_text(rng, nonempty=True):
    """a random cell string without line break"""
    return ''.join(rng.pick(CELL_ALPHABET) for _ in range(rng.randrange(1 if nonempty else 0, 7)))


def text_cell(rng):
    while True:
        t = rng.pick(TEXTS) if rng.random() < .3 else rand_text(rng)
        if t and not _numeric_like(t):
            return t


def rand_float(rng):
    k = rng.randrange(6)
    if k == 0:
        return rng.pick([0.5, 1.23456789, -2.00004, 1e-7, 123.0, -1e-7, 0.0, -0.0, 0.03125, 0.09375, -0.28125, 2.5e15, 1e22,
                         0.00005, 0.00015, 1e300, 5e-324, 0.99995, 9.99995])
    if k == 1:
        return rng.randrange(-10 ** 6, 10 ** 6) / 2 ** rng.randrange(0, 12)       # dyadic: exact ties occur
    if k == 2:
        return rng.uniform(-3, 3)
    if k == 3:
        return rng.uniform(-1, 1) * 10 ** rng.randrange(-8, 16)
    if k == 4:
        return rng.randrange(-10 ** 5, 10 ** 5) / 10 ** 4 + rng.pick([0, 5e-5, -5e-5])
    return float(rng.randrange(-1000, 1000))


def rand_int(rng):
    return rng.pick([0, 3, -7, 123456, 2 ** 53 + 1, -(2 ** 62) - 1, rng.randrange(-10 ** 9, 10 ** 9), rng.randrange(-50, 50),
                     10 ** 30])


def rand_value(rng, depth=0):
    t = rng.pick(['none', 'bool', 'int', 'float', 'str', 'np', 'arr', 'arr', 'arr', 'list', 'dict'] if depth < 2 else
                 ['none', 'bool', 'int', 'float', 'str', 'np', 'arr'])
    if t == 'none':
        return dict(t='none')
    if t == 'bool':
        return dict(t='bool', v=rng.random() < .5)
    if t == 'int':
        return dict(t='int', v=rng.pick([0, -1, 7, 10 ** 12, -3, 2 ** 53 + 1, -(2 ** 63), 2 ** 64 - 1]))
    if t == 'float':
        return dict(t='float', f=rng.pick([0.5, -2.25, 1e-9, 3.0, 1e300, 0.1, 5e-324, 'nan', 'inf', '-inf', '-0.0']))
    if t == 'str':
        return dict(t='str', v=rng.pick(TEXTS + ['', '12', '__ndarray_']) if rng.random() < .5 else rand_ustr(rng))
    if t == 'np':
        dt = rng.pick(['int32', 'int64', 'uint8', 'float32', 'float64', 'int16', 'float16', 'uint64'] + EXOTIC_SCALARS)
        if dt in EXOTIC_SCALARS:
            return dict(t='np', dt=dt, v=rng.pick([0, 3, -2, 100]), third=rng.random() < .5)
        return dict(t='np', dt=dt, v=rng.pick([0, 3, -2, 100]) if not dt.startswith('u') else rng.pick([0, 3, 200]))
    if t == 'arr':
        rank = rng.pick([0, 1, 1, 1, 2, 3])
        shape = [rng.pick([0, 1, 2, 3, 9, 10, 11, 12]) for _ in range(rank)] if rank == 1 else [rng.pick([0, 1, 2, 3, 4]) for _ in range(rank)]
        return dict(t='arr', dtype=rng.pick(DTYPES), shape=shape, layout=rng.pick(['C', 'F', 'strided', 'T', 'rev', 'off']), nan=rng.random() < .3)
    if t == 'list':
        return dict(t='list', v=[rand_value(rng, depth + 1) for _ in range(rng.randrange(0, 4))])
    keys = rng.sample(['a', 'b', 'key', 'x y', '7', 'dtype', 'shape'], rng.randrange(0, 4))
    if rng.random() < .3:
        keys = sorted(set(keys) | {rand_ustr(rng) for _ in range(rng.randrange(1, 3))})
    return dict(t='dict', v=[[k, rand_value(rng, depth + 1)] for k in keys])


def rand_entries(rng):
    """a random top-level dictionary: int keys, str keys that are not integer-like (fixed list + strings over all classes of
    code points), random values"""
    n = rng.randrange(0, 5)
    ints = rng.sample(range(-5, 30), n)
    strs = rng.sample(['a', 'b1', 'x-1', 'key', '1.0', '+3', ' 2', '\xf1', '\u00b2', '\u0663', '1_0', '\uff11'], rng.randrange(0, 3))
    if rng.random() < .4:
        strs = sorted(set(strs) | {u for u in (rand_ustr(rng) for _ in range(rng.randrange(1, 3))) if not INT_LIKE.match(u)})
    entries = [[{'int': i}, rand_value(rng)] for i in ints] + [[{'str': s}, rand_value(rng)] for s in strs]
    rng.shuffle(entries)
    return entries


def str_probe(s):
    """the string `s` at every place of a dictionary where a str can stand"""
    sv = dict(t='str', v=s)
    return [[{'str': 'k'}, sv], [{'str': s + 'K'}, dict(t='list', v=[sv, dict(t='dict', v=[[s, sv], ['n', dict(t='int', v=1)]])])],
            [{'int': 3}, sv]]


def gen(tier, rng):
    q = tier == 'quick'
    # JSON: systematic arrays first
    for dt in DTYPES:
        for shape in ([], [0], [1], [9], [10], [11], [2, 3], [0, 2], [2, 1, 3], [12]):
            for lay in ('C', 'F', 'strided', 'T', 'rev', 'off'):
                yield dict(p=PID, op='json', dict=[[{'int': -1}, dict(t='arr', dtype=dt, shape=shape, layout=lay, nan=True)],
                                                   [{'str': 'k'}, dict(t='int', v=1)]])
    for key in ({'int': 0}, {'int': -1}, {'int': -12}, {'int': 10 ** 9}, {'str': 'abc'}, {'str': '-x'}, {'str': '1.5'}, {'str': ''}, {'str': '-'}):
        yield dict(p=PID, op='json', dict=[[key, dict(t='str', v='x')]])
    for dt in EXOTIC_SCALARS + ['float16', 'uint64', 'float32']:
        for third in (False, True):
            sc = dict(t='np', dt=dt, v=3 if dt == 'uint64' else -2, third=third)
            yield dict(p=PID, op='json', dict=[[{'str': 's'}, sc], [{'int': 2}, dict(t='list', v=[sc, dict(t='dict', v=[['x', sc]])])]])
    # every code point of every class (and the composed words) alone, at every place where a str can stand
    probes = [c for k in sorted(CP) for c in CP[k]] + [w for w in WORDS if not joins(w)]
    for s in probes:
        yield dict(p=PID, op='json', dict=str_probe(s))
    # the same probes and random dictionaries saved and loaded by a child process under a non-UTF-8 locale
    # (one interpreter start per case: spread over the stream so that the worker pool runs them side by side)
    envs = [dict(p=PID, op='json_env', env='C', dicts=[str_probe(s) for s in probes[i:i + 16]]) for i in range(0, len(probes), 16)]
    envs += [dict(p=PID, op='json_env', env='C', dicts=[rand_entries(rng) for _ in range(16)]) for _ in range(6 if q else 150)]
    # the text layer (Model/C18j): single strings, those with a high surrogate directly before a low one included (the
    # model says what the json library makes of them)
    cps = lambda t: [ord(c) for c in t]
    yield dict(p=PID, op='jsonstr', strings=[cps(t) for t in probes + ['\ud83e\udde0', 'a\udbff\udc00b', '\ud800\ud800\udfff\udfff']])
    for _ in range(6 if q else 200):
        strings = []
        for _ in range(40):
            if rng.random() < .7:
                strings.append(cps(rand_ustr(rng)))
            else:       # unrestricted: adjacent surrogates in any order
                strings.append([ord(rng.pick(CP[rng.pick(['low_surrogate', 'high_surrogate', 'high_surrogate', 'ascii', 'astral', 'bmp'])]))
                                for _ in range(rng.randrange(1, 6))])
        yield dict(p=PID, op='jsonstr', strings=strings)
    for i in range(1500 if q else 30000):
        if i % 40 == 0 and envs:
            yield envs.pop(0)
        yield dict(p=PID, op='json', dict=rand_entries(rng), stale=rng.random() < .3)
    # the number grammar of _try_make_number
    yield dict(p=PID, op='number', strings=NUMBERISH)
    yield dict(p=PID, op='number', strings=NUMBERISH_U)
    yield dict(p=PID, op='uniclass')
    for _ in range(60 if q else 2000):
        yield dict(p=PID, op='number',
                   strings=[''.join(rng.pick(list('0123456789') * 2 + list('+-._eE ') + ['inf', 'nan', 'a', '\t', 'in', 'INF', 'x', '__'] +
                                             (['\u0663', '\uff11', '\u0967', '\U0001d7d2', '\xa0', '\u2003', '\x85', '\xb2', '\u200b', '\uff0e', '\x1c']
                                              if uni else []))
                                    for _ in range(rng.randrange(0, 7))) for uni in [rng.random() < .5] for _ in range(25)])
    # the csv transport contract (the csv module called as _misc.py calls it)
    for _ in range(150 if q else 3000):
        rows = [[rand_text(rng, nonempty=False) for _ in range(rng.randrange(0, 4))] for _ in range(rng.randrange(0, 5))]
        yield dict(p=PID, op='csv', rows=rows, tsv=rng.random() < .5)
    # TSV / CSV
    for _ in range(1500 if q else 30000):
        ext = rng.pick(['tsv', 'csv'])
        names = ['id', 'cluster_id', 'group', 'amp', 'n', 'label', 'zz', 'a b', 'x,y', 'q"r', 'Amp', '1', 'é']
        if ext == 'tsv':
            names = names + ['t\tab']             # a tab inside a field name is harmless in a .tsv file only
        fields = rng.sample(names, rng.randrange(2, 5))
        rows = []
        for _ in range(rng.randrange(1, 6)):
            r = []
            for f in fields:
                if rng.random() < .3:
                    continue
                t = rng.randrange(3)
                if t == 0:
                    r.append([f, {'int': rand_int(rng)}])
                elif t == 1:
                    r.append([f, {'float': rand_float(rng)}])
                else:
                    r.append([f, {'text': text_cell(rng)}])
            if rng.random() < .5:
                rng.shuffle(r)
            rows.append(r)
        if len({f for r in rows for f, _ in r}) < 2:
            continue
        npfloat = rng.pick([0, 0, 32, 64])
        if npfloat == 32 and any('float' in c and abs(c['float']) > 3e38 for r in rows for _, c in r):
            npfloat = 0         # would be inf as a float32: finite floats only
        # n_significant_figures: the default, or 1..10 passed by the caller (0 is outside: '%.0f' writes no point, the file
        # then holds an integer literal - hypothesis n != 0 of cluster_table_roundtrip; real code: 2.5 comes back as int 2)
        yield dict(p=PID, op='tsv', rows=rows, ext=ext, first=rng.pick([None, fields[-1], 'absent']), npfloat=npfloat, stale=rng.random() < .3,
                   nsf=rng.pick([None, None, 1, 2, 3, 4, 6, 10]))
    for _ in range(300 if q else 5000):
        ids = rng.sample(list(range(0, 500)) + [-1, -20, 10 ** 6, 2 ** 40], rng.randrange(0, 6))
        data = []
        for i in ids:
            kind = rng.randrange(3)
            data.append([i, (rand_int(rng) if kind == 0 else (rand_float(rng) if kind == 1 else
                             (rng.pick(['good', 'mua', 'a,b', 'x\ty', 'q"uote', '']) if rng.random() < .5 else
                              (lambda t: '' if _numeric_like(t) else t)(rand_text(rng, nonempty=False)))))])
        ext = rng.pick(['tsv', 'csv'])
        blank = None
        if rng.random() < .5:
            blank = dict(eol=rng.pick(['\r\n', '\n', '\r']), trailing=rng.randrange(0, 3),
                         after=[rng.randrange(0, 50) for _ in range(rng.randrange(0, 3))])
            if not blank['trailing'] and not blank['after']:
                blank['trailing'] = 1
        yield dict(p=PID, op='simple', field=rng.pick(['group', 'KSLabel', 'Amplitude', 'my field', 'a,b', 'q"x'] +
                                                      (['t\tab'] if ext == 'tsv' else [])),
                   data=data, ext=ext, metadata=rng.random() < .5, stale=rng.random() < .3, blank=blank)
    for _ in range(300 if q else 5000):
        keys = rng.sample(['dat_path', 'n_channels_dat', 'dtype', 'offset', 'sample_rate', 'hp_filtered', 'extra', '_x1',
                           'Fs', 'nChan', 'a', 'match', 'x_y_2'], rng.randrange(1, 6))

        def scalar(inner):
            k = rng.randrange(6)
            if k == 0:
                return rng.pick([3, -1, 0, 384, 10 ** 30, -(2 ** 40)])
            if k == 1:
                return rng.pick([2.5, 30000.0, 1e-05, 1e22, -0.0, 0.1, 123456789.12345679, -2.0, 1.5e-300])
            if k == 2:
                return rng.random() < .5
            if k == 3:
                return None
            if k == 4:
                return rng.pick(['int16', 'a b', 'x.dat', '/data/rec 1.bin', '', 'é', "it's", '#1', 'None', '3', 'a, b]', '(x'])
            # inside lists / tuples repr() quotes and escapes; a top-level string is written between double quotes as it is
            alpha = list('ab /._-#,[]()=\'') + (['"', '\\', '\t', '\n', '\r', "'"] if inner else [])
            return ''.join(rng.pick(alpha) for _ in range(rng.randrange(0, 6)))
        data = []
        for k in keys:
            t = rng.randrange(5)
            if t <= 1:
                v = scalar(False)
            elif t <= 3:
                v = [scalar(True) for _ in range(rng.randrange(0, 4))]
            else:
                v = {'tuple': [scalar(True) for _ in range(rng.randrange(0, 4))]}
            data.append([k, v])
        # NumPy scalars only at top level (inside a list repr() writes `np.int64(3)`, which exec cannot read: out of domain)
        yield dict(p=PID, op='params', data=data, npvalues=rng.pick([0, 0, 32, 64]), stale=rng.random() < .4)
