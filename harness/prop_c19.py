"""C19 — event dispatch and progress completion (DESIGN.md §5 C19)."""
import itertools
from . import common as C

PID = 'C19'
PARALLEL = False
BATCH = 5000
BUDGET_S = {'quick': 60, 'thorough': 900}
RULE = ('emitter: all op sequences up to length L over a fixed alphabet (2 events, 2 senders, 3 '
        'callbacks incl. a bound method and a `last` one, connect by name / explicit event, unconnect '
        'by callback / sender / owner, reset, set_silent, nested silent contexts, emits with/without '
        'single), then random longer ones; reporter: all histories up to length L over {increment, '
        'set value, set maximum, set_complete, reset} on a small value grid, then random. '
        'non-trivial = history containing an emit with >= 1 registered callback, or a reporter '
        'history with >= 1 completion')
ASSUMPTIONS = ['callbacks are recording stubs returning their id; senders are plain objects compared by '
               'identity; the Python call protocol (args/kwargs passing) is checked on the Python side']

# emitter alphabet -----------------------------------------------------------------------------
E_ALPHA = [
    dict(k='connect', event=0, sender=None, id=0, owner=None, last=False, byname=True),
    dict(k='connect', event=0, sender=0, id=1, owner=None, last=False, byname=False),
    dict(k='connect', event=0, sender=None, id=2, owner=7, last=True, byname=False),
    dict(k='connect', event=1, sender=1, id=0, owner=None, last=False, byname=False),
    dict(k='connect', event=0, sender=1, id=1, owner=None, last=True, byname=True),
    dict(k='unconnect', items=[{'cb': 0}]),
    dict(k='unconnect', items=[{'obj': 0}]),
    dict(k='unconnect', items=[{'obj': 7}, {'cb': 1}]),
    dict(k='reset'),
    dict(k='set_silent', b=True),
    dict(k='set_silent', b=False),
    dict(k='enter'),
    dict(k='exit'),
    dict(k='emit', event=0, sender=0, single=False),
    dict(k='emit', event=0, sender=1, single=False),
    dict(k='emit', event=0, sender=0, single=True),
    dict(k='emit', event=1, sender=1, single=False),
]
R_ALPHA = [dict(k='inc'), dict(k='complete'), dict(k='reset', m=None), dict(k='reset', m=1), dict(k='reset', m=2),
           dict(k='reset', m=0), dict(k='set', v=0), dict(k='set', v=1), dict(k='set', v=2), dict(k='set', v=3),
           dict(k='max', m=0), dict(k='max', m=1), dict(k='max', m=2), dict(k='max', m=3)]


def well_nested(ops):
    d = 0
    for o in ops:
        if o['k'] == 'enter':
            d += 1
        elif o['k'] == 'exit':
            if d == 0:
                return False
            d -= 1
        elif o['k'] == 'set_silent' and d != 0:
            return False
    return True


def impl(case):
    from phylib.utils import event as EV
    if case['op'] == 'emitter':
        ev = EV.EventEmitter()

        class EmptySender(object):
            """a sender that is falsy (an empty container-like object), compared by identity"""
            def __len__(self):
                return 0

        senders = {'plain': [object(), object()], 'falsy': [EmptySender(), EmptySender()],
                   'mixed': [object(), EmptySender()]}[case.get('senders', 'plain')]
        log = []

        class Owner(object):
            pass
        owners = {}

        def make_cb(cid, event, owner):
            def body(sender, *args, **kwargs):
                log.append((cid, sender, args, dict(kwargs)))
                return cid
            if owner is None:
                fn = body
                fn.__name__ = 'on_e%d' % event
                return fn
            o = owners.setdefault(owner, Owner())
            import types

            def meth(self, sender, *args, **kwargs):
                return body(sender, *args, **kwargs)
            meth.__name__ = 'on_e%d' % event
            return types.MethodType(meth, o)
        cbs = {}    # id -> list of callables created for that id (same function object per id)
        cms = []
        outs = []
        for o in case['ops']:
            k = o['k']
            if k == 'connect':
                key = (o['id'], o['event'], o['owner'])
                if key not in cbs:
                    cbs[key] = make_cb(o['id'], o['event'], o['owner'])
                f = cbs[key]
                kw = {}
                if o['last']:
                    kw['last'] = True
                if o['sender'] is not None:
                    kw['sender'] = senders[o['sender']]
                if not o['byname']:
                    kw['event'] = 'e%d' % o['event']
                style = case.get('connect_style', 'direct')
                if style == 'direct':
                    ev.connect(f, **kw)
                elif style == 'decorator_args' and kw:
                    ev.connect(**kw)(f)          # @ev.connect(event=..., sender=..., last=...)
                else:
                    ev.connect(f, **kw)
            elif k == 'unconnect':
                items = []
                for it in o['items']:
                    if 'cb' in it:
                        items += [f for (cid, e, ow), f in cbs.items() if cid == it['cb']]
                    elif it['obj'] in (0, 1):
                        items.append(senders[it['obj']])
                    else:
                        items.append(owners.setdefault(it['obj'], Owner()))
                ev.unconnect(*items)
            elif k == 'reset':
                ev.reset()
            elif k == 'set_silent':
                ev.set_silent(o['b'])
            elif k == 'enter':
                cm = ev.silent()
                cm.__enter__()
                cms.append(cm)
            elif k == 'exit':
                cms.pop().__exit__(None, None, None)
            elif k == 'emit':
                del log[:]
                kw = dict(key='K%d' % len(outs))
                if o['single']:
                    kw['single'] = True
                ret = ev.emit('e%d' % o['event'], senders[o['sender']], 'A', 42, **kw)
                passed = all(s is senders[o['sender']] and a == ('A', 42) and kk == dict(key='K%d' % len(outs))
                             for (_, s, a, kk) in log)
                if ret is None:
                    r = None
                elif isinstance(ret, list):
                    r = list(ret)
                else:
                    r = {'one': ret}
                outs.append(dict(calls=[c for (c, _, _, _) in log], ret=r, passed=passed))
        return dict(outs=outs, silent=bool(ev.is_silent))
    if case['op'] == 'reporter':
        EV.reset()
        EV.set_silent(False)
        pr = EV.ProgressReporter()
        got = []
        EV.connect(lambda sender, value, value_max, **kw: got.append(('p', value, value_max)),
                   event='progress', sender=pr)
        EV.connect(lambda sender, **kw: got.append(('c',)), event='complete', sender=pr)
        steps = []
        for o in case['ops']:
            del got[:]
            mb = pr.value_max
            k = o['k']
            if k == 'inc':
                pr.increment()
            elif k == 'set':
                pr.value = o['v']
            elif k == 'max':
                pr.value_max = o['m']
            elif k == 'complete':
                pr.set_complete()
            elif k == 'reset':
                pr.reset(o['m']) if o['m'] is not None else pr.reset()
            prog = [g for g in got if g[0] == 'p']
            steps.append(dict(progress=[prog[0][1], prog[0][2]] if prog else None, n_progress=len(prog),
                              n_complete=len([g for g in got if g[0] == 'c']),
                              value=pr.value, max=pr.value_max, max_before=mb,
                              order_ok=(not got or got[0][0] == 'p' or not prog)))
        EV.reset()
        return steps
    raise ValueError(case['op'])


def model_query(case, impl_res):
    q = dict(p=PID, op=case['op'], ops=case['ops'])
    if case['op'] == 'reporter' and 'ok' in impl_res:
        obs = []
        for o, s in zip(case['ops'], impl_res['ok']):
            obs.append(dict(vu=o['k'] in ('inc', 'set', 'complete'), vs=o['k'] != 'max', value=s['value'],
                            max_before=s['max_before'], max=s['max'], announced=s['n_complete'] > 0))
        q['impl'] = obs
    return q


def judge(case, impl_res, ans):
    if 'err' in ans:
        return 'MACHINERY: driver error %s' % ans['err']
    m = ans['ok']
    if 'raised' in impl_res:
        return 'SPEC: real code raised %s (%s) at %s on an in-domain history' % (
            impl_res['raised'], impl_res['msg'], impl_res['where'])
    ok = impl_res['ok']
    if case['op'] == 'emitter':
        if m['model'] != m['spec']:
            return 'MACHINERY: model differs from its Lean spec (contradicts the theorem)'
        if len(ok['outs']) != len(m['spec']):
            return 'MACHINERY: number of emits'
        for i, (o, s) in enumerate(zip(ok['outs'], m['spec'])):
            if not o['passed']:
                return 'SPEC: emit %d: sender/arguments not passed through unchanged' % i
            if o['calls'] != s['calls']:
                return 'SPEC: emit %d: called %s, expected %s' % (i, o['calls'], s['calls'])
            if o['ret'] != s['ret']:
                return 'SPEC: emit %d: returned %s, expected %s' % (i, o['ret'], s['ret'])
        if ok['silent'] != m['silent']:
            return 'CORR: final silent flag differs from the model'
        return None
    if case['op'] == 'reporter':
        if m['model_spec'] is not True:
            return 'MACHINERY: model violates its own spec (contradicts the theorem)'
        for i, s in enumerate(ok):
            if s['n_complete'] > 1 or s['n_progress'] > 1:
                return 'SPEC: step %d: more than one complete/progress event for one update' % i
        if m['impl_spec'] is not True:
            return 'SPEC: completion announcements violate the once-per-crossing rule'
        for i, (s, mm) in enumerate(zip(ok, m['model'])):
            if (s['n_complete'] > 0) != mm['complete'] or s['progress'] != mm['progress'] or \
                    s['value'] != mm['value'] or s['max'] != mm['max']:
                return 'CORR: step %d differs from the model' % i
        return None


def nontrivial(case):
    ops = case['ops']
    if case['op'] == 'emitter':
        seen_connect = False
        for o in ops:
            if o['k'] == 'connect':
                seen_connect = True
            if o['k'] == 'emit' and seen_connect:
                return True
        return False
    return any(o['k'] in ('inc', 'set', 'complete') for o in ops) and len(ops) >= 2


def tally(rep, case, impl_res, ans):
    if case['op'] == 'emitter':
        rep.count('senders:' + case.get('senders', 'plain'))
        rep.count('connect_style:' + case.get('connect_style', 'direct'))
    rep.count('op:' + case['op'])
    rep.count('len:%d' % min(len(case['ops']), 8))
    if case['op'] == 'emitter':
        d = mx = 0
        for o in case['ops']:
            if o['k'] == 'enter':
                d += 1; mx = max(mx, d)
            elif o['k'] == 'exit':
                d -= 1
        rep.count('max_silent_depth:%d' % mx)
    elif 'ok' in impl_res:
        rep.count('completions:%d' % min(3, sum(s['n_complete'] for s in impl_res['ok'])))


def classify(case, impl_res, ans, why):
    ks = [o['k'] for o in case['ops']]
    return dict(op=case['op'], kind=why.split(':')[0], nested=ks.count('enter') >= 2,
                set_silent_then_context=('set_silent' in ks and 'enter' in ks),
                has_reset='reset' in ks, raised=impl_res.get('raised'))


def shrink(case):
    ops = case['ops']
    for i in range(len(ops)):
        c = dict(case); c['ops'] = ops[:i] + ops[i + 1:]
        if case['op'] != 'emitter' or well_nested(c['ops']):
            yield c


def gen(tier, rng):
    q = tier == 'quick'
    LE, LR = (3, 4) if q else (4, 5)
    nemit = 0
    for L in range(1, LE + 1):
        for ops in itertools.product(E_ALPHA, repeat=L):
            if well_nested(ops) and any(o['k'] == 'emit' for o in ops):
                nemit += 1
                yield dict(p=PID, op='emitter', ops=[dict(o) for o in ops], senders=['plain', 'falsy', 'mixed'][nemit % 3],
                           connect_style=['direct', 'decorator_args'][(nemit // 3) % 2])
    for L in range(1, LR + 1):
        for ops in itertools.product(R_ALPHA, repeat=L):
            yield dict(p=PID, op='reporter', ops=[dict(o) for o in ops])
    for _ in range(6000 if q else 150000):
        if rng.random() < .6:
            L = rng.randrange(4, 14)
            ops, d = [], 0
            for _ in range(L):
                while True:
                    o = rng.pick(E_ALPHA)
                    if o['k'] == 'exit' and d == 0:
                        continue
                    if o['k'] == 'set_silent' and d != 0:
                        continue
                    break
                d += (o['k'] == 'enter') - (o['k'] == 'exit')
                ops.append(dict(o))
            yield dict(p=PID, op='emitter', ops=ops, senders=rng.pick(['plain', 'falsy', 'mixed']),
                       connect_style=rng.pick(['direct', 'decorator_args']))
        else:
            yield dict(p=PID, op='reporter', ops=[dict(rng.pick(R_ALPHA)) for _ in range(rng.randrange(3, 12))])
