"""C19 — event dispatch and progress completion (DESIGN.md §5 C19)."""
import contextlib
import io
import itertools
import re
from . import common as C

PID = 'C19'
PARALLEL = False
BATCH = 5000
BUDGET_S = {'quick': 60, 'thorough': 900}
RULE = ('emitter: all op sequences up to length L over a fixed alphabet (2 events, 2 senders, 3 '
        'callbacks incl. two bound methods and `last` ones, connect by function name / explicit event, directly '
        'or through the decorator form with arguments, unconnect by callback (a bound method is looked up on '
        'its object again: equal, not identical) / sender / owner, reset, set_silent (also inside silent '
        'contexts), nested silent contexts, emits with positional and keyword arguments, with/without single), '
        'then random longer ones (these also with a connect that raises, `last=False` and other connect '
        'keywords, single=False, senders that are equal but not identical); the name of a function is rebound '
        'to what `connect` returned (decorator semantics); event-name derivation from function names; '
        'reporter: all histories up to length L over {increment, set value, set maximum, set_complete, reset} '
        'on a small value grid, then random (also with keyword arguments and with progress / completion '
        'messages set). non-trivial = history containing an emit with >= 1 registered callback, or a reporter '
        'history with >= 1 completion')
ASSUMPTIONS = ['callbacks are recording stubs: they record (identity, sender received, args, kwargs) and return '
               'Spec.stubResult of what they received (1000*id + 10*sender + number of positional arguments); '
               'what they received is compared with the calls of the Lean specification; positional arguments '
               'are opaque objects compared by identity',
               'the keyword arguments a reporter forwards are checked on the Python side',
               'the text of a reporter message is read only for its kind and its (value, maximum) fields: the '
               'rendering of absent / ill-formatted fields (PartialFormatter) is not part of the property']

# emitter alphabet -----------------------------------------------------------------------------
E_ALPHA = [
    dict(k='connect', event=0, sender=None, id=0, owner=None, last=False, byname=True),
    dict(k='connect', event=0, sender=0, id=1, owner=None, last=False, byname=False),
    dict(k='connect', event=0, sender=None, id=2, owner=7, last=True, byname=False),
    dict(k='connect', event=1, sender=1, id=0, owner=None, last=False, byname=False),
    dict(k='connect', event=0, sender=1, id=1, owner=8, last=True, byname=True),      # bound method, by name
    dict(k='unconnect', items=[{'cb': 0}]),
    dict(k='unconnect', items=[{'obj': 0}]),
    dict(k='unconnect', items=[{'obj': 7}, {'cb': 1}]),
    dict(k='reset'),
    dict(k='set_silent', b=True),
    dict(k='set_silent', b=False),
    dict(k='enter'),
    dict(k='exit'),
    dict(k='emit', event=0, sender=0, single=False, args=[7, 3]),
    dict(k='emit', event=0, sender=1, single=False),
    dict(k='emit', event=0, sender=0, single=True, args=[5]),
    dict(k='emit', event=1, sender=1, single=False, kw=[['a', 2], ['b', 0]]),
]
# letters used by the random stream only
E_EXTRA = [
    dict(k='connect', event=0, sender=None, id=0, owner=None, last=False, fname='spam'),        # ValueError
    dict(k='connect', event=1, sender=None, id=2, owner=None, last=False, fname='on_'),         # ValueError
    dict(k='connect', event=1, sender=0, id=1, owner=None, last=True, fname='whatever', event_arg='e1'),
    dict(k='emit', event=0, sender=0, single=0, args=[1, 2, 3], kw=[['x', 9]]),                  # single=False given
    dict(k='emit', event=0, sender=1, single=True, args=[], kw=[['single_', 4]]),
    dict(k='emit', event=1, sender=0, single=True),
    dict(k='unconnect', items=[{'obj': 1}]),
    dict(k='exit', exc=True),               # the silent block is left through an exception
    dict(k='unconnect', items=[{'cb': 2}]),                 # a bound method, looked up again on its object
    dict(k='unconnect', items=[{'obj': 8}]),
    dict(k='connect', event=0, sender=None, id=1, owner=None, last=False, byname=False, kwx=True),  # last=False, prio=3
    dict(k='connect', event=0, sender=0, id=2, owner=7, last=True, byname=False, kwx=True),
]
R_ALPHA = [dict(k='inc'), dict(k='complete'), dict(k='reset', m=None), dict(k='reset', m=1), dict(k='reset', m=2),
           dict(k='reset', m=0), dict(k='set', v=0), dict(k='set', v=1), dict(k='set', v=2), dict(k='set', v=3),
           dict(k='max', m=0), dict(k='max', m=1), dict(k='max', m=2), dict(k='max', m=3)]


def well_nested(ops):
    """what Python itself enforces: a silent() context is left only after it was entered (set_silent may
    occur anywhere, also inside a context: Props.emit_outcomes_any_nesting)"""
    d = 0
    for o in ops:
        if o['k'] == 'enter':
            d += 1
        elif o['k'] == 'exit':
            if d == 0:
                return False
            d -= 1
    return True


def norm(o):
    """alphabet letter / stored case -> the full operation both sides see: function name and explicit event
    of a connect; event name, positional and keyword argument tokens of an emit"""
    o = dict(o)
    if o['k'] == 'connect':
        byname = o.pop('byname', False)
        if 'fname' not in o:
            o['fname'] = 'on_e%d' % o['event'] if byname else 'cb%d' % o['id']
            o['event_arg'] = None if byname else 'e%d' % o['event']
        o.setdefault('event_arg', None)
    elif o['k'] == 'emit':
        o['event'] = o['event'] if isinstance(o['event'], str) else 'e%d' % o['event']
        o.setdefault('args', [])
        kw = [list(x) for x in o.get('kw', [['key', 6]])]
        if o['single'] is not False:          # True -> token 1; 0 -> `single=False` passed explicitly
            kw.append(['single', 1 if o['single'] is True else int(o['single'])])
        o['kwargs'] = kw
    return o


def tok2py(v):
    """keyword value token -> Python value (0 and 1 are the flags False / True)"""
    return bool(v) if v in (0, 1) else v


def _reporter_op(pr, o, kw):
    k = o['k']
    if k == 'inc':
        pr.increment(**kw)
    elif k == 'set':
        pr.value = o['v']
    elif k == 'max':
        pr.value_max = o['m']
    elif k == 'complete':
        pr.set_complete(**kw)
    elif k == 'reset':
        pr.reset(o['m']) if o['m'] is not None else pr.reset()


def impl(case):
    from phylib.utils import event as EV
    if case['op'] == 'emitter':
        ev = EV.EventEmitter()

        class EmptySender(object):
            """a sender that is falsy (an empty container-like object), compared by identity"""
            def __len__(self):
                return 0

        class EqSender(object):
            """senders that are equal without being identical"""
            def __init__(self, v):
                self.v = v

            def __eq__(self, other):
                return isinstance(other, EqSender) and other.v == self.v

            def __hash__(self):
                return hash(self.v)

        mode = case.get('senders', 'plain')
        fixed = {'plain': [object(), object()], 'falsy': [EmptySender(), EmptySender()],
                 'mixed': [object(), EmptySender()], 'equal': None}[mode]
        made = []       # every sender object handed to the emitter, with its token

        def sender_obj(i):
            ob = EqSender(i) if mode == 'equal' else fixed[i]      # 'equal': a fresh equal instance every time
            made.append((ob, i))
            return ob
        log = []

        class Arg(object):
            """a positional argument: an opaque object ("passed through unchanged" = the very same object arrives)"""
            def __init__(self, v):
                self.v = v
        owners = {}     # owner token -> an instance of a class of its own
        cid_of = {}     # id(underlying function) -> callback token
        names = {}      # (id, function name, None) -> what the NAME of a plain function is bound to
        bound = {}      # (id, function name, owner) -> (object, attribute) of a bound method

        def owner_obj(tok):
            if tok not in owners:
                owners[tok] = type('Owner%d' % tok, (object,), {})()
            return owners[tok]

        def make_cb(key):
            cid, fname, owner = key

            def body(sender, *args, **kwargs):
                log.append((cid, sender, args, dict(kwargs)))
                idx = [i for ob, i in made if ob is sender]
                return 1000 * cid + 10 * (idx[-1] if idx else 99) + len(args)       # Spec.stubResult
            if owner is None:
                body.__name__ = fname
                cid_of[id(body)] = cid
                names[key] = body
                return
            ob = owner_obj(owner)

            def meth(self, sender, *args, **kwargs):
                return body(sender, *args, **kwargs)
            meth.__name__ = fname
            cid_of[id(meth)] = cid
            attr = 'm%d_%s' % (cid, fname)
            setattr(type(ob), attr, meth)
            bound[key] = (ob, attr)

        def current(key):
            """the callable a user would write down now: a plain function through its name (functions are equal
            only to themselves); a bound method through `obj.method` evaluated AGAIN - equal to the one
            registered earlier, never identical to it"""
            if key in bound:
                ob, attr = bound[key]
                return getattr(ob, attr)
            return names[key]
        cms = []
        outs = []
        rets = []
        for o in map(norm, case['ops']):
            k = o['k']
            if k == 'connect':
                key = (o['id'], o['fname'], o['owner'])
                if key not in names and key not in bound:
                    make_cb(key)
                f = current(key)
                kw = {}
                if o['last']:
                    kw['last'] = True
                if o['sender'] is not None:
                    kw['sender'] = sender_obj(o['sender'])
                if o['event_arg'] is not None:
                    kw['event'] = o['event_arg']
                if o.get('kwx'):                      # `last=False` written out, and a keyword emit does not know
                    kw.setdefault('last', False)
                    kw['prio'] = 3
                style = case.get('connect_style', 'direct')
                try:
                    if style == 'decorator_args':
                        ret = ev.connect(**kw)(f)     # @ev.connect(event=..., sender=..., last=...) / @ev.connect()
                    else:
                        ret = ev.connect(f, **kw)     # ev.connect(f, ...) / @ev.connect
                except ValueError:
                    rets.append(None)                 # function name is not on_<event>: nothing registered
                else:
                    rets.append(o['id'] if ret is f else 'not the function')
                    if key in names:
                        # decorator semantics: `@ev.connect def on_x(...)` binds the name to what connect returned
                        names[key] = ret
            elif k == 'unconnect':
                items = []
                for it in o['items']:
                    if 'cb' in it:
                        items += [current(key) for key in list(names) + list(bound) if key[0] == it['cb']]
                    elif it['obj'] in (0, 1):
                        items.append(sender_obj(it['obj']))
                    else:
                        items.append(owner_obj(it['obj']))
                ev.unconnect(*items)
            elif k == 'reset':
                ev.reset()
            elif k == 'set_silent':
                ev.set_silent(o['b'])
            elif k == 'enter':
                cm = ev.silent()
                cm.__enter__()
                cms.append(cm)
            elif k == 'exit':
                if o.get('exc'):
                    # the body of `with ev.silent():` raised: Python hands the exception to the context manager,
                    # which must restore the flag and let the exception through (the model's exitSilent)
                    e = ValueError('raised inside the silent block')
                    if cms.pop().__exit__(ValueError, e, None):
                        raise AssertionError('silent() swallowed an exception raised inside the block')
                else:
                    cms.pop().__exit__(None, None, None)
            elif k == 'emit':
                del log[:]
                sent = sender_obj(o['sender'])
                sargs = [Arg(v) for v in o['args']]
                ret = ev.emit(o['event'], sent, *sargs, **{kk: tok2py(v) for kk, v in o['kwargs']})
                if ret is None:
                    r = None
                elif isinstance(ret, list):
                    r = list(ret)
                else:
                    r = {'one': ret}
                # what each callback received: the sender and the positional arguments are reported by their
                # tokens only when they ARE the emitted objects (99 otherwise)
                calls = [[c, (o['sender'] if sd is sent else 99),
                          [(x.v if i < len(sargs) and x is sargs[i] else 99) for i, x in enumerate(a)],
                          sorted([kk, int(v)] for kk, v in kw.items())] for (c, sd, a, kw) in log]
                outs.append(dict(calls=calls, ret=r))

        def snd_tok(sd):
            if sd is None:
                return None
            idx = [i for ob, i in made if ob is sd]
            return idx[-1] if idx else 99

        def own_tok(f):
            slf = getattr(f, '__self__', None)
            for t, ob in owners.items():
                if ob is slf:
                    return t
            return None
        # the callback list itself (anchored state `_callbacks`): event, sender filter, callback, owner, `last`
        reg = [[e, snd_tok(sd), cid_of.get(id(getattr(f, '__func__', f)), 99), own_tok(f), bool(k.get('last', None))]
               for (e, sd, f, k) in ev._callbacks]
        return dict(outs=outs, silent=bool(ev.is_silent), reg=reg, rets=rets)
    if case['op'] == 'connect_name':
        res = []
        for name in case['names']:
            ev = EV.EventEmitter()
            hit = []

            def f(sender, *a, **k):
                hit.append(1)
            f.__name__ = name
            try:
                ev.connect(f)
            except ValueError:
                res.append(None)
                continue
            # observe the registered event through emit: every substring of the name is tried
            subs = sorted({name[i:j] for i in range(len(name) + 1) for j in range(i, len(name) + 1)})
            got = []
            for e in subs:
                del hit[:]
                ev.emit(e, None)
                if hit:
                    got.append(e)
            res.append(got)
        return res
    if case['op'] == 'reporter':
        EV.reset()
        EV.set_silent(False)
        pr = EV.ProgressReporter()
        got = []
        EV.connect(lambda sender, value, value_max, **kw: got.append(('p', value, value_max, kw, sender)),
                   event='progress', sender=pr)
        EV.connect(lambda sender, **kw: got.append(('c', None, None, kw, sender)), event='complete', sender=pr)
        msgs = case.get('msgs', 0)
        if msgs:
            # the reporter announces through its messages: two more callbacks connected with sender=pr
            pr.set_progress_message('P:{value}:{value_max}:{tag}:{progress:.0f};', line_break=(msgs == 2))
            pr.set_complete_message('C:{tag};')
        steps = []
        last, every = len(case['ops']) - 1, 'kw' in case
        for n, o in enumerate(case['ops']):
            del got[:]
            mb = pr.value_max
            k = o['k']
            kw = dict(tag=n) if case.get('kw') and k in ('inc', 'complete') else {}
            if msgs:
                buf = io.StringIO()
                with contextlib.redirect_stdout(buf):
                    _reporter_op(pr, o, kw)
            else:
                _reporter_op(pr, o, kw)
            prog = [g for g in got if g[0] == 'p']
            st = dict(progress=[prog[0][1], prog[0][2]] if prog else None, n_progress=len(prog),
                      n_complete=len([g for g in got if g[0] == 'c']), order=''.join(g[0] for g in got),
                      value=pr.value, max=pr.value_max, max_before=mb,
                      passed=all(g[3] == kw and g[4] is pr for g in got))
            if n == last or every:
                # the read-only accessors, after the last step (the exhaustive part enumerates every prefix as
                # a history of its own) and after every step of a random history
                st['is_complete'] = bool(pr.is_complete())
                try:
                    st['frac'] = pr.progress
                except ZeroDivisionError:
                    st['frac'] = None                   # maximum 0
            if msgs:
                printed = []
                for kind, rest in re.findall(r'([PC]):([^;]*);', buf.getvalue()):
                    f = rest.split(':')
                    printed.append(['p', int(f[0]), int(f[1])] if kind == 'P' else ['c'])
                st['printed'] = printed
            steps.append(st)
        EV.reset()
        return steps
    raise ValueError(case['op'])


def lean_op(o):
    o = norm(o)
    if o['k'] == 'connect':
        return dict(k='connect', fname=o['fname'], event=o['event_arg'], sender=o['sender'], id=o['id'],
                    owner=o['owner'], last=o['last'])
    if o['k'] == 'emit':
        return dict(k='emit', event=o['event'], sender=o['sender'], args=o['args'], kwargs=o['kwargs'])
    return o


def model_query(case, impl_res):
    if case['op'] == 'connect_name':
        return dict(p=PID, op='connect_name', names=case['names'])
    if case['op'] == 'emitter':
        return dict(p=PID, op='emitter', ops=[lean_op(o) for o in case['ops']])
    q = dict(p=PID, op=case['op'], ops=case['ops'])
    if case.get('msgs'):
        q['msgs'] = True
    if case['op'] == 'reporter' and 'ok' in impl_res:
        obs = []
        for o, s in zip(case['ops'], impl_res['ok']):
            obs.append(dict(vu=o['k'] in ('inc', 'set', 'complete'), vs=o['k'] != 'max', value=s['value'],
                            max_before=s['max_before'], max=s['max'], announced=s['n_complete'] > 0))
        q['impl'] = obs
    return q


def judge(case, impl_res, ans):
    if 'err' in ans:
        return 'MACHINERY: driver error %s' % ans['err']
    m = ans['ok']
    if 'raised' in impl_res:
        return 'SPEC: real code raised %s (%s) at %s on an in-domain history' % (
            impl_res['raised'], impl_res['msg'], impl_res['where'])
    ok = impl_res['ok']
    if case['op'] == 'emitter':
        if m['model'] != m['spec']:
            return 'MACHINERY: model differs from its Lean spec (contradicts the theorem)'
        if m['silent'] != m['silent_spec']:
            return 'MACHINERY: model silence flag differs from its Lean spec (contradicts the theorem)'
        if len(ok['outs']) != len(m['spec']):
            return 'MACHINERY: number of emits'
        for i, (o, s) in enumerate(zip(ok['outs'], m['spec'])):
            exp = [[c[0], c[1], c[2], sorted(c[3])] for c in s['calls']]
            if [c[0] for c in o['calls']] != [c[0] for c in exp]:
                return 'SPEC: emit %d: called %s, expected %s' % (i, [c[0] for c in o['calls']], [c[0] for c in exp])
            if o['calls'] != exp:
                return ('SPEC: emit %d: sender/arguments not passed through unchanged: callbacks received %s, '
                        'expected %s' % (i, o['calls'], exp))
            if o['ret'] != s['ret']:
                return 'SPEC: emit %d: returned %s, expected %s' % (i, o['ret'], s['ret'])
        if ok['silent'] != m['silent']:
            return 'CORR: final silent flag differs from the model'
        if m['reg'] != m['reg_spec']:
            return 'MACHINERY: model callback list differs from its Lean spec (contradicts the theorem)'
        if ok['rets'] != m['rets']:
            return ('CORR: connect returned %s (callback token / None = raised ValueError), the model (event.py:108: '
                    'the function itself) %s' % (ok['rets'], m['rets']))
        if ok['reg'] != m['reg']:
            return ('CORR: the callback list after the history is %s, the model has %s '
                    '(event, sender filter, callback, owner, last)' % (ok['reg'], m['reg']))
        return None
    if case['op'] == 'connect_name':
        for name, got, exp in zip(case['names'], ok, m['events']):
            if (got is None) != (exp is None):
                return 'SPEC: connect of a function named %r: %s, expected %s' % (
                    name, 'raised ValueError' if got is None else 'registered for %s' % got,
                    'ValueError' if exp is None else 'event %r' % exp)
            if got is not None and got != [exp]:
                return 'SPEC: a function named %r is called for the events %s, expected [%r]' % (name, got, exp)
        return None
    if case['op'] == 'reporter':
        if m['model_spec'] is not True:
            return 'MACHINERY: model violates its own spec (contradicts the theorem)'
        for i, s in enumerate(ok):
            if s['n_complete'] > 1 or s['n_progress'] > 1:
                return 'SPEC: step %d: more than one complete/progress event for one update' % i
            if not s['passed']:
                return 'SPEC: step %d: the reporter / keyword arguments were not passed through unchanged' % i
        if m['impl_spec'] is not True:
            return 'SPEC: completion announcements violate the once-per-crossing rule'
        for i, (s, mm) in enumerate(zip(ok, m['model'])):
            if 'printed' in s and [x[0] for x in s['printed']].count('c') != s['n_complete']:
                return 'SPEC: step %d: the completion message was printed %d time(s) for %d announcement(s)' % (
                    i, [x[0] for x in s['printed']].count('c'), s['n_complete'])
            if (s['n_complete'] > 0) != mm['complete'] or s['progress'] != mm['progress'] or \
                    s['value'] != mm['value'] or s['max'] != mm['max']:
                return 'CORR: step %d differs from the model' % i
            if s['order'] != mm['ev']:
                return 'CORR: step %d: events emitted in the order %s, model %s' % (i, list(s['order']), list(mm['ev']))
            if 'printed' in s and s['printed'] != mm['printed']:
                return 'CORR: step %d: messages printed %s, model %s' % (i, s['printed'], mm['printed'])
            if 'is_complete' not in s:
                continue
            if s['is_complete'] != mm['ic']:
                return 'CORR: step %d: is_complete() is %s, model %s' % (i, s['is_complete'], mm['ic'])
            # value / float(max) of two small integers is correctly rounded on both sides: exact comparison
            if (s['frac'] is None) != (mm['fr'] is None) or \
                    (s['frac'] is not None and s['frac'] != mm['fr'][0] / float(mm['fr'][1])):
                return 'CORR: step %d: progress is %s, model %s' % (i, s['frac'], mm['fr'])
        return None


def nontrivial(case):
    if case['op'] == 'connect_name':
        return True
    ops = case['ops']
    if case['op'] == 'emitter':
        seen_connect = False
        for o in ops:
            if o['k'] == 'connect':
                seen_connect = True
            if o['k'] == 'emit' and seen_connect:
                return True
        return False
    return any(o['k'] in ('inc', 'set', 'complete') for o in ops) and len(ops) >= 2


def tally(rep, case, impl_res, ans):
    rep.count('op:' + case['op'])
    if case['op'] == 'connect_name':
        return
    rep.count('len:%d' % min(len(case['ops']), 8))
    if case['op'] == 'emitter':
        rep.count('senders:' + case.get('senders', 'plain'))
        rep.count('connect_style:' + case.get('connect_style', 'direct'))
        d = mx = 0
        inside = raises = False
        bound_ids = set()
        for o in case['ops']:
            if o['k'] == 'enter':
                d += 1; mx = max(mx, d)
            elif o['k'] == 'exit':
                d -= 1
                if o.get('exc'):
                    rep.count('silent_block_left_through_exception')
            elif o['k'] == 'set_silent' and d > 0:
                inside = True
            elif o['k'] == 'connect' and o.get('fname') in ('spam', 'on_'):
                raises = True
            elif o['k'] == 'connect' and o.get('kwx'):
                rep.count('connect_with_last_false_and_other_keywords')
            elif o['k'] == 'unconnect' and any(it.get('cb') in bound_ids for it in o['items']):
                rep.count('unconnect_by_re_evaluated_bound_method')
            if o['k'] == 'connect' and o.get('owner') is not None:
                bound_ids.add(o['id'])
        rep.count('max_silent_depth:%d' % mx)
        if inside:
            rep.count('set_silent_inside_context')
        if raises:
            rep.count('connect_raises')
    elif 'ok' in impl_res:
        rep.count('completions:%d' % min(3, sum(s['n_complete'] for s in impl_res['ok'])))
        if case.get('msgs'):
            rep.count('reporter_with_messages')
            rep.count('completion_messages:%d' % min(3, sum(len([x for x in s['printed'] if x[0] == 'c'])
                                                              for s in impl_res['ok'])))


def classify(case, impl_res, ans, why):
    if case['op'] == 'connect_name':
        return dict(op=case['op'], kind=why.split(':')[0])
    ks = [o['k'] for o in case['ops']]
    return dict(op=case['op'], kind=why.split(':')[0], nested=ks.count('enter') >= 2,
                set_silent_then_context=('set_silent' in ks and 'enter' in ks),
                has_reset='reset' in ks, raised=impl_res.get('raised'))


def shrink(case):
    if case['op'] == 'connect_name':
        for i in range(len(case['names'])):
            c = dict(case); c['names'] = case['names'][:i] + case['names'][i + 1:]
            if c['names']:
                yield c
        return
    ops = case['ops']
    for i in range(len(ops)):
        c = dict(case); c['ops'] = ops[:i] + ops[i + 1:]
        if case['op'] != 'emitter' or well_nested(c['ops']):
            yield c


def gen(tier, rng):
    q = tier == 'quick'
    LE, LR = (3, 4) if q else (4, 5)
    nemit = 0
    for L in range(1, LE + 1):
        for ops in itertools.product(E_ALPHA, repeat=L):
            if well_nested(ops) and any(o['k'] == 'emit' for o in ops):
                nemit += 1
                yield dict(p=PID, op='emitter', ops=[dict(o) for o in ops], senders=['plain', 'falsy', 'mixed'][nemit % 3],
                           connect_style=['direct', 'decorator_args'][(nemit // 3) % 2])
                if any(o['k'] == 'exit' for o in ops):
                    # the same history with every silent block left through an exception
                    yield dict(p=PID, op='emitter', ops=[dict(o, exc=True) if o['k'] == 'exit' else dict(o) for o in ops],
                               senders=['plain', 'falsy', 'mixed'][nemit % 3], connect_style='direct')
    nrep = 0
    for L in range(1, LR + 1):
        for ops in itertools.product(R_ALPHA, repeat=L):
            nrep += 1
            # every 8th history on a reporter with progress / completion messages
            yield dict(p=PID, op='reporter', ops=[dict(o) for o in ops], msgs=(1 if nrep % 8 == 0 else 0))
    # event name derived from the function name (connect without event=)
    names = ['on_e0', 'on_', 'on', 'spam', 'on_x_y', 'On_e', 'on_é', '_on_e', 'on__', 'on_ e', 'on_a\n', 'on_a\nb',
             'on_\n', 'on_on_', 'xon_e', 'on_e ', 'o', '']
    yield dict(p=PID, op='connect_name', names=names)
    for _ in range(20 if q else 400):
        yield dict(p=PID, op='connect_name',
                   names=[''.join(rng.pick(['o', 'n', '_', 'e', 'on_', 'x', '\n', ' ', 'O']) for _ in range(rng.randrange(0, 6)))
                          for _ in range(8)])
    alpha = E_ALPHA + E_EXTRA
    for _ in range(6000 if q else 150000):
        if rng.random() < .6:
            L = rng.randrange(4, 14)
            ops, d = [], 0
            for _ in range(L):
                while True:
                    o = rng.pick(alpha)
                    if o['k'] == 'exit' and d == 0:
                        continue
                    break
                d += (o['k'] == 'enter') - (o['k'] == 'exit')
                ops.append(dict(o))
            yield dict(p=PID, op='emitter', ops=ops, senders=rng.pick(['plain', 'falsy', 'mixed', 'equal']),
                       connect_style=rng.pick(['direct', 'decorator_args']))
        else:
            yield dict(p=PID, op='reporter', ops=[dict(rng.pick(R_ALPHA)) for _ in range(rng.randrange(3, 12))],
                       kw=rng.random() < .5, msgs=rng.pick([0, 0, 1, 2]))
