"""C04 — loading a dataset reproduces its files under every supported layout (DESIGN.md §5 C04).

The model side is the driver op `load_full` (Lean `C04.loadFull`): numeric spike samples/times (rounding half to
even over exact rationals), concrete defaults, channel positions (linear layout when not distinct), extra per-spike
attributes, raw traces (C01/C02 reader models, rows from the file sizes) and duration all come from the model; the
judge only decodes tokens and compares.

Two classes of directories beyond fresh regular files with invented names (seeded C04 A9 / B9): per-spike attribute
files whose names are NEAR the loader's reserved names (`spike_times_sec.npy`, `spike_time.npy`, ...; the Lean model
`loadSpikeAttributes` decides by exact membership), and STORAGE FORMS in which files of the directory are symbolic
links (`case['links']`: into a content-addressed store, `params.py` shared with another complete dataset, the
directory reached through a directory link).  The Lean `Dir` is name -> contents, so the model's prediction does not
depend on the storage form; the impl side additionally hashes the directories the links point into (`outside`):
loading may neither create nor modify anything there.
"""
import hashlib
from fractions import Fraction
import numpy as np
from pathlib import Path
from . import common as C

PID = 'C04'
PARALLEL = True
BATCH = 100
BUDGET_S = {'quick': 90, 'thorough': 1500}
RULE = ('generated directories covering every single-factor variation and random combinations of: KS vs ALF file '
        'names; (n,) vs (n,1) vectors; presence/absence of spike_clusters, amplitudes, whitening, whitening inverse, '
        'shanks, probes, similar templates, features, template features, raw data (1..3 files, more channels than '
        'the channel map); dense vs sparse templates; id/time dtypes; NaN/inf cells incl. an all-NaN template; extra '
        'spike_*.npy attributes of right and wrong length (incl. files holding a single value); non-monotonic times in both layouts (must be rejected); '
        'directories the loader must refuse for another reason (a mandatory file missing, a stored dtype outside a whitelist, no spike at all, two cluster files): '
        'the directory is hashed around EVERY refused load and what it leaves behind is compared with the model (nothing, or the cluster copy); '
        'spike_templates uint16, spike_clusters int64/uint32/uint16, spike_times int16/uint16; dense pc_features without pc_feature_ind; the created spike_clusters.npy opened and compared byte for byte with the spike-template file; ALF '
        'seconds given as exact dyadic rationals whose product with the rate has fractional part .25/.5/.75 (samples = '
        'round half to even), as float32 seconds late in a long recording (the product must not be formed in single precision), '
        'as realistic non-dyadic float64 seconds (inexact float product: judged to within its rounding error); float values '
        'that need the precision of their stored dtype (exact tokens, multiples of 2^-40; amplitudes / templates / '
        'attributes keep their stored dtype); channel positions that are not all distinct (linear layout); two candidate names for one '
        'attribute; labelled ALF names incl. templates.waveforms.<label>.npy; raw files with trailing bytes; traces '
        'indexed by slices / lists / integers; template_scaling with template accesses followed by a re-inspection; '
        'feature tables stored for a subset of the spikes (pc_feature_spike_ids), template features with and without '
        'their column / row tables, NaN/inf cells in memory-mapped tables; datasets without templates; sparse '
        'templates with one local channel; per-spike attribute files whose names are NEAR a reserved name (extend it: '
        'spike_times_sec, spike_amplitudes_uv; are a proper prefix of it: spike_time; end with it: spike_raw_times; differ '
        'in case) next to files that carry a reserved name itself (spike_times_reordered, spike_samples, '
        'spike_amplitudes: never attributes); STORAGE FORMS of the directory: params.py / raw files / arrays that are '
        'symbolic links into a content-addressed store (git-annex style, relative or absolute targets), params.py '
        'that is a link to the params.py of ANOTHER complete dataset (two sortings sharing their parameters), the '
        'directory reached through a directory link - the loaded model is that of the directory named in the call and '
        'nothing is created or modified in the directories the links point into. '
        'Every stored dimension >= 2 (size-1 dimensions are squeezed away by the loader: out of scope). '
        'non-trivial = every case')
ASSUMPTIONS = ['np.linalg.inv is opaque (whitening matrices are diagonal powers of two; wm . wmi = I is checked numerically)',
               'np.load / memmap / glob are transport; wildcard patterns match at most one file']


ONE = 2 ** 40      # token of 1.0 in float arrays: floats are sent EXACTLY, as multiples of 2^-40 (every generated value is one)


def _tok(x):
    """exact token of a float: the integer x * ONE; a value that is not a multiple of 2^-40 (never generated: the result
    of a computation) is sent as the text of its exact fraction and so differs from every model token"""
    q = Fraction(x) * ONE
    return int(q) if q.denominator == 1 else 'q%d/%d' % (q.numerator, q.denominator)


def _cells(a):
    a = np.asarray(a)
    out = []
    for x in a.ravel().tolist():
        if isinstance(x, float) and np.isnan(x):
            out.append('nan')
        elif isinstance(x, float) and np.isinf(x):
            out.append('inf' if x > 0 else 'ninf')
        else:
            out.append(_tok(x) if isinstance(x, float) else int(x))
    return dict(shape=list(a.shape), data=out)


def _arr(f):
    data = [np.nan if x == 'nan' else (np.inf if x == 'inf' else (-np.inf if x == 'ninf' else x)) for x in f['data']]
    return np.array(data, dtype=f['dtype']).reshape(f['shape'])


def _hash(d):
    return {p.name: hashlib.sha256(p.read_bytes()).hexdigest() for p in sorted(Path(d).iterdir()) if p.is_file()}


ALF_OF = {'spike_times.npy': 'spikes.samples.npy', 'spike_templates.npy': 'spikes.templates.npy',
          'spike_clusters.npy': 'spikes.clusters.npy', 'amplitudes.npy': 'spikes.amps.npy',
          'channel_map.npy': 'channels.rawInd.npy', 'channel_positions.npy': 'channels.localCoordinates.npy',
          'channel_shanks.npy': 'channels.shanks.npy', 'channel_probe.npy': 'channels.probes.npy',
          'templates.npy': 'templates.waveforms.npy', 'template_ind.npy': 'templates.waveformsChannels.npy'}
LAYOUT_KEYS = ('spike_samples', 'spike_times', 'amplitudes', 'spike_templates', 'spike_clusters', 'channel_mapping',
               'channel_positions', 'channel_shanks', 'channel_probes', 'templates', 'template_cols', 'wm', 'wmi',
               'similar', 'n_spikes', 'n_channels', 'traces')
RAW_BIAS = 100      # raw cell (row r, column c of the concatenated recording) holds r * ncd + c - RAW_BIAS


def _pyitem(it):
    """C01-style item of a case -> Python index"""
    if 'int' in it:
        return it['int']
    if 'list' in it:
        return list(it['list'])
    a, b = it['slice']
    return slice(a, b)


def _raw_bytes(case):
    """-> per raw file the bytes written (header, rows, optional trailing bytes of an incomplete row)"""
    out = []
    for i, part in enumerate(case.get('raw') or []):
        b = b'\1' * case['offset'] + np.array(part, dtype='int16').tobytes()
        b += b'\2' * (case.get('raw_trailing') or {}).get(str(i), 0)
        out.append(b)
    return out


def _collect(m, case):
    def A(x):
        return None if x is None else _cells(x)

    def S(b):
        return None if b is None else dict(data=A(b.data), cols=A(b.get('cols', None)), rows=A(b.get('rows', None)))
    out = dict(
        spike_samples=[int(x) for x in m.spike_samples], spike_times=[float(x) for x in m.spike_times],
        amplitudes=A(m.amplitudes), spike_templates=A(m.spike_templates), spike_clusters=A(m.spike_clusters),
        channel_mapping=A(m.channel_mapping), channel_positions=A(m.channel_positions),
        positions_float=[float(x) for x in np.asarray(m.channel_positions, dtype=float).ravel()],
        channel_shanks=A(m.channel_shanks), channel_probes=A(m.channel_probes),
        templates=A(m.sparse_templates.data) if m.sparse_templates is not None else None,
        template_cols=A(m.sparse_templates.cols) if m.sparse_templates is not None and m.sparse_templates.cols is not None else None,
        wm=A(m.wm), wmi=A(m.wmi), similar=A(m.similar_templates),
        wm_wmi_identity=bool(np.allclose(np.asarray(m.wm, dtype=float) @ np.asarray(m.wmi, dtype=float), np.eye(m.n_channels))),
        spike_attributes={k: _cells(v) for k, v in m.spike_attributes.items()},
        metadata={f: {str(k): v for k, v in dd.items()} for f, dd in m.metadata.items()},
        n_spikes=int(m.n_spikes), n_channels=int(m.n_channels), n_templates=int(m.n_templates), duration=float(m.duration),
        features=S(m.sparse_features), template_features=S(m.sparse_template_features),
        # attributes _load_data derives from loaded arrays (np.unique, model.py:369, 376, 404-405)
        template_ids=[int(x) for x in m.template_ids], cluster_ids=[int(x) for x in m.cluster_ids],
        probes=[int(x) for x in m.probes], n_probes=int(m.n_probes))
    # stored precision of the float arrays that are shown as they are in the files
    out['dtypes'] = dict(amplitudes=None if m.amplitudes is None else str(m.amplitudes.dtype),
                         templates=None if m.sparse_templates is None else str(m.sparse_templates.data.dtype),
                         spike_attributes={k: str(v.dtype) for k, v in m.spike_attributes.items()})
    if m.traces is not None:
        n = m.traces.shape[0]
        out['n_samples'] = int(n)
        out['traces'] = np.asarray(m.traces[:]).astype(int).tolist()
        # property-level observable of the traces: the rows returned for each index of the case, as cell ids
        out['traces_items'] = []
        for it in case.get('trace_items') or []:
            rows = np.asarray(m.traces[_pyitem(it)])
            out['traces_items'].append(dict(ndim=int(rows.ndim), ids=(rows.astype(int) + RAW_BIAS).tolist()))
    else:
        out['traces'] = None
        out['n_samples'] = None
    return out


def _use(m):
    """Use the loaded model the way a GUI does (coordinator scenario: the state after USE must still be the files)."""
    done = []
    for name, call in (('get_template', lambda t: m.get_template(t)),
                       ('get_template_waveforms', lambda t: m.get_template_waveforms(t)),
                       ('get_template_unwhitened_off', lambda t: m.get_template(t, unwhiten=False))):
        for t in range(min(int(m.n_templates), 3)):
            try:
                call(t)
                done.append(name)
            except Exception:        # what these return is the business of C05/C08/C09, not of C04
                pass
    for name, call in (('get_amplitudes_true', lambda: m.get_amplitudes_true()),
                       ('templates_amplitudes', lambda: m.templates_amplitudes),
                       ('get_depths', lambda: m.get_depths())):
        try:
            call()
            done.append(name)
        except Exception:
            pass
    return sorted(set(done))



RESERVED_ATTRS = ('clusters', 'templates', 'samples', 'times', 'times_reordered', 'amplitudes')


def _sibling_files(files):
    """ANOTHER well-formed dataset of the same shapes (for a params.py shared between two sortings): spike templates
    reversed, integer spike samples shifted by one, no amplitudes, no curated clusters"""
    out = {}
    for name, f in files.items():
        if name.startswith(('amplitudes', 'spikes.amps', 'spike_clusters', 'spikes.clusters')):
            continue
        f = dict(f)
        if name.startswith(('spike_templates', 'spikes.templates')):
            f['data'] = list(reversed(f['data']))
        elif name.startswith(('spike_times.npy', 'spikes.samples')) and 'int' in f['dtype']:
            f['data'] = [x + 1 for x in f['data']]
        out[name] = f
    return out


def _store_links(d, links, files, case):
    """Turn files of the directory `d` into symbolic links (case['links']).  -> the directories the links point into"""
    import os
    outside = []
    if links.get('store'):
        # content-addressed store next to the dataset (git-annex / datalad style): blobs named after their checksum,
        # without extension
        store = d.parent / (d.name + '_store')
        store.mkdir(exist_ok=True)
        outside.append(store)
        for name in links['store']:
            p = d / name
            if not p.is_file() or p.is_symlink() or (name == 'params.py' and links.get('shared_params')):
                continue
            blob = store / ('SHA256E-s%d--%s' % (p.stat().st_size, hashlib.sha256(p.read_bytes()).hexdigest()))
            os.replace(p, blob)
            os.symlink(blob if links.get('absolute') else Path('..') / store.name / blob.name, p)
    if links.get('shared_params'):
        # a second, different, complete dataset whose params.py the judged directory shares through a link
        sib = d.parent / (d.name + '_sib')
        sib.mkdir(exist_ok=True)
        outside.append(sib)
        for name, f in _sibling_files(files).items():
            np.save(sib / name, _arr(f))
        for i, b in enumerate(_raw_bytes(case)):
            (sib / ('raw%d.dat' % i)).write_bytes(b[:case['offset']] + b[case['offset']:][::-1])
        os.replace(d / 'params.py', sib / 'params.py')
        os.symlink(Path('..') / sib.name / 'params.py', d / 'params.py')
    return outside


def _load_dir(d, files, case, again=True, write=True):
    from phylib.io.model import load_model
    d.mkdir(exist_ok=True)
    for name, f in files.items():
        np.save(d / name, _arr(f))
    dat = []
    for i, b in enumerate(_raw_bytes(case)):
        p = d / ('raw%d.dat' % i)
        if write:
            p.write_bytes(b)
        dat.append(p.name)
    for name, text in (case.get('text') or {}).items():
        if write:
            (d / name).write_text(text)
    if write:
        extra = ('template_scaling = %r\n' % case['template_scaling']) if case.get('template_scaling') else ''
        text = 'dat_path = %r\nn_channels_dat = %d\ndtype = "int16"\noffset = %d\nsample_rate = %r\nhp_filtered = False\n%s' % (
            dat, case['ncd'], case['offset'], case['rate'], extra)
        if case.get('omit_defaults') and case['offset'] == 0:
            # optional parameters left out of params.py where they have their default value
            text = text.replace('offset = 0\n', '').replace('hp_filtered = False\n', '')
        (d / 'params.py').write_text(text)
    if write and again and case.get('decoy'):
        # ANOTHER dataset loaded first in the same process, with non-default optional parameters (header offset,
        # template scaling): nothing of it may show in the model of the judged directory
        dd = d.parent / (d.name + '_other')
        dd.mkdir(exist_ok=True)
        for name, f in files.items():
            np.save(dd / name, _arr(f))
        dat2 = []
        for i, b in enumerate(_raw_bytes(case)):
            (dd / ('raw%d.dat' % i)).write_bytes(b'\2\2' + b)
            dat2.append('raw%d.dat' % i)
        for name, text in (case.get('text') or {}).items():
            (dd / name).write_text(text)
        (dd / 'params.py').write_text('dat_path = %r\nn_channels_dat = %d\ndtype = "int16"\noffset = %d\nsample_rate = %r\nhp_filtered = True\n'
                                      'template_scaling = 7.0\n' % (dat2, case['ncd'], case['offset'] + 2, case['rate'] * 2))
        try:
            m0 = load_model(dd / 'params.py')
            try:
                _use(m0)
            except Exception:  # noqa
                pass
            m0.close()
        except Exception:  # noqa
            pass
    links = case.get('links') or {}
    outside = []
    if write and links:
        outside = _store_links(d, links, files, case)
    elif links:
        outside = [q for q in (d.parent / (d.name + '_store'), d.parent / (d.name + '_sib')) if q.is_dir()]
    entry = d
    if links.get('via_dir_link'):
        # the dataset directory reached through a directory link
        entry = d.parent / (d.name + '_link')
        if not entry.is_symlink():
            entry.symlink_to(d.name, target_is_directory=True)
    before = _hash(d)
    before_out = [_hash(q) for q in outside]
    try:
        m = load_model(entry / 'params.py')
    except Exception as e:  # noqa
        # a rejected / failed load: what it left in the directory is part of the statement
        import traceback
        import os as _os
        where = ''
        for fr in reversed(traceback.extract_tb(e.__traceback__)):
            if 'phylib' in fr.filename:
                where = '%s:%d' % (_os.path.basename(fr.filename), fr.lineno)
                break
        after = _hash(d)
        return dict(load_raised=type(e).__name__, msg=str(e)[:300], where=where,
                    changed=sorted(k for k in before if before[k] != after.get(k)),
                    created=sorted(k for k in after if k not in before),
                    created_clusters_is_copy=_clusters_is_copy(d, before, after),
                    outside=sorted('%s/%s' % (q.name[len(d.name):], k) for q, b in zip(outside, before_out)
                                   for k, h in _hash(q).items() if b.get(k) != h))
    try:
        out = _collect(m, case)
        if case.get('use_then_reinspect') and again:
            # access templates / amplitudes a few times, then look at the loaded attributes and the directory again
            out['used'] = _use(m)
            out2 = _collect(m, case)
            out['reuse_diff'] = sorted(k for k in LAYOUT_KEYS + ('spike_attributes', 'traces_items', 'duration') if out.get(k) != out2.get(k))
            # (files touched by these accesses show up in 'changed' / 'created' below)
    finally:
        m.close()
    after = _hash(d)
    out['changed'] = sorted(k for k in before if before[k] != after.get(k))
    out['created'] = sorted(k for k in after if k not in before)
    # the directories the links of the dataset point into: nothing created, nothing modified there
    out['outside'] = sorted('%s/%s' % (q.name[len(d.name):], k) for q, b in zip(outside, before_out)
                            for k, h in _hash(q).items() if b.get(k) != h)
    # contents of the created files: the cluster copy is the template file (byte for byte), the created inverse is an
    # inverse of the whitening matrix the model shows
    out['created_clusters_is_copy'] = _clusters_is_copy(d, before, after)
    if 'whitening_mat_inv.npy' in out['created']:
        wmi_file = np.load(d / 'whitening_mat_inv.npy')
        wm = np.asarray(_arr_of(out['wm']), dtype=float)
        out['created_wmi_ok'] = bool(wmi_file.shape == wm.shape and np.allclose(wm @ wmi_file, np.eye(len(wm))))
        out['created_wmi'] = _cells(wmi_file)
    if not again:
        return out
    # a second model opened on the directory the first one left behind shows the same dataset
    out2 = _load_dir(d, {}, case, again=False, write=False)
    out['reopen_diff'] = sorted(k for k in LAYOUT_KEYS if out.get(k) != out2.get(k)) + \
        (['files'] if out2['changed'] or out2['created'] or out2['outside'] else []) + \
        (['second load raised %s' % out2['load_raised']] if 'load_raised' in out2 else [])
    return out


def _clusters_is_copy(d, before, after):
    """a created spike_clusters.npy, opened: True iff it is byte-identical to a spike-template file of the directory
    ("the spike-cluster copy"); None when no such file was created"""
    if 'spike_clusters.npy' in before or 'spike_clusters.npy' not in after:
        return None
    return any(h == after['spike_clusters.npy'] for n_, h in before.items()
               if n_.startswith(('spike_templates', 'spikes.templates')))


def _arr_of(cells):
    return np.array([float(Fraction(x[1:])) / ONE if isinstance(x, str) else x / float(ONE) for x in cells['data']], dtype=float).reshape(cells['shape'])


def impl(case):
    if case.get('kind') == 'round':
        # np.round itself on exactly representable rationals (the primitive `C04.roundHalfEven` stands for)
        return [int(x) for x in np.round(np.array([n / d for n, d in case['qs']], dtype='float64'))]
    with C.scratch_dir() as d:
        out = _load_dir(d / 'ks', case['files'], case)
        if case.get('also_alf') and 'load_raised' not in out:
            # load_layout_independent: the same arrays under ALF names (+ the times in seconds)
            files = {ALF_OF.get(n, n): f for n, f in case['files'].items()}
            st = case['files']['spike_times.npy']
            files['spikes.times.npy'] = dict(dtype='float64', shape=st['shape'], data=[x / case['rate'] for x in st['data']])
            out2 = _load_dir(d / 'alf', files, case)
            out['layout_diff'] = sorted(k for k in LAYOUT_KEYS if out.get(k) != out2.get(k))
    return out




def _time_tokens(case):
    """Exact encoding of the seconds files: every stored float is a dyadic rational; tokens are the numerators over
    one common power-of-two denominator `tden`."""
    vals = [Fraction(x) for name, f in case['files'].items() if name.startswith('spikes.times')
            for x in f['data'] if not isinstance(x, str)]
    tden = 1
    for v in vals:
        tden = max(tden, v.denominator)
    return tden


def _loose_sample_idx(case):
    """indices of the spikes whose sample is recovered from seconds t with fl64(t * rate) != t * rate (the model rounds the
    exact product; the real code can only round the float one)"""
    if any(n.startswith(('spikes.samples', 'spike_times.npy')) for n in case['files']) or case.get('expect_reject'):
        return set()
    st = next((f for n, f in case['files'].items() if n.startswith('spikes.times')), None)
    if st is None:
        return set()
    return {j for j, t in enumerate(st['data']) if not isinstance(t, str)
            and Fraction(t) * Fraction(case['rate']) != Fraction(float(np.float64(t) * np.float64(case['rate'])))}


WHITELIST = dict(spike_templates=(('spike_templates.npy', 'spikes.templates'), ('uint16', 'uint32', 'int32', 'int64', 'float32', 'float64')),
                 channel_map=(('channel_map.npy', 'channels.rawInd'), ('uint32', 'int32', 'int64')),
                 templates=(('templates.npy', 'templates.waveforms.'), ('float32', 'float64')))


def _refused_dtypes(case):
    """attributes whose stored dtype is outside the loader's whitelist (model.py:548, 611, 712; a float spike-template file
    is converted to int32 first, model.py:604-605).  Decided on the file the model will pick only when there is one
    candidate; generated cases never store two candidates of a refused dtype."""
    bad = []
    for key, (pats, okd) in WHITELIST.items():
        if any(n_.startswith(pats) and f['dtype'] not in okd for n_, f in case['files'].items()):
            bad.append(key)
    return bad


def _rat(q):
    q = Fraction(q)
    return int(q.numerator) if q.denominator == 1 else [int(q.numerator), int(q.denominator)]


def _frac(j):
    return Fraction(j) if isinstance(j, int) else Fraction(j[0], j[1])


def model_query(case, impl_res):
    if case.get('kind') == 'round':
        return dict(p=PID, op='round', qs=[[int(n), int(d)] for n, d in case['qs']])
    files = []
    tden = _time_tokens(case)
    for name, f in case['files'].items():
        if name == 'spike_times.npy' and 'float' in f['dtype']:
            # a float spike_times.npy holds samples: tokens are the sample numbers themselves
            data = [x if isinstance(x, str) else int(round(x)) for x in f['data']]
        elif name.startswith('spikes.times'):
            # seconds: exact numerators over tden
            data = [x if isinstance(x, str) else int(Fraction(x) * tden) for x in f['data']]
        else:
            data = [x if isinstance(x, str) else (_tok(x) if 'float' in f['dtype'] else int(x)) for x in f['data']]
        data = ['inf' if x == 'ninf' else x for x in data]     # one infinity token in the model: both signs are scrubbed
        files.append([name, dict(shape=f['shape'], data=data)])
    raw = None
    if case.get('raw'):
        raw = dict(sizes=[len(b) for b in _raw_bytes(case)], offset=case['offset'], itemsize=2)
    return dict(p=PID, op='load_full', files=files, rate=_rat(Fraction(case['rate'])), tden=tden, ncd=case['ncd'],
                one=ONE, raw=raw, items=case.get('trace_items') or [], bad=_refused_dtypes(case))


def judge(case, impl_res, ans):
    if 'err' in ans:
        return 'MACHINERY: driver error %s' % ans['err']
    m = ans['ok']
    if case.get('kind') == 'round':
        if impl_res.get('ok') != m['model']:
            return 'MACHINERY: np.round %s differs from the model\'s round-half-even %s on %s' % (
                impl_res.get('ok'), m['model'], case['qs'])
        return None
    if 'raised' in impl_res:
        return 'SPEC: the harness around load_model raised %s (%s) at %s' % (impl_res['raised'], impl_res['msg'], impl_res['where'])
    ok = impl_res['ok']
    anyo = m.get('any') or {}
    out_any = (anyo.get('outcome') or {}).get('error')
    if case.get('expect_reject') or case.get('expect_conflict') or case.get('expect_fail'):
        # a load that must be refused: the model (`C04.loadAny`) names the refusal AND the directory it leaves
        exp = 'non_monotone' if case.get('expect_reject') else ('conflict' if case.get('expect_conflict') else case['expect_fail'])
        if not str(out_any or '').startswith(exp):
            return 'MACHINERY: model outcome %r, the case expects %r' % (out_any, exp)
        if case.get('expect_reject') and m.get('error') != 'non_monotone':
            return 'MACHINERY: C04.load does not reject the non-monotonic case'
        if 'load_raised' not in ok:
            return 'SPEC: %s: the dataset was loaded' % ('non-monotonic spike times were not rejected' if case.get('expect_reject') else
                                                         'a directory that must be refused (%s)' % exp)
        if case.get('expect_reject') and ok['load_raised'] != 'ValueError':
            return 'SPEC: non-monotonic spike times were not rejected (%s)' % ok['load_raised']
        if ok['changed']:
            return 'SPEC: a refused load (%s) modified pre-existing files: %s' % (exp, ok['changed'])
        if ok.get('outside'):
            return 'SPEC: a refused load (%s) created / modified files OUTSIDE the dataset directory: %s' % (exp, ok['outside'])
        exp_created = sorted(f for f in anyo['files_after'] if f not in case['files'])
        if anyo.get('early') and exp_created:
            return 'MACHINERY: the model creates %s in a rejection it calls early' % exp_created
        if sorted(ok['created']) != exp_created:
            return 'SPEC: a refused load (%s, %s at %s) left %s behind, expected exactly %s' % (
                exp, ok['load_raised'], ok['where'], ok['created'], exp_created)
        if ok.get('created_clusters_is_copy') is False:
            return 'SPEC: the created spike_clusters.npy is not a byte copy of the spike-template file'
        return None
    if 'error' in m:
        return 'MACHINERY: model error %s on an in-domain directory' % m['error']
    if out_any is not None or anyo.get('files_after') != m['files_after']:
        return 'MACHINERY: C04.loadAny (%s, %s) disagrees with C04.loadFull (%s) on a loaded directory' % (
            out_any, anyo.get('files_after'), m['files_after'])
    if 'load_raised' in ok:
        return 'SPEC: load_model raised %s (%s) at %s on a well-formed dataset' % (ok['load_raised'], ok['msg'], ok['where'])
    # frame
    if ok['changed']:
        return 'SPEC: loading modified pre-existing files: %s' % ok['changed']
    if ok.get('outside'):
        return 'SPEC: loading created / modified files OUTSIDE the dataset directory (where its links point): %s' % ok['outside']
    exp_created = [f for f in m['files_after'] if f not in case['files']]
    if sorted(ok['created']) != sorted(exp_created):
        return 'SPEC: loading created %s, expected exactly %s' % (ok['created'], sorted(exp_created))
    # spike samples and times: the model's numbers (exact rationals; a float64 quotient / stored float is the
    # correctly rounded value of the rational)
    loose = _loose_sample_idx(case)
    if loose:
        # seconds whose float64 product with the rate is inexact: any integer within 1/2 (+ one rounding error of the
        # product) of the exact product is "the seconds times the rate, rounded"
        st_ = next(f for n_, f in case['files'].items() if n_.startswith('spikes.times'))
        if len(ok['spike_samples']) != len(m['spike_samples']):
            return 'SPEC: %d spike samples, expected %d' % (len(ok['spike_samples']), len(m['spike_samples']))
        for j, (g, e) in enumerate(zip(ok['spike_samples'], m['spike_samples'])):
            if j in loose:
                q = Fraction(st_['data'][j]) * Fraction(case['rate'])
                if abs(Fraction(g) - q) > Fraction(1, 2) + abs(q) / 2 ** 52:
                    return 'SPEC: spike sample %s of spike %d is not the seconds %r times the rate %r rounded' % (g, j, st_['data'][j], case['rate'])
            elif g != e:
                return 'SPEC: spike sample %s of spike %d, expected %s (seconds times the rate rounded half to even)' % (g, j, e)
    elif ok['spike_samples'] != m['spike_samples']:
        return 'SPEC: spike samples %s, expected %s (file, or the seconds times the rate rounded half to even)' % (
            ok['spike_samples'][:8], m['spike_samples'][:8])
    if ok['spike_times'] != [float(_frac(q)) for q in m['spike_times']]:
        return 'SPEC: spike times are not samples / rate (or the stored seconds)'
    for key, mk in (('n_spikes', 'n_spikes'), ('n_channels', 'n_channels'), ('n_templates', 'n_templates')):
        if ok.get(key) is not None and ok[key] != m[mk]:
            return 'SPEC: %s = %s, expected %s' % (key, ok[key], m[mk])
    # arrays: file contents (squeezed, NaN/inf scrubbed) or the documented default, all from the model
    for key, mk in (('amplitudes', 'amplitudes'), ('spike_templates', 'spike_templates'),
                    ('spike_clusters', 'spike_clusters'), ('channel_mapping', 'channel_map'),
                    ('templates', 'templates'), ('template_cols', 'template_cols'),
                    ('channel_shanks', 'channel_shanks'), ('channel_probes', 'channel_probes'),
                    ('wm', 'wm'), ('similar', 'similar')):
        if ok[key] != m[mk]:
            return 'SPEC: %s %s differs from the file contents (squeezed, NaN/inf scrubbed) / documented default %s' % (
                key, str(ok[key])[:200], str(m[mk])[:200])
    pos = m['channel_positions']
    if 'file' in pos:
        if ok['channel_positions'] != pos['file']:
            return 'SPEC: channel positions %s differ from the file %s' % (str(ok['channel_positions'])[:200], str(pos['file'])[:200])
    else:
        exp = [float(_frac(q)) for row in pos['rows'] for q in row]
        got = ok['positions_float']
        # np.linspace is a multi-step float computation: DESIGN §3 tolerance
        if len(got) != len(exp) or any(abs(g - e) > 2. ** -40 * max(1., abs(e)) for g, e in zip(got, exp)):
            return 'SPEC: channel positions that are not all distinct were not replaced by the linear layout: %s' % str(got)[:200]
    if m['wmi'] is not None and ok['wmi'] != m['wmi']:
        return 'SPEC: inverse whitening matrix differs from the stored file'
    # no whitening matrix and no stored inverse: the model's inverse WITH its default (`fv.wmi`) and the file the model
    # writes are `inv(eye(nc))` = the identity, exactly (`C04.load`: the written default)
    if m.get('wmi_of_identity') is not None:
        if ok['wmi'] != m['wmi_of_identity']:
            return 'CORR: inverse whitening matrix of a dataset without whitening matrix %s, model %s' % (
                str(ok['wmi'])[:200], str(m['wmi_of_identity'])[:200])
        if ok.get('created_wmi') != m['wmi_written']:
            return 'CORR: whitening_mat_inv.npy written for a dataset without whitening matrix %s, model %s' % (
                str(ok.get('created_wmi'))[:200], str(m['wmi_written'])[:200])
    if not ok['wm_wmi_identity'] and (('whitening_mat.npy' in case['files']) or ('whitening_mat_inv.npy' not in case['files'])):
        return 'SPEC: wmi is not the inverse of wm'
    # feature tables: stored arrays with the principal-component axes exchanged, memory-mapped (not scrubbed)
    for key in ('features', 'template_features'):
        if ok[key] != m[key]:
            return 'SPEC: %s %s differ from the stored tables %s' % (key, str(ok[key])[:200], str(m[key])[:200])
    # extra per-spike attributes
    if ok['spike_attributes'] != m['spike_attributes']:
        return 'SPEC: extra per-spike attributes %s, expected %s' % (
            {k: str(v)[:60] for k, v in sorted(ok['spike_attributes'].items())},
            {k: str(v)[:60] for k, v in sorted(m['spike_attributes'].items())})
    # ... each at the precision it is stored with ("equal the file contents": no cast of the float arrays)
    dts = ok.get('dtypes') or {}
    for key, pats in (('amplitudes', ('amplitudes.npy', 'spikes.amps')), ('templates', ('templates.npy', 'templates.waveforms.'))):
        cand = {f['dtype'] for n_, f in case['files'].items() if n_.startswith(pats)}
        if dts.get(key) is not None and cand and dts[key] not in cand:
            return 'SPEC: %s are shown as %s, the file holds %s' % (key, dts[key], sorted(cand))
    for n_, dt in (dts.get('spike_attributes') or {}).items():
        f = case['files'].get('spike_%s.npy' % n_)
        if f is not None and dt != f['dtype']:
            return 'SPEC: per-spike attribute %s is shown as %s, the file holds %s' % (n_, dt, f['dtype'])
    # traces
    if case.get('raw'):
        if m['traces'] is None or m['n_samples'] is None:
            return 'MACHINERY: model shows no traces although raw data was given'
        if ok['traces'] is None:
            return 'SPEC: no traces although raw data files are listed'
        if ok['n_samples'] != m['n_samples']:
            return 'SPEC: traces have %s samples, the raw files hold %s' % (ok['n_samples'], m['n_samples'])
        for it, got, exp in zip(case.get('trace_items') or [], ok['traces_items'], m['traces']):
            if exp is None:
                return 'MACHINERY: model cannot index the traces with the in-domain item %s' % it
            if got['ndim'] != 2 or got['ids'] != exp:
                return 'SPEC: traces[%s] is not raw[%s][:, channel_map]: %s, expected cells %s' % (
                    it, it, str(got['ids'])[:120], str(exp)[:120])
    elif ok['traces'] is not None:
        return 'SPEC: traces present without raw data'
    if ok['duration'] != float(_frac(m['duration'])):
        return 'SPEC: duration %r, expected %r (samples of the raw files over the rate / last spike time)' % (
            ok['duration'], float(_frac(m['duration'])))
    if ok.get('created_clusters_is_copy') is False:
        return 'SPEC: the created spike_clusters.npy is not a byte copy of the spike-template file'
    # attributes derived from the loaded arrays
    for key in ('template_ids', 'cluster_ids', 'probes', 'n_probes'):
        if ok[key] != m[key]:
            return 'SPEC: %s = %s, expected %s (the distinct values of the loaded array, increasing)' % (key, ok[key], m[key])
    if ok.get('layout_diff'):
        return 'SPEC: the same arrays under ALF names load to different %s' % ok['layout_diff']
    if ok.get('created_wmi_ok') is False:
        return 'SPEC: the created whitening_mat_inv.npy is not the inverse of the whitening matrix'
    if ok.get('reopen_diff'):
        return 'SPEC: a second model opened on the same directory differs in %s' % ok['reopen_diff']
    if ok.get('reuse_diff'):
        return 'SPEC: after using the model (%s) its loaded attributes / the directory differ in %s' % (
            ', '.join(ok.get('used') or []), ok['reuse_diff'])
    return None


def nontrivial(case):
    return True


def tally(rep, case, impl_res, ans):
    if case.get('kind') != 'round' and _loose_sample_idx(case):
        rep.count('alf_samples_judged_up_to_the_rounding_of_the_float_product')
    for k in case.get('tags', []):
        rep.count(k)
    if case.get('also_alf'):
        rep.count('loaded_under_both_layouts')


def classify(case, impl_res, ans, why):
    return dict(kind=why.split(':')[0], what=why.split(':')[1].strip()[:40], alf='alf' in case.get('tags', []),
                nan_template='all_nan_template' in case.get('tags', []),
                raised=impl_res.get('raised') or (impl_res.get('ok') or {}).get('load_raised'),
                where=impl_res.get('where') or (impl_res.get('ok') or {}).get('where'))


def shrink(case):
    if case.get('kind') == 'round':
        return
    optional = [n for n in case['files'] if n not in ('spike_times.npy', 'spike_templates.npy', 'channel_map.npy', 'channel_positions.npy',
                                                       'spikes.times.npy', 'spikes.templates.npy', 'channels.rawInd.npy',
                                                       'channels.localCoordinates.npy', 'templates.npy', 'templates.waveforms.npy')]
    for n in optional:
        drop = {n} | ({'whitening_mat_inv.npy'} if n == 'whitening_mat.npy' else set())
        c = dict(case); c['files'] = {k: v for k, v in case['files'].items() if k not in drop}
        yield c
    if case.get('raw'):
        c = dict(case); c['raw'] = None
        yield c


def F(dtype, shape, data):
    return dict(dtype=dtype, shape=list(shape), data=list(data))


def _fval(rng, dtype, lo, hi):
    """a value in [lo, hi) that NEEDS the precision of its stored dtype and is exactly representable in it: float64 ->
    a multiple of 2^-36 (about 40 significant bits: a float32 / float16 cast changes it), float32 -> a multiple of 2^-14
    (about 18 bits: a float16 cast changes it).  Every such value is a multiple of 2^-40 (exact token)."""
    sh = 36 if dtype == 'float64' else 14
    k = rng.randrange(lo * 2 ** sh, hi * 2 ** sh)
    return (k | 1) / 2. ** sh


def _near_reserved_name(rng):
    r = rng.pick(RESERVED_ATTRS)
    form = rng.randrange(4)
    if form == 0:
        n = r + rng.pick(['_sec', '_uv', '_adj', '_ks', '_orig', '_0', '2', 's', '.bak'])       # extends a reserved name
    elif form == 1:
        n = r[:rng.randrange(3, len(r))]                                                      # proper prefix of one
    elif form == 2:
        n = rng.pick(['raw_', 'ks_', 'old', 'n']) + r                                         # ends with one
    else:
        n = rng.pick([r.capitalize(), r.upper()])                                             # differs in case
    return n if n not in RESERVED_ATTRS else n + '_x'


def _attr_name_class(n):
    """tally only"""
    if any(n.startswith(r) for r in RESERVED_ATTRS):
        return 'extra_attr_name_extends_reserved_name'
    if any(r.startswith(n) for r in RESERVED_ATTRS):
        return 'extra_attr_name_prefix_of_reserved_name'
    if any(n.endswith(r) for r in RESERVED_ATTRS):
        return 'extra_attr_name_ends_with_reserved_name'
    return 'extra_attr_name_reserved_name_in_other_case'


def _make_refused(rng, case, files, tags, alf, v):
    """turn the directory into one the loader must refuse for a reason OTHER than non-monotonic times / two cluster files:
    a mandatory file missing, a stored dtype outside a whitelist, no spike at all.  What matters is what the failed
    load leaves in the directory (model: `C04.loadAny`)."""
    def named(*pre):
        return [n for n in files if n.startswith(pre)]
    kind = rng.randrange(8)
    if kind == 0:
        for n in named('spike_templates', 'spikes.templates'):
            del files[n]
        case['expect_fail'] = 'missing spike templates'
    elif kind == 1:
        for n in named('channel_map', 'channels.rawInd'):
            del files[n]
        case['expect_fail'] = 'missing channel map'
    elif kind == 2:
        for n in named('channel_positions', 'channels.localCoordinates'):
            del files[n]
        case['expect_fail'] = 'missing channel positions'
    elif kind == 3:
        for n in named('spike_times.npy', 'spikes.times'):
            del files[n]
        case['expect_fail'] = 'missing spike times'
    elif kind == 4:
        for n in named('spike_templates', 'spikes.templates'):
            files[n]['dtype'] = rng.pick(['int16', 'uint64', 'int8'])
        case['expect_fail'] = 'dtype spike templates'
    elif kind == 5:
        for n in named('channel_map', 'channels.rawInd'):
            files[n]['dtype'] = rng.pick(['uint16', 'int16', 'uint64'])
        case['expect_fail'] = 'dtype channel map'
    elif kind == 6 and named('templates.npy', 'templates.waveforms.'):
        for n in named('templates.npy', 'templates.waveforms.'):
            files[n]['dtype'] = 'float16'
        case['expect_fail'] = 'dtype templates'
    else:
        # no spike at all
        for n in [n for n in files if not n.startswith(('channel', 'templates.', 'template_ind', 'whitening', 'similar'))]:
            del files[n]
        files['spikes.times.npy' if alf else 'spike_times.npy'] = F('float64' if alf else 'uint64', v(0), [])
        files['spikes.templates.npy' if alf else 'spike_templates.npy'] = F('uint32', v(0), [])
        case['expect_fail'] = 'empty_train'
        case.pop('use_then_reinspect', None)
    tags.append('refused: ' + case['expect_fail'])
    tags.append('refused_' + ('with' if named('spike_clusters', 'spikes.clusters') else 'without') + '_cluster_file')


def make_case(rng, i):
    tags = []
    float_times_reject = False
    alf = i % 4 == 3
    vec2d = i % 5 == 2
    ns = rng.randrange(3, 10); nt = rng.randrange(2, 5); nc = rng.randrange(2, 6); nsw = rng.randrange(2, 5)
    ncd = nc + rng.randrange(0, 3)
    rate = rng.pick([1000., 2000., 4000.])
    samples = sorted(rng.randrange(0, 60) for _ in range(ns))
    st = [rng.randrange(nt) for _ in range(ns)]
    v = (lambda n: [n, 1]) if vec2d else (lambda n: [n])
    files = {}
    N = (lambda ks, al: al if alf else ks)
    # integer dtypes of the times: every integer dtype loads (there is no whitelist on spike_times.npy); the narrow ones
    # only for the small KiloSort-layout sample numbers generated here
    tdt = rng.pick(['uint64', 'int64', 'int32', 'uint32'] + ([] if alf else ['int16', 'uint16']))
    if alf:
        tags.append('alf')
        if i % 12 == 7:
            # seconds stored in SINGLE precision, late in a long recording (tens of minutes at 25 / 30 kHz): the spacing of
            # float32 there is several sample periods.  stored * rate is exact in double precision (24 + 11 bits), so
            # "samples recovered by rounding" has one answer: the exact product rounded
            rate = rng.pick([30000., 25000.])
            t0 = rng.randrange(300, 3500)
            samples = sorted(int(rate) * (t0 + 7 * k_) + rng.randrange(int(rate)) for k_ in range(ns))
            times = [float(np.float32(s_ / rate)) for s_ in samples]
            assert all(Fraction(t) * Fraction(rate) == Fraction(t * rate) for t in times)
            files['spikes.times.npy'] = F('float32', v(ns), times)
            tags.append('alf_times_float32_late_in_recording')
        elif i % 24 == 11:
            # realistic double-precision seconds: (n + 1/2) / rate and n / rate + a third of a period are not dyadic, their
            # float64 product with the rate is NOT exact: samples must be A rounding of the product (judged to within the
            # error of one float multiplication, see `_loose_sample_idx`)
            rate = rng.pick([30000., 25000., 1000.])
            ns_ = sorted(rng.randrange(0, 10 ** 6) for _ in range(ns))
            times = sorted((n_ + rng.pick([.5, 1 / 3., 0., .25])) / rate for n_ in ns_)
            samples = ns_
            files['spikes.times.npy'] = F('float64', v(ns), times)
            tags.append('alf_times_not_dyadic')
        elif i % 12 == 3:
            # seconds written as samples / rate (what an exporter does): the products are integers up to rounding
            files['spikes.times.npy'] = F('float64', v(ns), [s / rate for s in samples])
            tags.append('alf_times_samples_over_rate')
        else:
            # seconds that are exact dyadic rationals k / tden: times * rate is computed exactly in float64 and has
            # fractional part .25 / .5 / .75 (ties included): samples must be the product rounded half to even
            rate, tden = rng.pick([(1000., 32), (2000., 64), (4000., 128), (30000., 64), (25000., 16),
                                   (1024., 4096), (4096., 16384), (1000., 16)])
            ks = sorted(rng.randrange(0, 4 * tden) for _ in range(ns))
            if rng.random() < .5:
                # make sure of one exact tie k * rate / tden = n + 1/2: with rate = 2^a * odd and tden = 2^j these are
                # the odd multiples of 2^(j-1-a)
                r_ = int(rate); a_ = (r_ & -r_).bit_length() - 1; j_ = tden.bit_length() - 1
                if a_ <= j_ - 1:
                    k0 = 1 << (j_ - 1 - a_)
                    ks[rng.randrange(ns)] = k0 * (2 * rng.randrange(0, max(1, 2 * tden // k0)) + 1)
                    ks.sort()
            times = [k / tden for k in ks]
            fr = [(Fraction(t) * Fraction(rate)) % 1 for t in times]
            assert all(Fraction(t) * Fraction(rate) == Fraction(t * rate) for t in times)    # float products are exact
            files['spikes.times.npy'] = F('float64', v(ns), times)
            tags.append('alf_times_dyadic')
            if any(f == Fraction(1, 2) for f in fr):
                tags.append('alf_product_tie')
            if any(f in (Fraction(1, 4), Fraction(3, 4)) for f in fr):
                tags.append('alf_product_quarter')
        if rng.random() < .3:
            files['spikes.samples.npy'] = F(tdt, v(ns), samples)
            tags.append('alf_samples_file')
        else:
            tags.append('alf_samples_rounded')
    else:
        files['spike_times.npy'] = F(tdt, v(ns), samples)
        if i % 11 == 4:
            # spike samples stored as floats with a NaN / inf: scrubbed to 0 like every fully loaded array, and
            # the monotonicity check sees the scrubbed values
            vals = [float(x) for x in samples]
            k = rng.pick([0, 0, rng.randrange(ns)])
            vals[k] = rng.pick(['nan', 'inf', 'ninf'])
            files['spike_times.npy'] = F('float64', v(ns), vals)
            scrubbed = [0. if isinstance(x, str) else x for x in vals]
            tags.append('float_spike_samples_with_nan')
            if any(b < a for a, b in zip(scrubbed, scrubbed[1:])):
                float_times_reject = True
    files[N('spike_templates.npy', 'spikes.templates.npy')] = F(rng.pick(['uint32', 'int32', 'int64', 'uint16']), v(ns), st)
    if rng.random() < .6:
        # (any integer dtype: the loader converts the clusters to int32)
        files[N('spike_clusters.npy', 'spikes.clusters.npy')] = F(rng.pick(['int32', 'int32', 'int64', 'uint32', 'uint16']), v(ns), [rng.randrange(nt + 2) for _ in range(ns)])
    else:
        tags.append('no_spike_clusters')
    if rng.random() < .7:
        adt = rng.pick(['float64', 'float64', 'float32'])
        amps = [_fval(rng, adt, 0, 20) for _ in range(ns)]
        if rng.random() < .4:
            amps[rng.randrange(ns)] = rng.pick(['nan', 'inf', 'ninf'])
            if rng.random() < .5:
                amps[rng.randrange(ns)] = rng.pick(['nan', 'inf', 'ninf'])
            tags.append('nan_in_amplitudes')
        files[N('amplitudes.npy', 'spikes.amps.npy')] = F(adt, v(ns), amps)
    else:
        tags.append('no_amplitudes')
    files[N('channel_map.npy', 'channels.rawInd.npy')] = F(rng.pick(['int32', 'int64', 'uint32']), v(nc), rng.sample(range(ncd), nc))
    cells = [(x, y) for x in range(4) for y in range(nc + 2)]
    files[N('channel_positions.npy', 'channels.localCoordinates.npy')] = F('float64', [nc, 2], [c + _fval(rng, 'float64', 0, 1) for xy in rng.sample(cells, nc) for c in (xy[0] * 10, xy[1] * 20)])
    if i % 9 == 4:
        # two channels on the same position: the loader replaces the table by the linear layout
        pf = files[N('channel_positions.npy', 'channels.localCoordinates.npy')]
        a_, b_ = rng.sample(range(nc), 2)
        pf['data'][2 * b_:2 * b_ + 2] = pf['data'][2 * a_:2 * a_ + 2]
        tags.append('positions_not_distinct')
    if rng.random() < .4:
        files[N('channel_shanks.npy', 'channels.shanks.npy')] = F('int32', [nc], [rng.randrange(2) for _ in range(nc)]); tags.append('shanks')
    if rng.random() < .4:
        files[N('channel_probe.npy', 'channels.probes.npy')] = F('int32', [nc], sorted(rng.randrange(2) for _ in range(nc))); tags.append('probes')
    sparse = rng.random() < .3
    nloc = rng.randrange(2, nc + 1) if sparse else nc
    tdata = [_fval(rng, 'float32', -8, 9) for _ in range(nt * nsw * nloc)]
    if rng.random() < .25:
        t = rng.randrange(nt)
        for k in range(t * nsw * nloc, (t + 1) * nsw * nloc):
            tdata[k] = 'nan'
        tags.append('all_nan_template')
    elif rng.random() < .2 and not any(n in files for n in ('spike_clusters.npy', 'spikes.clusters.npy')):
        # (with curated clusters the loader derives cluster waveforms from the templates, NaN cells are then out of scope)
        tdata[rng.randrange(len(tdata))] = 'nan'; tags.append('some_nan_in_template')
    elif rng.random() < .3 and not any(n in files for n in ('spike_clusters.npy', 'spikes.clusters.npy')):
        # one channel of one template is NaN on every sample (a dead channel): only templates that are NaN
        # EVERYWHERE are emptied by the loader.  (Un-curated datasets only: with curated clusters the loader
        # ranks channels by amplitude at load time, which is undefined on NaN - outside the property.)
        t, c = rng.randrange(nt), rng.randrange(nloc)
        for s_ in range(nsw):
            tdata[(t * nsw + s_) * nloc + c] = 'nan'
        tags.append('nan_channel_in_template')
    files[N('templates.npy', 'templates.waveforms.npy')] = F('float32', [nt, nsw, nloc], tdata)
    if sparse:
        files[N('template_ind.npy', 'templates.waveformsChannels.npy')] = F('int32', [nt, nloc], [c for _ in range(nt) for c in rng.sample(range(nc), nloc)])
        tags.append('sparse_templates')
    w = rng.randrange(4)
    if w == 3:
        # only the inverse is stored: the whitening matrix defaults to the identity, the inverse is the file
        diag = [rng.pick([.5, 2., 4.]) for _ in range(nc)]
        files['whitening_mat_inv.npy'] = F('float64', [nc, nc], [1. / diag[a] if a == b else 0. for a in range(nc) for b in range(nc)])
        tags.append('whitening_inv_file_only')
    elif w:
        diag = [rng.pick([.5, 1., 2., 4.]) for _ in range(nc)]
        wmd = [diag[a] if a == b else 0. for a in range(nc) for b in range(nc)]
        if rng.random() < .2:
            a_, b_ = rng.sample(range(nc), 2)
            wmd[a_ * nc + b_] = rng.pick(['nan', 'inf', 'ninf'])      # off the diagonal: scrubbed to 0
            tags.append('nan_in_whitening')
        files['whitening_mat.npy'] = F('float64', [nc, nc], wmd)
        tags.append('whitening')
        if w == 2:
            files['whitening_mat_inv.npy'] = F('float64', [nc, nc], [1. / diag[a] if a == b else 0. for a in range(nc) for b in range(nc)])
            tags.append('whitening_inv_file')
    if rng.random() < .4:
        sim = [_fval(rng, 'float32', 0, 5) for _ in range(nt * nt)]
        if rng.random() < .3:
            sim[rng.randrange(nt * nt)] = rng.pick(['nan', 'inf', 'ninf']); tags.append('nan_in_similar')
        files['similar_templates.npy'] = F('float32', [nt, nt], sim); tags.append('similar')
    if rng.random() < .4:
        npcs = 2
        nl = rng.randrange(2, nc + 1)
        files['pc_features.npy'] = F('float32', [ns, npcs, nl], [_fval(rng, 'float32', -4, 5) for _ in range(ns * npcs * nl)])
        files['pc_feature_ind.npy'] = F('uint32', [nt, nl], [c for _ in range(nt) for c in rng.sample(range(nc), nl)])
        tags.append('features')
        if rng.random() < .3:
            # dense features: no column table next to pc_features.npy
            del files['pc_feature_ind.npy']
            tags.append('features_dense_without_pc_feature_ind')
    if 'features' in tags and rng.random() < .5:
        # features stored for a subset of the spikes only, with the table of their spike ids; non-finite cells
        # stay as they are (the array is memory-mapped)
        nf = rng.randrange(2, ns + 1)
        pf = files['pc_features.npy']
        nl_ = pf['shape'][2]
        data = [float(rng.randrange(-4, 5)) for _ in range(nf * 2 * nl_)]
        if rng.random() < .5:
            data[rng.randrange(len(data))] = rng.pick(['nan', 'inf'])
        files['pc_features.npy'] = F('float32', [nf, 2, nl_], data)
        files['pc_feature_spike_ids.npy'] = F(rng.pick(['int64', 'uint32']), rng.pick([[nf], [nf, 1]]), sorted(rng.sample(range(ns), nf)))
        tags.append('feature_spike_ids')
    if rng.random() < .3:
        ntf = rng.randrange(2, nt + 1)
        nf = rng.pick([ns, rng.randrange(2, ns + 1)])
        data = [float(rng.randrange(-4, 5)) for _ in range(nf * ntf)]
        if rng.random() < .3:
            data[rng.randrange(len(data))] = rng.pick(['nan', 'inf'])
        files['template_features.npy'] = F('float32', [nf, ntf], data)
        tags.append('template_features')
        if rng.random() < .7:
            files['template_feature_ind.npy'] = F('uint32', [nt, ntf], [c for _ in range(nt) for c in rng.sample(range(nt), ntf)])
            tags.append('template_feature_ind')
        if nf != ns or rng.random() < .3:
            files['template_feature_spike_ids.npy'] = F('int64', [nf], sorted(rng.sample(range(ns), nf)))
            tags.append('template_feature_spike_ids')
    if rng.random() < .3:
        xdt = rng.pick(['float64', 'float32'])
        files['spike_extra.npy'] = F(xdt, v(ns), [_fval(rng, xdt, 0, 9) for _ in range(ns)]); tags.append('extra_attr')
        if rng.random() < .5:
            # attribute names with underscores (spike_depth_um, spike_depth_raw) and non-finite cells
            vals = [float(rng.randrange(9)) for _ in range(ns)]
            vals[rng.randrange(ns)] = rng.pick(['nan', 'inf', 'ninf', 1.0])
            files['spike_depth_um.npy'] = F('float64', v(ns), vals)
            files['spike_depth_raw.npy'] = F('float32', v(ns), [float(rng.randrange(5)) for _ in range(ns)])
            tags.append('extra_attr_underscore_names')
    if rng.random() < .2:
        # a per-spike attribute holding several values per spike (KiloSort 4 writes spike_positions.npy of shape (n, 2))
        files['spike_positions.npy'] = F('float32', [ns, 2], [float(rng.randrange(40)) for _ in range(ns * 2)])
        tags.append('extra_attr_2d')
    if rng.random() < .2:
        files['spike_wrong.npy'] = F('float64', [ns + 1], [0.] * (ns + 1)); tags.append('extra_attr_wrong_length')
    if rng.random() < .3:
        # attribute names NEAR a reserved name: they are attributes like any other (only the exact reserved names are
        # the loader's own files)
        for _ in range(rng.randrange(1, 4)):
            n_ = _near_reserved_name(rng)
            k_ = ns if rng.random() < .85 else ns + 1
            files['spike_%s.npy' % n_] = F(rng.pick(['float64', 'float32', 'int64']), v(k_), [float(rng.randrange(50)) for _ in range(k_)])
            tags.append(_attr_name_class(n_))
    if rng.random() < .12:
        # an attribute file holding ONE value (stored as 0-d, (1,) or (1, 1)): an attribute of the wrong length like
        # spike_wrong.npy - not shown, and the dataset loads
        files['spike_%s.npy' % rng.pick(['gain', 'one', 'times_offset'])] = F(rng.pick(['float64', 'int64']), rng.pick([[], [1], [1, 1]]), [3.0])
        tags.append('extra_attr_single_value')
    if rng.random() < .15 and not alf:
        # files that carry a reserved name itself and the length of an attribute: never shown as attributes
        for n_ in rng.sample(['times_reordered', 'samples', 'amplitudes'], rng.randrange(1, 3)):
            files['spike_%s.npy' % n_] = F('float64', v(ns), [float(rng.randrange(50)) for _ in range(ns)])
        tags.append('reserved_name_files_present')
    if i % 23 == 11 and not sparse:
        # sparse templates with ONE local channel: the stored (nt, nsw, 1) / (nt, 1) arrays lose their last dimension
        # when read and get it back (np.atleast_3d; `cols = np.atleast_2d(cols).T`, model.py:703, 721-722)
        tn = N('templates.npy', 'templates.waveforms.npy')
        files[tn] = F('float32', [nt, nsw, 1], [float(rng.randrange(-8, 9)) or 1. for _ in range(nt * nsw)])
        files[N('template_ind.npy', 'templates.waveformsChannels.npy')] = F('int32', [nt, 1], [rng.randrange(nc) for _ in range(nt)])
        tags[:] = [t for t in tags if t not in ('all_nan_template', 'some_nan_in_template', 'nan_channel_in_template')]
        tags.append('sparse_one_local_channel')
    if i % 29 == 13:
        # no template file at all (and no curation): n_templates = highest template id + 1, zeros for the similarity
        for n_ in [n for n in list(files) if n.startswith(('templates.', 'template_ind', 'spike_clusters', 'spikes.clusters',
                                                           'pc_feature', 'similar_templates', 'template_feature'))]:
            del files[n_]
        tags[:] = [t for t in tags if t not in ('all_nan_template', 'some_nan_in_template', 'nan_channel_in_template',
                                                'sparse_templates', 'sparse_one_local_channel', 'features', 'similar', 'nan_in_similar',
                                                'feature_spike_ids', 'template_features', 'template_feature_ind',
                                                'template_feature_spike_ids')]
        if 'no_spike_clusters' not in tags:
            tags.append('no_spike_clusters')
        tags.append('no_templates')
    case = dict(p=PID, files=files, rate=rate, ncd=ncd, offset=rng.pick([0, 0, 6]), tags=tags)
    if rng.random() < .3:
        case['omit_defaults'] = True
        tags.append('params.py without the optional entries')
    if rng.random() < .25:
        case['decoy'] = True
        tags.append('another dataset loaded before in the same process')
    if rng.random() < .5:
        n_raw = rng.randrange(70, 90)
        k = rng.randrange(1, 4)
        cuts = sorted(rng.sample(range(1, n_raw), k - 1))
        b = [0] + cuts + [n_raw]
        vals = [[r * ncd + c - RAW_BIAS for c in range(ncd)] for r in range(n_raw)]      # distinct cells
        case['raw'] = [vals[x:y] for x, y in zip(b, b[1:])]
        tags.append('raw_%d_files' % k)
        if ncd > nc:
            tags.append('raw_wider_than_map')
        if rng.random() < .25:
            # a file ending in an incomplete row: the reader counts full rows only
            case['raw_trailing'] = {str(rng.randrange(k)): rng.randrange(1, 2 * ncd)}
            tags.append('raw_trailing_bytes')
        # row indices at which model.traces[...] is observed (all inside C01's domain)
        n = n_raw
        lo = rng.randrange(0, n); hi = rng.randrange(lo + 1, n + 1)
        neg = rng.random() < .5
        items = [dict(slice=[None, None]),
                 dict(list=sorted(rng.sample(range(n), rng.randrange(1, 6)))),
                 dict(int=rng.randrange(-n, n)),
                 dict(slice=[lo - n if neg else (lo or None), (hi - n if hi < n else None) if neg else hi])]
        case['trace_items'] = items
    if rng.random() < .3:
        case['text'] = {'cluster_group.tsv': 'cluster_id\tgroup\n0\tgood\n1\tmua\n'}
    if i % 7 == 3:
        # coordinator scenario: use the model (template accesses with a template scaling), then inspect it again
        case['use_then_reinspect'] = True
        if rng.random() < .7:
            case['template_scaling'] = rng.pick([2.0, 0.5, 3.0])
            tags.append('template_scaling')
        tags.append('use_then_reinspect')
    if float_times_reject:
        case['expect_reject'] = True
    if alf and i % 3 == 0:
        # ALF files carrying a label between the attribute name and the extension (spikes.times.probe00.npy):
        # found through the wildcard patterns
        lab = rng.pick(['probe00', 'imec1', 'a'])
        for name in [n for n in list(files) if n.startswith(('spikes.', 'channels.', 'templates.waveforms'))]:
            files[name[:-4] + '.' + lab + '.npy'] = files.pop(name)
        tags.append('alf_labelled_names')
    if i % 19 == 5 and 'amplitudes.npy' in files:
        # two candidate names for one attribute: the first pattern of the loader's list wins
        files['spikes.amps.npy'] = F('float64', files['amplitudes.npy']['shape'], [7.25] * len(files['amplitudes.npy']['data']))
        tags.append('two_candidates_amplitudes')
    if i % 19 == 6 and 'channel_map.npy' in files:
        files['channels.rawInd.npy'] = F('int32', files['channel_map.npy']['shape'], list(reversed(files['channel_map.npy']['data'])))
        tags.append('two_candidates_channel_map')
    if alf and i % 13 == 7:
        st_ = next((f for n_, f in files.items() if n_.startswith('spikes.times')), None)
        if st_ is not None and len(st_['data']) >= 2 and st_['data'][0] != st_['data'][-1]:
            st_['data'][0], st_['data'][-1] = st_['data'][-1], st_['data'][0]
            case['expect_reject'] = True
            tags.append('alf_non_monotonic')
    if i % 17 == 9 and any(n in files for n in ('spike_clusters.npy', 'spikes.clusters.npy')):
        # both a KiloSort-named and an ALF-named cluster file: the loader accepts only one
        other = 'spikes.clusters.npy' if 'spike_clusters.npy' in files else 'spike_clusters.npy'
        src = files['spike_clusters.npy' if other == 'spikes.clusters.npy' else 'spikes.clusters.npy']
        files[other] = F('int32', src['shape'], [0] * len(src['data']))
        case['expect_conflict'] = True
        tags.append('two_cluster_files')
    if i % 13 == 7 and not alf:
        bad = list(samples)
        bad[1], bad[0] = min(bad[0], bad[1]) , max(bad[0], bad[1]) + 1
        files['spike_times.npy'] = F(tdt, v(ns), bad)
        case['expect_reject'] = True
        tags.append('non_monotonic')
    if i % 16 == 10 and not (case.get('expect_reject') or case.get('expect_conflict')):
        _make_refused(rng, case, files, tags, alf, v)
    if rng.random() < .3:
        # storage form of the directory: some of its files are symbolic links
        links = {}
        form = rng.randrange(4)
        names = sorted(files) + ['raw%d.dat' % k_ for k_ in range(len(case.get('raw') or []))] + sorted(case.get('text') or {})
        if form in (0, 1):
            links['store'] = sorted(rng.sample(names, rng.randrange(0, len(names) + 1))) + (['params.py'] if form == 0 or rng.random() < .5 else [])
            links['absolute'] = rng.random() < .5
            tags.append('links_into_a_store')
            if 'params.py' in links['store']:
                tags.append('params.py_is_a_link_into_a_store')
        elif form == 2:
            links['shared_params'] = True
            if rng.random() < .3:
                links['store'] = sorted(rng.sample(names, rng.randrange(1, len(names) + 1)))
            tags.append('params.py_is_a_link_to_the_params_of_another_dataset')
        if form == 3 or rng.random() < .2:
            links['via_dir_link'] = True
            tags.append('directory_reached_through_a_link')
        case['links'] = links
    return case


def gen(tier, rng):
    q = tier == 'quick'
    # np.round against the model's rounding: dyadic rationals with all fractional parts, both signs, ties
    for _ in range(4 if q else 40):
        qs = []
        for _ in range(50):
            den = 2 ** rng.randrange(0, 6)
            qs.append([rng.randrange(-2000, 2000) if rng.random() < .8 else rng.randrange(-2 ** 40, 2 ** 40), den])
        qs += [[2 * k + 1, 2] for k in range(-6, 6)]
        yield dict(p=PID, kind='round', qs=qs, tags=['np_round_vs_model'])
    for i in range(400 if q else 6000):
        c = make_case(rng, i)
        st = c['files'].get('spike_times.npy')
        if st is not None and not c.get('expect_reject') and not c.get('expect_fail') and 'float' not in st['dtype'] and i % 3 != 1 \
                and not any(n.startswith(('spikes.', 'channels.', 'templates.w')) for n in c['files']):
            c['also_alf'] = True      # load the same arrays a second time under ALF names
        yield c
