"""Self-contained, JSON-describable KiloSort/phy (or ALF-named) dataset directories.

A *spec* is a plain dict (replayable); write_dataset() materialises it in a scratch directory.
"""
import numpy as np
from pathlib import Path

KS_NAMES = dict(
    spike_samples='spike_times.npy', spike_templates='spike_templates.npy',
    spike_clusters='spike_clusters.npy', amplitudes='amplitudes.npy', channel_map='channel_map.npy',
    channel_positions='channel_positions.npy', channel_shanks='channel_shanks.npy',
    channel_probes='channel_probe.npy', templates='templates.npy', template_ind='template_ind.npy',
    whitening='whitening_mat.npy', whitening_inv='whitening_mat_inv.npy',
    similar_templates='similar_templates.npy', pc_features='pc_features.npy',
    pc_feature_ind='pc_feature_ind.npy', pc_feature_spike_ids='pc_feature_spike_ids.npy',
    template_features='template_features.npy', template_feature_ind='template_feature_ind.npy',
    template_feature_spike_ids='template_feature_spike_ids.npy')

ALF_NAMES = dict(KS_NAMES)
ALF_NAMES.update(
    spike_samples='spikes.samples.npy', spike_times_sec='spikes.times.npy',
    spike_templates='spikes.templates.npy', spike_clusters='spikes.clusters.npy',
    amplitudes='spikes.amps.npy', channel_map='channels.rawInd.npy',
    channel_positions='channels.localCoordinates.npy', channel_shanks='channels.shanks.npy',
    channel_probes='channels.probes.npy', templates='templates.waveforms.npy',
    template_ind='templates.waveformsChannels.npy')

DEFAULT_DTYPES = dict(
    spike_samples='uint64', spike_templates='uint32', spike_clusters='int32', amplitudes='float64',
    channel_map='int32', channel_positions='float64', channel_shanks='int32', channel_probes='int32',
    templates='float32', template_ind='int32', whitening='float64', whitening_inv='float64',
    similar_templates='float32', pc_features='float32', pc_feature_ind='int32',
    pc_feature_spike_ids='int64', template_features='float32', template_feature_ind='int32',
    template_feature_spike_ids='int64', spike_times_sec='float64')

VEC_KEYS = ('spike_samples', 'spike_templates', 'spike_clusters', 'amplitudes', 'channel_map',
            'spike_times_sec')


def expanded(spec):
    """`pad_spikes: N` in a spec stands for N spikes: the listed ones followed by deterministic filler
    spikes (keeps cases with tens of thousands of spikes small on disk and in replays)."""
    n = spec.get('pad_spikes')
    if not n or n <= len(spec['spike_samples']):
        return spec
    out = dict(spec)
    k0 = len(spec['spike_samples'])
    nt = len(spec['templates'])
    last = spec['spike_samples'][-1] if k0 else 0
    extra = range(n - k0)
    out['spike_samples'] = list(spec['spike_samples']) + [last + 1 + i for i in extra]
    fill_t = [(i * 7 + 3) % nt for i in extra]
    out['spike_templates'] = list(spec['spike_templates']) + fill_t
    if spec.get('spike_clusters') is not None:
        out['spike_clusters'] = list(spec['spike_clusters']) + fill_t
    if spec.get('amplitudes') is not None:
        out['amplitudes'] = list(spec['amplitudes']) + [1.0] * (n - k0)
    if spec.get('spike_times_sec') is not None:
        raise ValueError('pad_spikes with spike_times_sec is not supported')
    return out


def write_dataset(d, spec):
    """Write the dataset described by spec into directory d; returns the params.py path."""
    spec = expanded(spec)
    d = Path(d)
    d.mkdir(parents=True, exist_ok=True)
    names = ALF_NAMES if spec.get('alf') else KS_NAMES
    if spec.get('alf') and spec.get('spike_times_sec') is None:
        # ALF-named datasets give their spike times in seconds (spikes.times.npy) next to the samples
        spec = dict(spec, spike_times_sec=[s / float(spec['sample_rate']) for s in spec['spike_samples']])
    dtypes = dict(DEFAULT_DTYPES)
    dtypes.update(spec.get('dtypes', {}))
    if spec.get('times_in_seconds'):
        # the spike times are given in SECONDS (spikes.times.npy) and there is no file of samples: the loader recovers
        # the samples by rounding times*rate (generators use it only where that recovers spec['spike_samples'] exactly)
        rate = float(spec['sample_rate'])
        sec = np.array([s / rate for s in spec['spike_samples']], dtype=np.float64)
        assert np.array_equal(np.round(sec * rate).astype(np.int64), np.array(spec['spike_samples'], dtype=np.int64))
        np.save(d / 'spikes.times.npy', sec.reshape((-1, 1)) if spec.get('vec2d') else sec)
    for key, fname in names.items():
        if spec.get(key) is None or (key == 'spike_samples' and spec.get('times_in_seconds')):
            continue
        arr = np.array(spec[key], dtype=dtypes[key])
        if key in VEC_KEYS and spec.get('vec2d'):
            arr = arr.reshape((-1, 1))
        np.save(d / fname, arr)
    for fname, (dt, data) in (spec.get('extra_npy') or {}).items():
        np.save(d / fname, np.array(data, dtype=dt))
    for fname, text in (spec.get('text_files') or {}).items():
        (d / fname).write_text(text)
    dat_paths = []
    raw = spec.get('raw')
    if raw:
        for i, part in enumerate(raw):
            p = d / ('raw%d.dat' % i)
            a = np.array(part, dtype=spec.get('dtype', 'int16')).reshape((-1, spec['n_channels_dat']))
            with open(p, 'wb') as f:
                f.write(b'\x07' * spec.get('offset', 0))
                f.write(a.tobytes())
            dat_paths.append(p.name)
    params = d / 'params.py'
    params.write_text(
        'dat_path = %r\nn_channels_dat = %d\ndtype = %r\noffset = %d\nsample_rate = %r\nhp_filtered = False\n' % (
            dat_paths if len(dat_paths) != 1 else dat_paths[0], spec['n_channels_dat'],
            spec.get('dtype', 'int16'), spec.get('offset', 0), float(spec['sample_rate'])) +
        ('template_scaling = %r\n' % float(spec['template_scaling']) if spec.get('template_scaling') is not None else '') +
        ''.join('%s = %r\n' % kv for kv in sorted((spec.get('params_extra') or {}).items())))
    return params


def random_spec(rng, ns=None, nt=None, nc=None, nsw=None, raw=True, curated=None, feats=None,
                whiten=None, nloc=None, tfeats=None, shanks=None):
    """A random *dense-template* dataset spec with small exactly-representable values."""
    nc = nc or rng.randrange(2, 7)
    nt = nt or rng.randrange(2, 5)
    ns = ns or rng.randrange(2, 14)
    nsw = nsw or rng.randrange(2, 7)
    ncd = nc + rng.randrange(0, 3)
    sr = rng.pick([1., 2., 100., 1000.])
    n_raw = rng.randrange(ns + 4, ns + 40)
    samples = sorted(rng.randrange(0, n_raw) for _ in range(ns))
    st = [rng.randrange(nt) for _ in range(ns)]
    spec = dict(
        n_channels=nc, n_channels_dat=ncd, sample_rate=sr, dtype='int16', offset=rng.pick([0, 0, 3, 16]),
        spike_samples=samples, spike_templates=st,
        amplitudes=[rng.randrange(0, 9) / 2. for _ in range(ns)],
        channel_map=rng.sample(range(ncd), nc),
        channel_positions=_positions(rng, nc),
        templates=[[[float(rng.randrange(-8, 9)) for _ in range(nc)] for _ in range(nsw)] for _ in range(nt)],
    )
    if curated if curated is not None else rng.random() < .5:
        ncl = rng.randrange(1, nt + 3)
        spec['spike_clusters'] = [rng.randrange(ncl) if rng.random() < .5 else t for t in st]
    if shanks if shanks is not None else rng.random() < .3:
        spec['channel_shanks'] = [rng.randrange(2) for _ in range(nc)]
    if whiten if whiten is not None else rng.random() < .5:
        diag = [rng.pick([.5, 1., 2., 4.]) for _ in range(nc)]
        spec['whitening'] = [[diag[i] if i == j else 0. for j in range(nc)] for i in range(nc)]
        if rng.random() < .5:
            spec['whitening_inv'] = [[1. / diag[i] if i == j else 0. for j in range(nc)] for i in range(nc)]
    if raw:
        k = rng.randrange(1, 4)
        cuts = sorted(rng.sample(range(1, n_raw), k - 1)) if k > 1 else []
        bounds = [0] + cuts + [n_raw]
        vals = [[((r * 7 + c * 3) % 41) - 20 for c in range(ncd)] for r in range(n_raw)]
        spec['raw'] = [vals[a:b] for a, b in zip(bounds, bounds[1:])]
    if feats if feats is not None else rng.random() < .5:
        nl = nloc or rng.randrange(1, nc + 1)
        npcs = rng.randrange(1, 4)
        spec['pc_features'] = [[[float(rng.randrange(-4, 9)) for _ in range(nl)] for _ in range(npcs)] for _ in range(ns)]
        spec['pc_feature_ind'] = [rng.sample(range(nc), nl) for _ in range(nt)]
    if tfeats if tfeats is not None else rng.random() < .3:
        nl = rng.randrange(1, nt + 1)
        spec['template_features'] = [[float(rng.randrange(-4, 9)) for _ in range(nl)] for _ in range(ns)]
        spec['template_feature_ind'] = [rng.sample(range(nt), nl) for _ in range(nt)]
    return spec


def _positions(rng, nc):
    cells = [(x, y) for x in range(4) for y in range(nc + 2)]
    return [[float(10 * x), float(20 * y)] for x, y in rng.sample(cells, nc)]


def load(params_path, reopen=False):
    """Open the dataset; with `reopen` a first model is opened and closed before (it leaves its
    created files behind: spike_clusters.npy, whitening_mat_inv.npy), and the model returned is the
    second one."""
    from phylib.io.model import load_model
    if reopen:
        load_model(params_path).close()
    return load_model(params_path)
